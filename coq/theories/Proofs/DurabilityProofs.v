(* C10 - proofs about the writer protocol model (Model/Durability.v):
   an inductive invariant over every reachable state of every schedule, from
   which atomic replacement, old-or-new after a crash and durability after close
   follow.  Stdlib only. *)
From Coq Require Import NArith List Bool Lia.
From LC Require Import Base.Lib Gen.Durability_gen Model.Durability.
Import ListNotations.
Open Scope N_scope.

(* ------------------------------------------------------------------ *)
(* association lists *)

Lemma get_app k (a b : dict) :
  get k (a ++ b) = match get k a with Some v => Some v | None => get k b end.
Proof.
  unfold get. induction a as [|[k' v'] a IH]; cbn [app assoc]; [reflexivity|].
  destruct (N.eqb k k'); [reflexivity | exact IH].
Qed.

Lemma get_filter_key (p : N -> bool) k (d : dict) :
  get k (filter (fun kv => p (fst kv)) d) = if p k then get k d else None.
Proof.
  unfold get. induction d as [|[k' v'] d IH]; cbn [filter fst].
  - cbn [assoc]. now destruct (p k).
  - destruct (p k') eqn:Hp.
    + cbn [assoc]. destruct (N.eqb_spec k k') as [->|Hne]; [now rewrite Hp | exact IH].
    + rewrite IH. cbn [assoc]. destruct (N.eqb_spec k k') as [->|Hne]; [now rewrite Hp | reflexivity].
Qed.

Lemma get_del k k' (d : dict) :
  get k (del k' d) = if N.eqb k k' then None else get k d.
Proof.
  unfold del. rewrite (get_filter_key (fun x => negb (N.eqb x k')) k d).
  now destruct (N.eqb k k').
Qed.

Lemma get_entries k t b g : get k (entries t b g) = view t b g k.
Proof.
  unfold entries, view.
  rewrite (get_filter_key (fun x => negb (memN x g)) k (b ++ t)), get_app.
  now destruct (memN k g).
Qed.

Lemma get_cons k k' v (d : dict) :
  get k ((k', v) :: d) = if N.eqb k k' then Some v else get k d.
Proof. reflexivity. Qed.

Lemma memN_cons x k g : memN x (k :: g) = N.eqb x k || memN x g.
Proof. reflexivity. Qed.

(* ------------------------------------------------------------------ *)
(* "reloading d as the trie does not change what is visible" *)

Definition agree (d : dict) (m : mem) : Prop :=
  forall k, view d (m_btree m) (m_grave m) k = contents m k.

Lemma agree_snapshot m : agree (snapshot_of m) m.
Proof.
  intros k. unfold contents, snapshot_of, view. rewrite get_entries. unfold view.
  destruct (memN k (m_grave m)); [reflexivity|].
  now destruct (get k (m_btree m)).
Qed.

Lemma agree_self m : agree (m_trie m) m.
Proof. intros k. reflexivity. Qed.

Lemma memN_filter_ne x k g : memN x (filter (fun y => negb (N.eqb y k)) g) = if N.eqb x k then false else memN x g.
Proof.
  unfold memN. induction g as [|y g IH]; cbn [filter existsb]; [now destruct (N.eqb x k)|].
  destruct (N.eqb y k) eqn:Ey; cbn [negb existsb]; rewrite IH; destruct (N.eqb x k) eqn:Ex; try reflexivity.
  - apply N.eqb_eq in Ey. subst y. now rewrite Ex.
  - apply N.eqb_eq in Ex. subst x. rewrite N.eqb_sym, Ey. reflexivity.
Qed.

Lemma agree_upd d m k v : agree d m -> agree d (do_upd k v m).
Proof.
  intros H x. specialize (H x). unfold contents, do_upd, view in *.
  cbn [m_trie m_btree m_grave] in *. rewrite memN_filter_ne.
  destruct (N.eqb x k) eqn:E.
  - rewrite !get_cons, E. reflexivity.
  - destruct (memN x (m_grave m)); [reflexivity|].
    rewrite !get_cons, !get_del, E. exact H.
Qed.

Lemma agree_change d m c : agree d m -> agree d (do_change c m).
Proof.
  intros H. destruct c as [k v|k v|k]; cbn [do_change].
  - now apply agree_upd.
  - destruct (contents m k); [exact H | now apply agree_upd].
  - intros x. specialize (H x). unfold contents, view in *. cbn [m_trie m_btree m_grave] in *.
    rewrite memN_cons. destruct (N.eqb x k) eqn:E; cbn [orb]; [reflexivity|].
    destruct (memN x (m_grave m)); [reflexivity|].
    rewrite get_del, E. exact H.
Qed.

Lemma view_nil d k : view d [] [] k = get k d.
Proof. reflexivity. Qed.

(* ------------------------------------------------------------------ *)
(* the invariant *)

Definition good_file (d : dict) : option file := Some (mkFile d n_chunks true).

Lemma decode_good d : decode (good_file d) = Some d.
Proof. reflexivity. Qed.

Definition writer_inv (w : writer) (m : mem) (fs : fsys) : Prop :=
  agree (w_snap w) m /\
  (m_dirty m = false -> forall k, get k (w_snap w) = contents m k) /\
  match w_pc w with
  | WStart => decode (fs_path fs) = w_old w
  | WWrote n => n <= n_chunks /\ fs_tmp fs = Some (mkFile (w_snap w) n false) /\
                decode (fs_path fs) = w_old w
  | WSynced => fs_tmp fs = good_file (w_snap w) /\ decode (fs_path fs) = w_old w
  | WRenamed => fs_path fs = good_file (w_snap w)
  | WFinished => fs_path fs = good_file (w_snap w) /\ w_result w = Some (w_snap w)
  end.

Definition live_inv (d : dict) (m : mem) (fs : fsys) : Prop :=
  agree d m /\
  (m_dirty m = false -> m_handle m = None -> forall k, get k d = contents m k) /\
  (forall w, m_handle m = Some w -> writer_inv w m fs).

Definition Inv (s : state) : Prop :=
  exists d, fs_path (st_fs s) = good_file d /\
            (st_pc s <> Crashed -> live_inv d (st_mem s) (st_fs s)).

Lemma Inv_init d0 : Inv (init d0).
Proof.
  exists d0. split; [reflexivity|]. intros _.
  refine (conj _ (conj _ _)).
  - intros k. reflexivity.
  - intros _ _ k. reflexivity.
  - intros w H. discriminate H.
Qed.

(* --- foreground primitives ---------------------------------------- *)

Lemma live_change d m fs c : live_inv d m fs -> live_inv d (do_change c m) fs.
Proof.
  intros (Hag & Hcl & Hw).
  assert (Hd : m_dirty (do_change c m) = true \/ do_change c m = m).
  { destruct c as [k v|k v|k]; cbn [do_change]; [now left| |now left].
    destruct (contents m k); [now right | now left]. }
  assert (Hh : m_handle (do_change c m) = m_handle m).
  { destruct c as [k v|k v|k]; cbn [do_change]; try reflexivity.
    destruct (contents m k); reflexivity. }
  destruct Hd as [Hd|Hd]; [|rewrite Hd; exact (conj Hag (conj Hcl Hw))].
  refine (conj _ (conj _ _)).
  - now apply agree_change.
  - intros Hf. rewrite Hd in Hf. discriminate.
  - intros w Hw'. rewrite Hh in Hw'. destruct (Hw w Hw') as (Ha & Hc & Hp).
    refine (conj _ (conj _ Hp)).
    + now apply agree_change.
    + intros Hf. rewrite Hd in Hf. discriminate.
Qed.

Lemma finished_pc w : is_finished w = true -> w_pc w = WFinished.
Proof. unfold is_finished. destruct (w_pc w); try discriminate. reflexivity. Qed.

Lemma sync_contents d m fs :
  fs_path fs = good_file d -> live_inv d m fs -> forall k, contents (sync m fs) k = contents m k.
Proof.
  intros Hp (Hag & Hcl & Hw) k. unfold sync.
  destruct (m_handle m) as [w|] eqn:Hh.
  - destruct (Hw w eq_refl) as (Ha & Hc & Hpc).
    destruct (is_finished w) eqn:Hf; [|reflexivity].
    rewrite (finished_pc w Hf) in Hpc.
    destruct Hpc as (_ & Hres). rewrite Hres.
    destruct (m_dirty m) eqn:Hd; [reflexivity|].
    unfold contents at 1. cbn [m_trie m_btree m_grave]. rewrite view_nil. now apply Hc.
  - rewrite Hp, decode_good. unfold contents at 1. cbn [m_trie m_btree m_grave]. apply Hag.
Qed.

Lemma live_sync d m fs :
  fs_path fs = good_file d -> live_inv d m fs -> live_inv d (sync m fs) fs.
Proof.
  intros Hp Hl. pose proof (sync_contents d m fs Hp Hl) as Hc.
  pose proof Hl as (Hag & Hcl & Hw). unfold sync in *.
  destruct (m_handle m) as [w|] eqn:Hh.
  - destruct (Hw w eq_refl) as (Ha & Hcw & Hpc).
    destruct (is_finished w) eqn:Hf; [|exact Hl].
    rewrite (finished_pc w Hf) in Hpc.
    destruct Hpc as (Hpath & Hres). rewrite Hp in Hpath. inversion Hpath; subst d.
    rewrite Hres in *. destruct (m_dirty m) eqn:Hd.
    + refine (conj Hag (conj _ _)).
      * cbn [m_dirty]. intros Hx. discriminate.
      * cbn [m_handle]. intros w' Hx. discriminate.
    + refine (conj _ (conj _ _)).
      * intros k. reflexivity.
      * cbn [m_dirty m_handle]. intros _ _ k. reflexivity.
      * cbn [m_handle]. intros w' Hx. discriminate.
  - rewrite Hp, decode_good in *. refine (conj _ (conj _ _)).
    + intros k. reflexivity.
    + cbn [m_dirty m_handle]. intros Hd _ k. rewrite Hc. now apply Hcl.
    + cbn [m_handle]. intros w' Hx. discriminate.
Qed.

Lemma checkpoint_contents m fs k : contents (checkpoint m fs) k = contents m k.
Proof.
  unfold checkpoint. destruct (m_handle m); [reflexivity|]. now destruct (m_dirty m).
Qed.

Lemma live_checkpoint d m fs :
  fs_path fs = good_file d -> live_inv d m fs -> live_inv d (checkpoint m fs) fs.
Proof.
  intros Hp Hl. pose proof Hl as (Hag & Hcl & Hw). unfold checkpoint.
  destruct (m_handle m) as [w|] eqn:Hh; [exact Hl|].
  destruct (m_dirty m) eqn:Hd; [|exact Hl].
  refine (conj Hag (conj _ _)).
  - cbn [m_handle]. intros _ Hx. discriminate.
  - cbn [m_handle]. intros w Hx. inversion Hx; subst w. cbn [w_snap].
    refine (conj _ (conj _ _)).
    + apply (agree_snapshot m).
    + intros _ k. exact (get_entries k (m_trie m) (m_btree m) (m_grave m)).
    + cbn [w_pc w_old]. reflexivity.
Qed.

Lemma set_handle_contents m h k : contents (set_handle m h) k = contents m k.
Proof. reflexivity. Qed.

(* join of a finished writer by drop *)
Lemma live_join d m fs w :
  fs_path fs = good_file d -> live_inv d m fs -> m_handle m = Some w -> is_finished w = true ->
  live_inv d (set_handle m None) fs.
Proof.
  intros Hp (Hag & Hcl & Hw) Hh Hf. destruct (Hw w Hh) as (Ha & Hc & Hpc).
  rewrite (finished_pc w Hf) in Hpc. destruct Hpc as (Hpath & _).
  rewrite Hp in Hpath. inversion Hpath; subst d.
  refine (conj Hag (conj _ _)).
  - cbn [set_handle m_dirty]. intros Hd _ k. now apply Hc.
  - cbn [set_handle m_handle]. intros w' Hx. discriminate.
Qed.

(* --- the writer ----------------------------------------------------- *)

(* the live invariant with the handle replaced by a moved writer *)
Lemma live_moved d m fs' w' :
  agree d m ->
  writer_inv w' (set_handle m (Some w')) fs' ->
  live_inv d (set_handle m (Some w')) fs'.
Proof.
  intros Hag Hw. refine (conj Hag (conj _ _)).
  - cbn [set_handle m_handle]. intros _ Hx. discriminate.
  - cbn [set_handle m_handle]. intros w0 Hx. inversion Hx; subst w0. exact Hw.
Qed.

Lemma writer_step_inv d m fs w w' fs' :
  fs_path fs = good_file d -> live_inv d m fs -> m_handle m = Some w ->
  wr_step w fs = (w', fs') ->
  w_snap w' = w_snap w /\ w_old w' = w_old w /\
  exists d', fs_path fs' = good_file d' /\ live_inv d' (set_handle m (Some w')) fs' /\
             (d' = d \/ (w_pc w = WSynced /\ fs_tmp fs = good_file (w_snap w) /\ d' = w_snap w)).
Proof.
  intros Hp (Hag & Hcl & Hw) Hh Hs. destruct (Hw w Hh) as (Ha & Hc & Hpc).
  unfold wr_step in Hs. destruct (w_pc w) as [|n| | |] eqn:Hpcw.
  - (* create *)
    inversion Hs; subst w' fs'; clear Hs. cbn [w_snap w_old]. do 2 (split; [reflexivity|]).
    exists d. split; [exact Hp|]. split; [|now left].
    apply live_moved; [exact Hag|]. refine (conj Ha (conj Hc _)).
    cbn [w_pc w_snap w_old fs_tmp fs_path].
    refine (conj _ (conj eq_refl Hpc)). unfold n_chunks; lia.
  - (* write / sync_data *)
    destruct Hpc as (Hle & Htmp & Hold).
    destruct (N.ltb_spec n n_chunks) as [Hlt|Hge].
    + inversion Hs; subst w' fs'; clear Hs. cbn [w_snap w_old]. do 2 (split; [reflexivity|]).
      exists d. split; [unfold upd_tmp; exact Hp|]. split; [|now left].
      apply live_moved; [exact Hag|]. refine (conj Ha (conj Hc _)).
      cbn [w_pc w_snap w_old]. unfold upd_tmp. rewrite Htmp. cbn [fs_tmp fs_path f_dict f_chunks].
      refine (conj _ (conj eq_refl Hold)). lia.
    + assert (n = n_chunks) by lia. subst n.
      inversion Hs; subst w' fs'; clear Hs. cbn [w_snap w_old]. do 2 (split; [reflexivity|]).
      exists d. split; [unfold upd_tmp; exact Hp|]. split; [|now left].
      apply live_moved; [exact Hag|]. refine (conj Ha (conj Hc _)).
      cbn [w_pc w_snap w_old]. unfold upd_tmp. rewrite Htmp. cbn [fs_tmp fs_path f_dict f_chunks].
      exact (conj eq_refl Hold).
  - (* rename *)
    destruct Hpc as (Htmp & Hold).
    inversion Hs; subst w' fs'; clear Hs. cbn [w_snap w_old]. do 2 (split; [reflexivity|]).
    exists (w_snap w). cbn [fs_path]. split; [exact Htmp|]. split; [|right; now repeat split].
    apply live_moved; [exact Ha|]. refine (conj Ha (conj Hc _)).
    cbn [w_pc w_snap fs_path]. exact Htmp.
  - (* reopen, finish *)
    inversion Hs; subst w' fs'; clear Hs. cbn [w_snap w_old]. do 2 (split; [reflexivity|]).
    exists d. split; [exact Hp|]. split; [|now left].
    apply live_moved; [exact Hag|]. refine (conj Ha (conj Hc _)).
    cbn [w_pc w_snap w_result]. split; [exact Hpc|]. rewrite Hpc. reflexivity.
  - (* finished: no move *)
    inversion Hs; subst w' fs'; clear Hs. do 2 (split; [reflexivity|]).
    exists d. split; [exact Hp|]. split; [|now left].
    apply live_moved; [exact Hag|]. refine (conj Ha (conj Hc _)). rewrite Hpcw. exact Hpc.
Qed.

(* ------------------------------------------------------------------ *)
(* one step of the system *)

Lemma after_not_crashed rest : after rest <> Crashed.
Proof. destruct rest; discriminate. Qed.

Lemma lose_good d : lose_unsynced (good_file d) = good_file d.
Proof. reflexivity. Qed.

(* what a step may do to the dictionary path: nothing, or - only the writer's
   rename, from its synced complete temp file - install the writer's snapshot *)
Definition path_step (s s' : state) : Prop :=
  fs_path (st_fs s') = fs_path (st_fs s) \/
  exists w, m_handle (st_mem s) = Some w /\ w_pc w = WSynced /\
            fs_tmp (st_fs s) = good_file (w_snap w) /\
            fs_path (st_fs s') = good_file (w_snap w).

Definition live (s : state) (d : dict) : Prop :=
  fs_path (st_fs s) = good_file d /\ live_inv d (st_mem s) (st_fs s).

Lemma Inv_of_live s d : live s d -> Inv s.
Proof. intros (Hp & Hl). exists d. split; [exact Hp | intros _; exact Hl]. Qed.

Lemma Inv_same s s' :
  Inv s -> st_fs s' = st_fs s -> st_mem s' = st_mem s -> (st_pc s' <> Crashed -> st_pc s <> Crashed) -> Inv s'.
Proof.
  intros (d & Hp & Hl) Hf Hm Hc. exists d. rewrite Hf, Hm. split; [exact Hp|]. intros H. apply Hl, Hc, H.
Qed.

(* crash steps *)
Lemma Inv_crash s fs' :
  Inv s -> fs_path fs' = fs_path (st_fs s) -> Inv (mkState (st_mem s) fs' Crashed).
Proof.
  intros (d & Hp & _) Hf. exists d. cbn [st_fs st_pc]. split; [now rewrite Hf|].
  intros H. now contradiction H.
Qed.

(* writer step from a live state *)
Lemma wr_live s d pc :
  live s d -> pc <> Crashed ->
  let s' := match m_handle (st_mem s) with
            | Some w => let '(w', fs') := wr_step w (st_fs s) in
                        mkState (set_handle (st_mem s) (Some w')) fs' pc
            | None => mkState (st_mem s) (st_fs s) pc
            end in
  Inv s' /\ path_step s s'.
Proof.
  intros (Hp & Hl) Hpc. destruct (m_handle (st_mem s)) as [w|] eqn:Hh.
  - destruct (wr_step w (st_fs s)) as [w' fs'] eqn:Hs. cbv zeta.
    destruct (writer_step_inv d _ _ w w' fs' Hp Hl Hh Hs) as (_ & _ & d' & Hp' & Hl' & Hd').
    split.
    + exists d'. cbn [st_fs st_pc st_mem]. split; [exact Hp' | intros _; exact Hl'].
    + destruct Hd' as [->|(Hws & Htmp & ->)].
      * left. cbn [st_fs]. now rewrite Hp', Hp.
      * right. exists w. cbn [st_fs]. repeat split; assumption.
  - cbv zeta. split; [|now left]. exists d. cbn [st_fs st_pc st_mem].
    split; [exact Hp | intros _; exact Hl].
Qed.

Lemma step_Inv v c s : Inv s -> Inv (step v c s) /\ path_step s (step v c s).
Proof.
  intros HI. destruct (st_pc s) eqn:Hpc.
  4:{ unfold step. rewrite Hpc. split; [exact HI | now left]. }
  all: assert (Hlive : exists d, live s d)
    by (destruct HI as (d & Hp & Hl); exists d; split; [exact Hp | apply Hl; rewrite Hpc; discriminate]);
    destruct Hlive as (d & Hlive); pose proof Hlive as (Hp & Hl).
  all: unfold step; rewrite Hpc; destruct c as [o| | | |].
  (* Crash, PowerLoss *)
  all: try (split; [apply Inv_crash; [exact HI | cbn [fs_path]; try rewrite Hp; try rewrite lose_good; reflexivity]
                   | left; cbn [st_fs fs_path]; try rewrite Hp; try rewrite lose_good; reflexivity]).
  (* Wr *)
  all: try (match goal with |- context [wr_step] => idtac end;
            match goal with |- context [mkState _ _ ?pc] =>
              assert (Hnc : pc <> Crashed) by discriminate;
              pose proof (wr_live s d pc Hlive Hnc) as Hwr; cbv zeta in Hwr end;
            destruct (m_handle (st_mem s)) as [w|]; [exact Hwr|];
            split; [exact HI | now left]).
  - (* Running, Fg *)
    destruct o as [ch| | |]; (split; [|now left]).
    + apply (Inv_of_live _ d). split; [exact Hp|]. now apply live_change.
    + apply (Inv_of_live _ d). split; [exact Hp|]. now apply live_checkpoint.
    + apply (Inv_of_live _ d). split; [exact Hp|]. now apply live_sync.
    + apply (Inv_of_live _ d). split; [exact Hp|]. exact Hl.
  - (* Running, Dr *) split; [exact HI | now left].
  - (* Closing, Fg *) split; [exact HI | now left].
  - (* Closing, Dr *)
    destruct rest as [|ds rest']; [split; [exact HI | now left]|].
    unfold drop_step. destruct ds.
    + destruct (m_handle (st_mem s)) as [w|] eqn:Hh.
      * destruct (is_finished w) eqn:Hf; [|split; [exact HI | now left]].
        split; [|now left]. apply (Inv_of_live _ d). split; [exact Hp|]. now apply (live_join d _ _ w).
      * split; [|now left]. apply (Inv_of_live _ d). split; [exact Hp | exact Hl].
    + split; [|now left]. apply (Inv_of_live _ d). split; [exact Hp|]. now apply live_sync.
    + split; [|now left]. apply (Inv_of_live _ d). split; [exact Hp|]. now apply live_checkpoint.
  - (* Closed, Fg *) split; [exact HI | now left].
  - (* Closed, Dr *) split; [exact HI | now left].
Qed.

Lemma run_Inv v l : forall s, Inv s -> Inv (run v l s).
Proof.
  induction l as [|c l IH]; intros s H; cbn [run]; [exact H|].
  apply IH. now apply step_Inv.
Qed.

Lemma reachable_Inv v d0 l : Inv (run v l (init d0)).
Proof. apply run_Inv, Inv_init. Qed.

(* ------------------------------------------------------------------ *)
(* atomic replacement *)

(* every reachable state of every schedule, crashed or not: the dictionary path
   holds a complete, synced encoding *)
Lemma atomic_replace v d0 l :
  exists d, fs_path (st_fs (run v l (init d0))) = good_file d.
Proof. destruct (reachable_Inv v d0 l) as (d & Hp & _). now exists d. Qed.

Lemma always_loadable v d0 l : exists d, disk (run v l (init d0)) = Some d.
Proof.
  destruct (atomic_replace v d0 l) as (d & Hp). exists d. unfold disk. now rewrite Hp.
Qed.

(* only the writer's rename changes the path, and only by installing its
   complete synced temp file *)
Lemma path_written_only_by_rename v d0 l c :
  let s := run v l (init d0) in path_step s (step v c s).
Proof. cbv zeta. apply step_Inv, reachable_Inv. Qed.

(* while a writer is in flight the path decodes to what it held when the writer
   was spawned (old) or to the writer's snapshot (new); a crash or power loss
   keeps it *)
Definition old_or_new (s : state) (d : dict) : Prop :=
  match m_handle (st_mem s) with
  | None => True
  | Some w => w_old w = Some d \/ d = w_snap w
  end.

Lemma live_old_or_new s d : live s d -> old_or_new s d.
Proof.
  intros (Hp & _ & _ & Hw). unfold old_or_new.
  destruct (m_handle (st_mem s)) as [w|] eqn:Hh; [|exact I].
  destruct (Hw w eq_refl) as (_ & _ & Hpc).
  destruct (w_pc w).
  - left. rewrite <- Hpc, Hp. reflexivity.
  - left. destruct Hpc as (_ & _ & Ho). rewrite <- Ho, Hp. reflexivity.
  - left. destruct Hpc as (_ & Ho). rewrite <- Ho, Hp. reflexivity.
  - right. rewrite Hp in Hpc. now inversion Hpc.
  - right. destruct Hpc as (Hx & _). rewrite Hp in Hx. now inversion Hx.
Qed.

Lemma crash_old_or_new v d0 l c :
  let s := run v l (init d0) in
  st_pc s <> Crashed -> c = Crash \/ c = PowerLoss ->
  exists d, disk (step v c s) = Some d /\ disk s = Some d /\ old_or_new s d.
Proof.
  cbv zeta. intros Hnc Hc. destruct (reachable_Inv v d0 l) as (d & Hp & Hl).
  specialize (Hl Hnc). set (s := run v l (init d0)) in *.
  exists d. split; [|split].
  - unfold step, disk. destruct (st_pc s) eqn:Hpc; try (now contradiction Hnc);
      destruct Hc as [-> | ->]; cbn [st_fs fs_path]; rewrite Hp; reflexivity.
  - unfold disk. now rewrite Hp.
  - apply live_old_or_new. now split.
Qed.

(* the ghost fields mean what they say: checkpoint records the current decoding
   of the path and the current entries, and no step alters them *)
Lemma checkpoint_spawn m fs :
  m_handle m = None -> m_dirty m = true ->
  m_handle (checkpoint m fs) = Some (mkWriter (snapshot_of m) (decode (fs_path fs)) WStart None).
Proof. intros Hh Hd. unfold checkpoint. now rewrite Hh, Hd. Qed.

Lemma sync_handle m fs w' :
  m_handle (sync m fs) = Some w' -> m_handle m = Some w'.
Proof.
  unfold sync. destruct (m_handle m) as [w|] eqn:Hh.
  - destruct (is_finished w).
    + destruct (w_result w); [destruct (m_dirty m)|]; cbn [m_handle]; discriminate.
    + now rewrite Hh.
  - destruct (decode (fs_path fs)); cbn [m_handle]; [discriminate | now rewrite Hh].
Qed.

Lemma change_handle c m : m_handle (do_change c m) = m_handle m.
Proof.
  destruct c as [k v|k v|k]; cbn [do_change]; try reflexivity.
  destruct (contents m k); reflexivity.
Qed.

Lemma wr_step_snap w fs : w_snap (fst (wr_step w fs)) = w_snap w /\ w_old (fst (wr_step w fs)) = w_old w.
Proof.
  unfold wr_step. destruct (w_pc w) as [|n| | |]; try (split; reflexivity).
  destruct (N.ltb n n_chunks); split; reflexivity.
Qed.

Lemma snapshot_immutable v c s w w' :
  m_handle (st_mem s) = Some w -> m_handle (st_mem (step v c s)) = Some w' ->
  w_snap w' = w_snap w /\ w_old w' = w_old w.
Proof.
  intros Hh. unfold step. destruct (st_pc s) eqn:Hpc.
  4:{ rewrite Hh. intros Hx. inversion Hx. now split. }
  all: destruct c as [o| | | |]; cbn [st_mem].
  all: try (rewrite Hh; intros Hx; inversion Hx; now split).
  all: try (rewrite Hh; destruct (wr_step w (st_fs s)) as [w1 fs1] eqn:Hs; cbn [st_mem set_handle m_handle];
            intros Hx; inversion Hx; subst w'; pose proof (wr_step_snap w (st_fs s)) as Hq; rewrite Hs in Hq; exact Hq).
  - destruct o as [ch| | |]; cbn [st_mem].
    + rewrite change_handle, Hh. intros Hx; inversion Hx; now split.
    + unfold checkpoint. rewrite Hh. rewrite Hh. intros Hx; inversion Hx; now split.
    + intros Hx. apply sync_handle in Hx. rewrite Hh in Hx. inversion Hx; now split.
    + rewrite Hh. intros Hx; inversion Hx; now split.
  - destruct rest as [|ds rest']; [rewrite Hh; intros Hx; inversion Hx; now split|].
    unfold drop_step. destruct ds.
    + rewrite Hh. destruct (is_finished w); cbn [st_mem set_handle m_handle]; [discriminate|].
      rewrite Hh. intros Hx; inversion Hx; now split.
    + cbn [st_mem]. intros Hx. apply sync_handle in Hx. rewrite Hh in Hx. inversion Hx; now split.
    + cbn [st_mem]. unfold checkpoint. rewrite Hh, Hh. intros Hx; inversion Hx; now split.
Qed.

(* ------------------------------------------------------------------ *)
(* reopen and flush never change what the dictionary shows *)

Lemma step_contents v c s :
  Inv s -> (forall ch, c <> Fg (Change ch)) ->
  forall k, contents (st_mem (step v c s)) k = contents (st_mem s) k.
Proof.
  intros (d & Hp & Hl) Hc k. unfold step. destruct (st_pc s) eqn:Hpc; [| | |reflexivity].
  all: assert (Hlive : live_inv d (st_mem s) (st_fs s)) by (apply Hl; discriminate).
  all: destruct c as [o| | | |]; try reflexivity.
  all: try (destruct (m_handle (st_mem s)) as [w|]; [destruct (wr_step w (st_fs s)) as [w' fs']|]; reflexivity).
  - destruct o as [ch| | |]; cbn [st_mem].
    + now contradiction (Hc ch).
    + apply checkpoint_contents.
    + now apply (sync_contents d).
    + reflexivity.
  - destruct rest as [|ds rest']; [reflexivity|]. unfold drop_step. destruct ds; cbn [st_mem].
    + destruct (m_handle (st_mem s)) as [w|]; [destruct (is_finished w)|]; reflexivity.
    + now apply (sync_contents d).
    + apply checkpoint_contents.
Qed.

(* ------------------------------------------------------------------ *)
(* durability after close (the fixed drop: join; sync; flush; join) *)

Definition close_inv (s : state) : Prop :=
  (forall rest, st_pc s = Closing rest ->
     rest = [DJoin; DSync; DFlush; DJoin] \/
     ((rest = [DSync; DFlush; DJoin] \/ rest = [DFlush; DJoin]) /\ m_handle (st_mem s) = None) \/
     (rest = [DJoin] /\ m_dirty (st_mem s) = false)) /\
  (st_pc s = Closed -> m_handle (st_mem s) = None /\ m_dirty (st_mem s) = false).

Lemma close_inv_running s : st_pc s = Running -> close_inv s.
Proof. intros H. split; intros; rewrite H in *; discriminate. Qed.

Lemma sync_handle_none m fs : m_handle m = None -> m_handle (sync m fs) = None.
Proof. intros H. unfold sync. rewrite H. destruct (decode (fs_path fs)); [reflexivity | exact H]. Qed.

Lemma sync_dirty m fs : m_dirty (sync m fs) = m_dirty m.
Proof.
  unfold sync. destruct (m_handle m) as [w|].
  - destruct (is_finished w); [|reflexivity]. destruct (w_result w); [destruct (m_dirty m)|]; reflexivity.
  - destruct (decode (fs_path fs)); reflexivity.
Qed.

Lemma checkpoint_clean m fs : m_handle m = None -> m_dirty (checkpoint m fs) = false.
Proof. intros H. unfold checkpoint. rewrite H. destruct (m_dirty m) eqn:Hd; [reflexivity | exact Hd]. Qed.

Lemma step_close_inv c s : close_inv s -> close_inv (step Fixed c s).
Proof.
  intros (Hc & Hd). unfold step. destruct (st_pc s) eqn:Hpc.
  4:{ split; rewrite Hpc; [exact Hc | exact Hd]. }
  - (* Running *)
    destruct c as [o| | | |]; try (apply close_inv_running; reflexivity).
    + destruct o as [ch| | |]; try (apply close_inv_running; reflexivity).
      split; cbn [st_pc drop_prog after]; [|discriminate]. intros rest Hx. inversion Hx. now left.
    + apply close_inv_running. exact Hpc.
    + destruct (m_handle (st_mem s)) as [w|]; [destruct (wr_step w (st_fs s))|];
        apply close_inv_running; [reflexivity | exact Hpc].
    + split; cbn [st_pc]; discriminate.
    + split; cbn [st_pc]; discriminate.
  - (* Closing *)
    specialize (Hc rest eq_refl).
    destruct c as [o| | | |].
    + split; rewrite Hpc; [|discriminate]. intros r Hx. inversion Hx; subst r. exact Hc.
    + (* Dr *)
      destruct Hc as [->|[([-> | ->] & Hn)|(-> & Hdirty)]]; unfold drop_step.
      * destruct (m_handle (st_mem s)) as [w|] eqn:Hh; [destruct (is_finished w)|].
        -- split; cbn [st_pc after st_mem]; [|discriminate]. intros r Hx. inversion Hx.
           right. left. split; [now left | reflexivity].
        -- split; rewrite Hpc; [|discriminate]. intros r Hx. inversion Hx. now left.
        -- split; cbn [st_pc after st_mem]; [|discriminate]. intros r Hx. inversion Hx.
           right. left. split; [now left | exact Hh].
      * split; cbn [st_pc after st_mem]; [|discriminate]. intros r Hx. inversion Hx.
        right. left. split; [now right | now apply sync_handle_none].
      * split; cbn [st_pc after st_mem]; [|discriminate]. intros r Hx. inversion Hx.
        right. right. split; [reflexivity | now apply checkpoint_clean].
      * destruct (m_handle (st_mem s)) as [w|] eqn:Hh; [destruct (is_finished w)|].
        -- split; cbn [st_pc after st_mem]; [discriminate|]. intros _. split; [reflexivity | exact Hdirty].
        -- split; rewrite Hpc; [|discriminate]. intros r Hx. inversion Hx. right. right. now split.
        -- split; cbn [st_pc after st_mem]; [discriminate|]. intros _. now split.
    + (* Wr *)
      destruct (m_handle (st_mem s)) as [w|] eqn:Hh.
      * destruct (wr_step w (st_fs s)) as [w' fs']. split; cbn [st_pc st_mem]; [|discriminate].
        intros r Hx. inversion Hx; subst r.
        destruct Hc as [->|[(_ & Hn)|(-> & Hdirty)]]; [now left | discriminate | right; right; now split].
      * split; rewrite Hpc; [|discriminate]. intros r Hx. inversion Hx; subst r. rewrite Hh. exact Hc.
    + split; cbn [st_pc]; discriminate.
    + split; cbn [st_pc]; discriminate.
  - (* Closed *)
    specialize (Hd eq_refl). destruct Hd as (Hn & Hdirty).
    destruct c as [o| | | |].
    + split; rewrite Hpc; [discriminate | now split].
    + split; rewrite Hpc; [discriminate | now split].
    + rewrite Hn. split; rewrite Hpc; [discriminate | now split].
    + split; cbn [st_pc]; discriminate.
    + split; cbn [st_pc]; discriminate.
Qed.

Lemma step_not_running v c s : st_pc s <> Running -> st_pc (step v c s) <> Running.
Proof.
  intros H. unfold step. destruct (st_pc s) eqn:Hpc; [now contradiction H| | |rewrite Hpc; discriminate].
  - destruct c as [o| | | |]; cbn [st_pc]; try discriminate.
    + rewrite Hpc; discriminate.
    + destruct rest as [|ds rest']; [rewrite Hpc; discriminate|]. unfold drop_step.
      destruct ds; cbn [st_pc]; try (destruct rest'; discriminate).
      destruct (m_handle (st_mem s)) as [w|]; [destruct (is_finished w)|]; cbn [st_pc];
        try (destruct rest'; discriminate). rewrite Hpc; discriminate.
    + destruct (m_handle (st_mem s)) as [w|]; [destruct (wr_step w (st_fs s))|]; cbn [st_pc]; try discriminate.
      rewrite Hpc; discriminate.
  - destruct c as [o| | | |]; cbn [st_pc]; try discriminate; try (rewrite Hpc; discriminate).
    destruct (m_handle (st_mem s)) as [w|]; [destruct (wr_step w (st_fs s))|]; cbn [st_pc]; try discriminate.
    rewrite Hpc; discriminate.
Qed.

Lemma step_fg_not_running v o s : st_pc s <> Running -> step v (Fg o) s = s.
Proof.
  intros H. unfold step. destruct (st_pc s) eqn:Hpc; try reflexivity. now contradiction H.
Qed.

Lemma step_contents_closing v c s :
  Inv s -> st_pc s <> Running ->
  forall k, contents (st_mem (step v c s)) k = contents (st_mem s) k.
Proof.
  intros HI Hnr k. destruct c as [o| | | |]; try (apply step_contents; [exact HI | discriminate]).
  now rewrite step_fg_not_running.
Qed.

Lemma closing_run (C : N -> option N) l : forall s,
  Inv s -> close_inv s -> st_pc s <> Running ->
  (forall k, contents (st_mem s) k = C k) ->
  st_pc (run Fixed l s) = Closed ->
  exists d, fs_path (st_fs (run Fixed l s)) = good_file d /\ forall k, get k d = C k.
Proof.
  induction l as [|c l IH]; intros s HI Hc Hnr HC Hend; cbn [run] in *.
  - destruct HI as (d & Hp & Hl). exists d. split; [exact Hp|].
    destruct (Hl ltac:(rewrite Hend; discriminate)) as (_ & Hcl & _).
    destruct Hc as (_ & Hcd). destruct (Hcd Hend) as (Hn & Hd).
    intros k. rewrite <- HC. now apply Hcl.
  - apply IH; try assumption.
    + now apply step_Inv.
    + now apply step_close_inv.
    + now apply step_not_running.
    + intros k. rewrite <- HC. now apply step_contents_closing.
Qed.

Lemma durable_after_close d0 l1 l2 :
  let s1 := run Fixed l1 (init d0) in
  let s2 := run Fixed (Fg Close :: l2) s1 in
  st_pc s1 = Running -> st_pc s2 = Closed ->
  exists d, disk s2 = Some d /\ forall k, get k d = contents (st_mem s1) k.
Proof.
  cbv zeta. intros Hr Hc. set (s1 := run Fixed l1 (init d0)) in *.
  assert (HI : Inv s1) by apply reachable_Inv.
  cbn [run] in *. set (s := step Fixed (Fg Close) s1) in *.
  assert (Hs : s = mkState (st_mem s1) (st_fs s1) (Closing [DJoin; DSync; DFlush; DJoin])).
  { unfold s, step. rewrite Hr. reflexivity. }
  destruct (closing_run (contents (st_mem s1)) l2 s) as (d & Hp & Hd).
  - unfold s. now apply step_Inv.
  - unfold s. apply step_close_inv. now apply close_inv_running.
  - rewrite Hs. cbn [st_pc]. discriminate.
  - rewrite Hs. reflexivity.
  - exact Hc.
  - exists d. split; [|exact Hd]. unfold disk. now rewrite Hp.
Qed.

(* The pinned drop (sync; flush; join) loses the update made while a writer was
   in flight: change 1, flush, change 2, flush (ignored), close while the first
   writer is still running. *)
Definition lost_update_l1 : list choice :=
  [Fg (Change (Upd 1 1)); Fg Flush; Fg (Change (Upd 2 2)); Fg Flush].
Definition lost_update_l2 : list choice := [Dr; Dr; Wr; Wr; Wr; Wr; Wr; Wr; Dr].

Lemma durable_after_close_pinned_refuted :
  let s1 := run Pinned lost_update_l1 (init []) in
  let s2 := run Pinned (Fg Close :: lost_update_l2) s1 in
  st_pc s1 = Running /\ st_pc s2 = Closed /\
  contents (st_mem s1) 2 = Some 2 /\ disk s2 = Some [(1, 1)].
Proof. vm_compute. repeat split. Qed.

(* the same history under the fixed drop: the first writer is joined, then a
   second snapshot is written and joined *)
Definition lost_update_l2_fixed : list choice :=
  [Wr; Wr; Wr; Wr; Wr; Wr; Dr; Dr; Dr; Wr; Wr; Wr; Wr; Wr; Wr; Dr].

Lemma lost_update_fixed :
  let s1 := run Fixed lost_update_l1 (init []) in
  let s2 := run Fixed (Fg Close :: lost_update_l2_fixed) s1 in
  st_pc s1 = Running /\ st_pc s2 = Closed /\ disk_table s2 4 = Some [(1, 1); (2, 2)].
Proof. vm_compute. repeat split. Qed.

(* ------------------------------------------------------------------ *)
(* an accepted change that is not overwritten reaches the file *)

Lemma run_app v l1 l2 s : run v (l1 ++ l2) s = run v l2 (run v l1 s).
Proof. revert s. induction l1 as [|c l1 IH]; intros s; cbn [app run]; [reflexivity | apply IH]. Qed.

Definition no_change (l : list choice) : Prop :=
  forall x, In x l -> forall ch, x <> Fg (Change ch).

Lemma run_contents_no_change v l : forall s,
  Inv s -> no_change l -> forall k, contents (st_mem (run v l s)) k = contents (st_mem s) k.
Proof.
  induction l as [|c l IH]; intros s HI Hn k; cbn [run]; [reflexivity|].
  rewrite IH.
  - apply step_contents; [exact HI|]. intros ch. apply Hn. now left.
  - now apply step_Inv.
  - intros x Hx. apply Hn. now right.
Qed.

Lemma step_change_running v c s :
  st_pc s = Running -> step v (Fg (Change c)) s = mkState (do_change c (st_mem s)) (st_fs s) Running.
Proof. intros H. unfold step. now rewrite H. Qed.

Lemma accepted_change_durable d0 sched0 c mid sched2 :
  let s0 := run Fixed sched0 (init d0) in
  let s1 := run Fixed (Fg (Change c) :: mid) s0 in
  let s2 := run Fixed (Fg Close :: sched2) s1 in
  st_pc s0 = Running -> no_change mid -> st_pc s1 = Running -> st_pc s2 = Closed ->
  exists d, disk s2 = Some d /\ forall k, get k d = contents (do_change c (st_mem s0)) k.
Proof.
  cbv zeta. intros H0 Hmid H1 H2.
  assert (Heq : run Fixed (Fg (Change c) :: mid) (run Fixed sched0 (init d0)) =
                run Fixed (sched0 ++ Fg (Change c) :: mid) (init d0)) by (now rewrite run_app).
  rewrite Heq in H1, H2.
  destruct (durable_after_close d0 (sched0 ++ Fg (Change c) :: mid) sched2 H1 H2) as (d & Hd & Hk).
  exists d. rewrite Heq. split; [exact Hd|]. intros k. rewrite Hk, <- Heq. cbn [run].
  rewrite run_contents_no_change; [|apply step_Inv, reachable_Inv | exact Hmid].
  now rewrite step_change_running.
Qed.

(* what an accepted update shows: the new value, whatever was removed before (the tombstone is lifted) *)
Lemma upd_contents k v m :
  contents (do_change (Upd k v) m) k = Some v.
Proof.
  unfold contents, do_change, do_upd, view. cbn [m_trie m_btree m_grave].
  rewrite memN_filter_ne, N.eqb_refl. now rewrite get_cons, N.eqb_refl.
Qed.

(* ------------------------------------------------------------------ *)
(* close terminates: under a scheduler that keeps running both the drop and the
   writer, drop returns (so the durability theorem is not vacuous for any
   history) *)

Fixpoint fair (n : nat) : list choice :=
  match n with
  | O => []
  | S k => Dr :: Wr :: fair k
  end.

Lemma close_terminates d0 l :
  let s := run Fixed l (init d0) in
  st_pc s = Running -> st_pc (run Fixed (Fg Close :: fair 16) s) = Closed.
Proof.
  cbv zeta. intros Hr. destruct (reachable_Inv Fixed d0 l) as (d & Hp & Hl).
  destruct (run Fixed l (init d0)) as [[t b g h dirty] [p tmp] pc].
  cbn [st_pc st_fs st_mem fs_path] in *. subst pc p.
  specialize (Hl ltac:(discriminate)). destruct Hl as (_ & _ & Hw).
  destruct h as [[snap old wp res]|].
  - destruct (Hw _ eq_refl) as (_ & _ & Hpc). cbn [w_pc w_snap w_old w_result fs_tmp fs_path] in Hpc.
    destruct wp as [|n| | |].
    + destruct dirty; vm_compute; reflexivity.
    + destruct Hpc as (Hle & Htmp & _). subst tmp.
      assert (Hn : n = 0 \/ n = 1 \/ n = 2) by (unfold n_chunks in Hle; lia).
      destruct Hn as [->|[->| ->]]; destruct dirty; vm_compute; reflexivity.
    + destruct Hpc as (Htmp & _). subst tmp. destruct dirty; vm_compute; reflexivity.
    + destruct dirty; vm_compute; reflexivity.
    + destruct dirty; vm_compute; reflexivity.
  - destruct dirty; vm_compute; reflexivity.
Qed.

(* ------------------------------------------------------------------ *)
(* statements in the form used by Properties/C10.v *)

Lemma atomic_replace_disk v d0 l :
  exists d, fs_path (st_fs (run v l (init d0))) = Some (mkFile d n_chunks true) /\
            disk (run v l (init d0)) = Some d.
Proof.
  destruct (atomic_replace v d0 l) as (d & Hp). exists d. split; [exact Hp|].
  unfold disk. now rewrite Hp.
Qed.

Lemma snapshot_is_flush_time_state m fs :
  m_handle m = None -> m_dirty m = true ->
  m_handle (checkpoint m fs) = Some (mkWriter (snapshot_of m) (decode (fs_path fs)) WStart None) /\
  forall k, get k (snapshot_of m) = contents m k.
Proof.
  intros Hh Hd. split; [now apply checkpoint_spawn|]. intros k. apply get_entries.
Qed.

Lemma only_changes_change_contents v d0 l c :
  let s := run v l (init d0) in
  (forall ch, c <> Fg (Change ch)) ->
  forall k, contents (st_mem (step v c s)) k = contents (st_mem s) k.
Proof. cbv zeta. intros Hc. apply step_contents; [apply reachable_Inv | exact Hc]. Qed.

Lemma durable_after_close_pinned_refuted_ex :
  exists d0 sched1 sched2,
  let s1 := run Pinned sched1 (init d0) in
  let s2 := run Pinned (Fg Close :: sched2) s1 in
  st_pc s1 = Running /\ st_pc s2 = Closed /\
  exists k v, contents (st_mem s1) k = Some v /\
              forall d, disk s2 = Some d -> get k d = None.
Proof.
  exists [], lost_update_l1, lost_update_l2.
  destruct durable_after_close_pinned_refuted as (H1 & H2 & H3 & H4).
  cbv zeta. split; [exact H1|]. split; [exact H2|]. exists 2, 2. split; [exact H3|].
  intros d Hd. rewrite H4 in Hd. inversion Hd; subst d. reflexivity.
Qed.

(* no accepted change is ever forgotten: in every reachable live state the
   dictionary's contents are on disk, or in the snapshot of the writer in flight,
   or the dirty flag is set (so the next flush, or drop, will write them) *)
Lemma nothing_forgotten v d0 l :
  let s := run v l (init d0) in
  st_pc s <> Crashed ->
  m_dirty (st_mem s) = true \/
  match m_handle (st_mem s) with
  | None => exists d, disk s = Some d /\ forall k, get k d = contents (st_mem s) k
  | Some w => forall k, get k (w_snap w) = contents (st_mem s) k
  end.
Proof.
  cbv zeta. intros Hnc. destruct (reachable_Inv v d0 l) as (d & Hp & Hl).
  destruct (Hl Hnc) as (_ & Hcl & Hw).
  destruct (m_dirty (st_mem (run v l (init d0)))) eqn:Hd; [now left | right].
  destruct (m_handle (st_mem (run v l (init d0)))) as [w|] eqn:Hh.
  - destruct (Hw w eq_refl) as (_ & Hc & _). now apply Hc.
  - exists d. split; [unfold disk; now rewrite Hp | now apply Hcl].
Qed.

(* ------------------------------------------------------------------ *)
(* T1: the order of the calls in TrieBuilder::build, read from the source on every
   run, is the one wr_step implements; the temp file is a sibling of the path *)
Lemma build_call_order : build_calls = writer_program /\ build_tmp_distinct = true.
Proof. split; reflexivity. Qed.
