(* Lemmas about the abstract Trie of Model/Dict.v: well-formedness, entries as a map,
   TrieBuilder (insert + per-leaf sort) builds the map of its input, Standard lookup is
   the leaf, lookup_first_n is a prefix of the full result. *)
From Coq Require Import NArith List Bool Lia Permutation.
From LC Require Import Base.Lib Model.Dict Proofs.DictProofs.
Import ListNotations.
Open Scope N_scope.

Definition pk (e : key * phrase) : pkey := (fst e, ph_text (snd e)).
Definition entry_of (x : pkey) (v : sval) : key * phrase := (fst x, mkPhrase (snd x) (fst v) (snd v)).
Definition val_of (ph : phrase) : sval := (ph_freq ph, ph_time ph).

Lemma pk_entry_of x v : pk (entry_of x v) = x.
Proof. now destruct x. Qed.

Lemma entry_of_pk e : entry_of (pk e) (val_of (snd e)) = e.
Proof. destruct e as [k [p f t]]. reflexivity. Qed.

Lemma entry_of_inj x v v' : entry_of x v = entry_of x v' -> v = v'.
Proof. destruct v, v'. unfold entry_of. cbn [fst snd]. intros [= -> ->]. reflexivity. Qed.

(* two options characterised by the same functional relation are equal *)
Lemma option_ext {A} (o1 o2 : option A) (P : A -> Prop) :
  (forall v, o1 = Some v <-> P v) -> (forall v, o2 = Some v <-> P v) -> o1 = o2.
Proof.
  intros H1 H2. destruct o1 as [a|], o2 as [b|]; auto.
  - assert (Some b = Some a) by (apply H2, H1; reflexivity). congruence.
  - assert (None = Some a) by (apply H2, H1; reflexivity). congruence.
  - assert (None = Some b) by (apply H1, H2; reflexivity). congruence.
Qed.

(* ------------------------------------------------------------------ entry lists as maps *)

Definition trie_wf (t : trie) : Prop :=
  NoDup (map fst t) /\ Forall (fun kl => NoDup (texts (snd kl))) t.

Lemma find_text_spec l p ph :
  NoDup (texts l) ->
  (find (fun q => seq_eqb (ph_text q) p) l = Some ph <-> In ph l /\ ph_text ph = p).
Proof.
  unfold texts. induction l as [|q l IH]; cbn [find map In]; intro Hnd.
  - split; [discriminate | intros [[] _]].
  - inversion Hnd as [|? ? Hn Hd]; subst.
    destruct (seq_eqb (ph_text q) p) eqn:E.
    + apply seq_eqb_eq in E. split.
      * intros [= <-]. auto.
      * intros [[<-|Hin] Hp]; [reflexivity|]. exfalso. apply Hn. rewrite E, <- Hp. now apply in_map.
    + apply seq_eqb_neq in E. rewrite (IH Hd). split.
      * intros [H1 H2]. auto.
      * intros [[<-|Hin] Hp]; [contradiction | auto].
Qed.

Lemma trie_entries_In t e : In e (trie_entries t) <-> exists l, In (fst e, l) t /\ In (snd e) l.
Proof.
  unfold trie_entries. rewrite in_flat_map. split.
  - intros [[k l] [Hkl Hin]]. cbn [fst snd] in Hin. apply in_map_iff in Hin as [ph [<- Hph]].
    exists l. cbn [fst snd]. auto.
  - intros [l [Hkl Hin]]. exists (fst e, l). split; [assumption|]. cbn [fst snd].
    apply in_map_iff. exists (snd e). split; [now destruct e | assumption].
Qed.

Lemma trie_leaf_In t k l : NoDup (map fst t) -> In (k, l) t -> trie_leaf t k = l.
Proof.
  induction t as [|[k' l'] t IH]; cbn [trie_leaf map fst In]; intros Hnd Hin; [destruct Hin|].
  inversion Hnd as [|? ? Hn Hd]; subst. destruct Hin as [[= -> ->]|Hin].
  - now rewrite seq_eqb_refl.
  - destruct (seq_eqb k k') eqn:E; [|auto].
    apply seq_eqb_eq in E. subst. exfalso. apply Hn. apply in_map_iff. exists (k', l). auto.
Qed.

Lemma trie_leaf_cases t k : trie_leaf t k = [] \/ In (k, trie_leaf t k) t.
Proof.
  induction t as [|[k' l'] t IH]; cbn [trie_leaf In]; [now left|].
  destruct (seq_eqb k k') eqn:E.
  - apply seq_eqb_eq in E. subst. right. now left.
  - destruct IH; [now left | right; now right].
Qed.

Lemma trie_leaf_NoDup t k : trie_wf t -> NoDup (texts (trie_leaf t k)).
Proof.
  intros [_ Hf]. destruct (trie_leaf_cases t k) as [->|Hin]; [constructor|].
  rewrite Forall_forall in Hf. apply (Hf _ Hin).
Qed.

Lemma trie_entries_leaf t k ph : trie_wf t -> (In (k, ph) (trie_entries t) <-> In ph (trie_leaf t k)).
Proof.
  intros [Hnd _]. rewrite trie_entries_In. cbn [fst snd]. split.
  - intros [l [Hkl Hin]]. now rewrite (trie_leaf_In t k l Hnd Hkl).
  - intro Hin. destruct (trie_leaf_cases t k) as [E|Hkl]; [rewrite E in Hin; destruct Hin|]. eauto.
Qed.


Lemma trie_get_spec t x v : trie_wf t -> (trie_get t x = Some v <-> In (entry_of x v) (trie_entries t)).
Proof.
  intro Hwf. unfold trie_get, entry_of. rewrite trie_entries_leaf by assumption.
  destruct (find _ (trie_leaf t (fst x))) as [ph|] eqn:E.
  - apply find_text_spec in E as [Hin Hp]; [|now apply trie_leaf_NoDup]. split.
    + intros [= <-]. cbn [fst snd]. rewrite <- Hp. now destruct ph.
    + intro Hin'. f_equal.
      assert (ph = mkPhrase (snd x) (fst v) (snd v)).
      { apply (NoDup_map_inj_in ph_text (trie_leaf t (fst x))); auto. now apply trie_leaf_NoDup. }
      subst ph. now destruct v.
  - split; [discriminate|]. intro Hin.
    assert (H : find (fun ph => seq_eqb (ph_text ph) (snd x)) (trie_leaf t (fst x)) = Some (mkPhrase (snd x) (fst v) (snd v))).
    { apply find_text_spec; [now apply trie_leaf_NoDup | auto]. }
    congruence.
Qed.

Lemma trie_entries_NoDup t : trie_wf t -> NoDup (map pk (trie_entries t)).
Proof.
  intros [Hnd Hf]. induction t as [|[k l] t IH]; cbn [trie_entries flat_map]; [constructor|].
  inversion Hnd as [|? ? Hn Hd]; subst. inversion Hf as [|? ? Hl Hf']; subst. cbn [fst snd] in *.
  apply NoDup_map_app.
  - clear - Hl. unfold texts in Hl. induction l as [|ph l IHl]; cbn [map]; [constructor|].
    inversion Hl as [|? ? Hn Hd]; subst. constructor; [|auto].
    intro Hin. apply Hn. apply in_map_iff in Hin as [e [He Hi]].
    apply in_map_iff in Hi as [q [<- Hq]]. unfold pk in He. cbn [fst snd] in He.
    inversion He. apply in_map_iff. eauto.
  - now apply IH.
  - intros x y Hx Hy. apply in_map_iff in Hx as [ph [<- Hph]].
    fold (trie_entries t) in Hy. apply trie_entries_In in Hy as [l' [Hkl _]].
    unfold pk. cbn [fst snd]. intro E. inversion E as [[E1 E2]]. apply Hn.
    apply in_map_iff. exists (fst y, l'). cbn [fst]. auto.
Qed.

(* ------------------------------------------------------------------ TrieBuilder *)

Lemma leaf_put_texts ph l :
  texts (leaf_put ph l) = if existsb (seq_eqb (ph_text ph)) (texts l) then texts l else texts l ++ [ph_text ph].
Proof.
  unfold texts. induction l as [|q l IH]; cbn [leaf_put map existsb app]; [reflexivity|].
  rewrite (seq_eqb_sym (ph_text ph) (ph_text q)).
  destruct (seq_eqb (ph_text q) (ph_text ph)) eqn:E; cbn [orb map].
  - apply seq_eqb_eq in E. now rewrite E.
  - rewrite IH. destruct (existsb (seq_eqb (ph_text ph)) (map ph_text l)); reflexivity.
Qed.

Lemma leaf_put_NoDup ph l : NoDup (texts l) -> NoDup (texts (leaf_put ph l)).
Proof.
  intro H. rewrite leaf_put_texts. destruct (existsb (seq_eqb (ph_text ph)) (texts l)) eqn:E; [assumption|].
  apply NoDup_snoc; [assumption|]. intro Hx. apply existsb_seq_In in Hx. congruence.
Qed.

Lemma leaf_put_In ph l x :
  NoDup (texts l) -> (In x (leaf_put ph l) <-> x = ph \/ (In x l /\ ph_text x <> ph_text ph)).
Proof.
  unfold texts. induction l as [|q l IH]; cbn [leaf_put In map]; intro Hnd.
  - intuition.
  - inversion Hnd as [|? ? Hn Hd]; subst.
    destruct (seq_eqb (ph_text q) (ph_text ph)) eqn:E; cbn [In].
    + apply seq_eqb_eq in E. split.
      * intros [<-|Hin]; [now left|]. right. split; [now right|]. intro Hp. apply Hn.
        rewrite E, <- Hp. now apply in_map.
      * intros [->|[[<-|Hin] Hne]]; [now left | congruence | now right].
    + apply seq_eqb_neq in E. rewrite (IH Hd). split.
      * intros [<-|[->|[Hin Hne]]]; [right; split; [now left | assumption] | now left | right; split; [now right | assumption]].
      * intros [->|[[<-|Hin] Hne]]; [right; now left | now left | right; right; auto].
Qed.

Lemma trie_has_key_In t k : trie_has_key t k = true <-> In k (map fst t).
Proof.
  induction t as [|[k' l] t IH]; cbn [trie_has_key map fst In]; [split; [discriminate | intros []]|].
  rewrite orb_true_iff, IH, seq_eqb_eq. intuition.
Qed.

Lemma trie_update_leaf_keys t k ph : map fst (trie_update_leaf t k ph) = map fst t.
Proof.
  induction t as [|[k' l] t IH]; cbn [trie_update_leaf map fst]; [reflexivity|].
  destruct (seq_eqb k k'); cbn [map fst]; [reflexivity | now rewrite IH].
Qed.

Lemma trie_update_leaf_In t k ph kl :
  NoDup (map fst t) ->
  (In kl (trie_update_leaf t k ph) <->
   (fst kl <> k /\ In kl t) \/ (fst kl = k /\ exists l, In (k, l) t /\ snd kl = leaf_put ph l)).
Proof.
  induction t as [|[k' l'] t IH]; cbn [trie_update_leaf map fst In]; intro Hnd.
  - split; [intros [] | intros [[_ []]|[_ [l [[] _]]]]].
  - inversion Hnd as [|? ? Hn Hd]; subst.
    destruct (seq_eqb k k') eqn:E; cbn [In].
    + apply seq_eqb_eq in E. subst k'. split.
      * intros [<-|Hin]; cbn [fst snd].
        -- right. split; [reflexivity|]. exists l'. split; [now left | reflexivity].
        -- left. split; [|now right]. intro Hk. apply Hn. rewrite <- Hk. now apply in_map.
      * intros [[Hne [<-|Hin]]|[Hk [l [[[= <-]|Hin] Hs]]]].
        -- cbn [fst] in Hne. congruence.
        -- now right.
        -- left. destruct kl. cbn [fst snd] in *. now subst.
        -- exfalso. apply Hn. apply in_map_iff. exists (k, l). auto.
    + apply seq_eqb_neq in E. rewrite (IH Hd). split.
      * intros [<-|[[Hne Hin]|[Hk [l [Hin Hs]]]]].
        -- left. cbn [fst]. split; [congruence | now left].
        -- left. split; [assumption | now right].
        -- right. split; [assumption|]. exists l. split; [now right | assumption].
      * intros [[Hne [<-|Hin]]|[Hk [l [[[= <- <-]|Hin] Hs]]]].
        -- now left.
        -- right. left. auto.
        -- congruence.
        -- right. right. split; [assumption|]. eauto.
Qed.

Lemma trie_ins_key_In t k ph kl : In kl (trie_ins_key t k ph) <-> kl = (k, [ph]) \/ In kl t.
Proof.
  induction t as [|[k' l'] t IH]; cbn [trie_ins_key In].
  - intuition.
  - destruct (lex_cmp k k'); cbn [In]; rewrite ?IH; intuition.
Qed.

Lemma trie_ins_key_NoDup t k ph :
  NoDup (map fst t) -> ~ In k (map fst t) -> NoDup (map fst (trie_ins_key t k ph)).
Proof.
  induction t as [|[k' l'] t IH]; cbn [trie_ins_key map fst]; intros Hnd Hni.
  - constructor; [intros [] | constructor].
  - inversion Hnd as [|? ? Hn Hd]; subst. cbn [In] in Hni.
    assert (Hcons : NoDup (k :: k' :: map fst t)) by (constructor; [exact Hni | exact Hnd]).
    destruct (lex_cmp k k'); cbn [map fst]; try exact Hcons.
    constructor.
    + intro Hin. apply in_map_iff in Hin as [e [He Hi]]. apply trie_ins_key_In in Hi as [->|Hi].
      * cbn [fst] in He. subst. apply Hni. now left.
      * apply Hn. apply in_map_iff. eauto.
    + apply IH; [assumption | intro; apply Hni; now right].
Qed.

Lemma builder_insert_spec t e0 :
  trie_wf t ->
  trie_wf (builder_insert t e0) /\
  forall e, In e (trie_entries (builder_insert t e0)) <->
            e = e0 \/ (In e (trie_entries t) /\ pk e <> pk e0).
Proof.
  intros [Hnd Hf]. destruct e0 as [k ph]. unfold builder_insert. cbn [fst snd].
  rewrite Forall_forall in Hf.
  destruct (trie_has_key t k) eqn:Hk.
  - (* existing key: the leaf is updated in place *)
    split.
    + split; [now rewrite trie_update_leaf_keys|]. apply Forall_forall. intros kl Hin.
      apply trie_update_leaf_In in Hin as [[_ Hin]|[_ [l [Hin ->]]]]; [now apply Hf | | assumption].
      apply leaf_put_NoDup. apply (Hf _ Hin).
    + intro e. rewrite !trie_entries_In. split.
      * intros [l [Hin Hph]]. apply trie_update_leaf_In in Hin as [[Hne Hin]|[Hke [l0 [Hin Hs]]]]; [| |assumption];
          cbn [fst snd] in *.
        -- right. split; [eauto|]. unfold pk. cbn [fst snd]. intro E. inversion E. contradiction.
        -- subst l. apply leaf_put_In in Hph as [Heq|[Hph Hne]]; [| |apply (Hf _ Hin)].
           ++ left. destruct e. cbn [fst snd] in *. now subst.
           ++ right. split; [exists l0; rewrite Hke; auto|]. unfold pk. cbn [fst snd]. intro E. inversion E. contradiction.
      * intros [->|[[l [Hin Hph]] Hne]]; cbn [fst snd].
        -- apply trie_has_key_In in Hk. apply in_map_iff in Hk as [[k' l0] [Hk' Hin]]. cbn [fst] in Hk'. subst k'.
           exists (leaf_put ph l0). split.
           ++ apply trie_update_leaf_In; [assumption|]. right. cbn [fst snd]. eauto.
           ++ apply leaf_put_In; [apply (Hf _ Hin) | now left].
        -- destruct (list_eq_dec N.eq_dec (fst e) k) as [Hke|Hke].
           ++ exists (leaf_put ph l). split.
              ** apply trie_update_leaf_In; [assumption|]. right. cbn [fst snd]. split; [assumption|].
                 exists l. rewrite <- Hke. auto.
              ** apply leaf_put_In; [apply (Hf _ Hin)|]. right. split; [assumption|].
                 intro Hp. apply Hne. unfold pk. cbn [fst snd]. congruence.
           ++ exists l. split; [|assumption]. apply trie_update_leaf_In; [assumption|]. left. auto.
  - (* new key *)
    assert (Hni : ~ In k (map fst t)) by (intro H; apply trie_has_key_In in H; congruence).
    split.
    + split; [now apply trie_ins_key_NoDup|]. apply Forall_forall. intros kl Hin.
      apply trie_ins_key_In in Hin as [->|Hin]; [|now apply Hf].
      cbn [snd texts map]. constructor; [intros [] | constructor].
    + intro e. rewrite !trie_entries_In. split.
      * intros [l [Hin Hph]]. apply trie_ins_key_In in Hin as [Heq|Hin].
        -- inversion Heq as [[Hke Hl]]. subst l. destruct Hph as [Hph|[]]. left. destruct e. cbn [fst snd] in *. now subst.
        -- right. split; [eauto|]. unfold pk. cbn [fst snd]. intro E. inversion E as [[E1 E2]]. apply Hni. rewrite <- E1.
           apply in_map_iff. exists (fst e, l). auto.
      * intros [->|[[l [Hin Hph]] _]]; cbn [fst snd].
        -- exists [ph]. split; [apply trie_ins_key_In; now left | now left].
        -- exists l. split; [apply trie_ins_key_In; now right | assumption].
Qed.

Lemma builder_fold_spec es t :
  trie_wf t -> NoDup (map pk es) ->
  (forall e e', In e (trie_entries t) -> In e' es -> pk e <> pk e') ->
  trie_wf (fold_left builder_insert es t) /\
  forall e, In e (trie_entries (fold_left builder_insert es t)) <-> In e (trie_entries t) \/ In e es.
Proof.
  revert t. induction es as [|e0 es IH]; intros t Hwf Hnd Hdis; cbn [fold_left].
  - split; [assumption | intro; cbn [In]; tauto].
  - cbn [map] in Hnd. inversion Hnd as [|? ? Hn Hd]; subst.
    destruct (builder_insert_spec t e0 Hwf) as [Hwf' Hin'].
    destruct (IH (builder_insert t e0) Hwf' Hd) as [Hwf'' Hin''].
    + intros e e' He He'. apply Hin' in He as [->|[He _]].
      * intro E. apply Hn. rewrite E. now apply in_map.
      * apply Hdis; [assumption | now right].
    + split; [assumption|]. intro e. rewrite Hin'', Hin'. cbn [In]. split.
      * intros [[->|[H _]]|H]; auto.
      * intros [H|[->|H]]; auto. left. right. split; [assumption|]. apply Hdis; [assumption | now left].
Qed.

Lemma leaf_sort_ins_perm x l : Permutation (leaf_sort_ins x l) (x :: l).
Proof.
  induction l as [|y l IH]; cbn [leaf_sort_ins]; [reflexivity|].
  destruct (leaf_cmp x y); try reflexivity;
    (rewrite IH; apply perm_swap).
Qed.

Lemma leaf_sort_perm l : Permutation (leaf_sort l) l.
Proof.
  unfold leaf_sort.
  enough (G : forall acc, Permutation (fold_left (fun a x => leaf_sort_ins x a) l acc) (acc ++ l)) by apply (G []).
  induction l as [|x l IH]; intro acc; cbn [fold_left].
  - now rewrite app_nil_r.
  - rewrite IH. rewrite leaf_sort_ins_perm. cbn [app]. apply Permutation_middle.
Qed.

Lemma sort_leaves_wf t : trie_wf t -> trie_wf (map (fun kl => (fst kl, leaf_sort (snd kl))) t).
Proof.
  intros [Hnd Hf]. split.
  - rewrite map_map. cbn [fst]. exact Hnd.
  - apply Forall_forall. intros kl Hin. apply in_map_iff in Hin as [[k l] [<- Hin]]. cbn [fst snd].
    rewrite Forall_forall in Hf. specialize (Hf _ Hin). cbn [snd] in Hf.
    unfold texts in *. apply (Permutation_NoDup (l := map ph_text l)); [|assumption].
    apply Permutation_map. symmetry. apply leaf_sort_perm.
Qed.

Lemma sort_leaves_In t e :
  In e (trie_entries (map (fun kl => (fst kl, leaf_sort (snd kl))) t)) <-> In e (trie_entries t).
Proof.
  rewrite !trie_entries_In. split.
  - intros [l [Hin Hph]]. apply in_map_iff in Hin as [[k l0] [[= <- <-] Hin]]. cbn [fst snd] in *.
    exists l0. split; [assumption|]. apply (Permutation_in _ (leaf_sort_perm l0)). assumption.
  - intros [l [Hin Hph]]. exists (leaf_sort l). split.
    + apply in_map_iff. exists (fst e, l). auto.
    + apply (Permutation_in _ (Permutation_sym (leaf_sort_perm l))). assumption.
Qed.

(* TrieBuilder builds exactly the map of an input without duplicate keys *)
Lemma trie_build_spec es :
  NoDup (map pk es) ->
  trie_wf (trie_build es) /\ forall e, In e (trie_entries (trie_build es)) <-> In e es.
Proof.
  intro Hnd. unfold trie_build.
  destruct (builder_fold_spec es [] (conj (NoDup_nil _) (Forall_nil _)) Hnd) as [Hwf Hin].
  - intros e e' [].
  - split; [now apply sort_leaves_wf|]. intro e. rewrite sort_leaves_In, Hin. cbn [trie_entries flat_map In]. tauto.
Qed.

Lemma trie_wf_nil : trie_wf [].
Proof. split; constructor. Qed.

(* ------------------------------------------------------------------ lookups *)

Lemma key_match_std a b : key_match Standard a b = seq_eqb a b.
Proof.
  revert b. induction a as [|x a IH]; intros [|y b]; cbn [key_match syl_match]; try reflexivity.
  unfold seq_eqb. cbn [list_eqb]. fold (seq_eqb a b). now rewrite IH.
Qed.

Lemma filter_key_single t k :
  NoDup (map fst t) ->
  (filter (fun kl => seq_eqb (fst kl) k) t = [] /\ trie_leaf t k = []) \/
  (filter (fun kl => seq_eqb (fst kl) k) t = [(k, trie_leaf t k)]).
Proof.
  induction t as [|[k' l] t IH]; cbn [filter trie_leaf map fst]; intro Hnd; [now left|].
  inversion Hnd as [|? ? Hn Hd]; subst. rewrite (seq_eqb_sym k k').
  destruct (seq_eqb k' k) eqn:E.
  - apply seq_eqb_eq in E. subst k'. right. f_equal.
    destruct (IH Hd) as [[-> _]|H]; [reflexivity|]. exfalso. apply Hn.
    assert (Hin : In (k, trie_leaf t k) (filter (fun kl => seq_eqb (fst kl) k) t)) by (rewrite H; now left).
    apply filter_In in Hin as [Hin _]. apply in_map_iff. exists (k, trie_leaf t k). auto.
  - exact (IH Hd).
Qed.

Lemma collect_single first l : collect_leaves first [l] [] = l.
Proof. cbn [collect_leaves app]. now destruct (first <? len_N l). Qed.

(* a Standard lookup of everything is the leaf of the key *)
Lemma trie_lookup_std b t k :
  trie_wf t -> trie_lookup_gen b t k USIZE_MAX Standard = trie_leaf t k.
Proof.
  intros [Hnd _]. unfold trie_lookup_gen.
  rewrite (filter_ext _ (fun kl => seq_eqb (fst kl) k)) by (intro; apply key_match_std).
  destruct (filter_key_single t k Hnd) as [[-> ->]| ->]; cbn [map snd].
  - cbn [collect_leaves]. now destruct b.
  - rewrite collect_single. now destruct b.
Qed.

Lemma collect_prefix first ls acc :
  exists r, acc ++ concat ls = collect_leaves first ls acc ++ r /\
            (r = [] \/ first < len_N (collect_leaves first ls acc)).
Proof.
  revert acc. induction ls as [|l ls IH]; intro acc; cbn [collect_leaves concat].
  - exists []. split; [reflexivity | now left].
  - destruct (N.ltb_spec first (len_N (acc ++ l))).
    + exists (concat ls). split; [now rewrite app_assoc | now right].
    + destruct (IH (acc ++ l)) as [r [H1 H2]]. exists r. split; [now rewrite app_assoc | assumption].
Qed.

Lemma firstN_collect n first ls : n <= first -> firstN n (collect_leaves first ls []) = firstN n (concat ls).
Proof.
  intro Hle. destruct (collect_prefix first ls []) as [r [H1 [->|H2]]]; cbn [app] in H1.
  - now rewrite H1, app_nil_r.
  - rewrite H1. symmetry. apply firstN_app_le. lia.
Qed.

(* asking the (fixed) Trie for the first n returns the first n of its full result *)
Lemma trie_lookup_first_n t k n s :
  n <= USIZE_MAX ->
  trie_lookup_gen true t k n s = truncate_usize n (trie_lookup_gen true t k USIZE_MAX s).
Proof.
  intro Hn. unfold trie_lookup_gen. rewrite truncate_usize_max.
  set (ls := map snd (filter (fun kl => key_match s (fst kl) k) t)).
  unfold truncate_usize. destruct (N.leb_spec USIZE_MAX n) as [Hge|Hlt].
  - now replace n with USIZE_MAX by lia.
  - rewrite !firstN_collect by lia. reflexivity.
Qed.
