(* C02, the other direction of "a non-empty commit string is available exactly when the key result says
   Commit": when process_keyevent answers Commit, the commit string is not empty - for every key event in every
   state.  The only assumption is about the conversion: over a dictionary that is `good`, the answer for a
   non-empty buffer starts with an interval whose text is not empty (what a tiling by dictionary phrases and
   single symbols is; the correspondence validates it on every logged conversion). *)
From Coq Require Import NArith List Bool Arith Lia.
From LC Require Import Base.Lib Gen.Editor_gen Model.Composition Model.Conversion Model.Editor Model.EditorRun
     Proofs.CompositionProofs Proofs.EditorInv Proofs.EditorFrames.
Import ListNotations.
Open Scope nat_scope.

Definition head_text (ivs : list interval) : Prop := exists iv r, ivs = iv :: r /\ itext iv <> [].

Section CommitConverse.
Context {D SY : Type} (dops : dict_ops D) (sops : syl_ops SY) (conv : conv_fn D).
Notation shared' := (shared D SY).
Notation editor' := (editor D SY).
Implicit Types s : shared D SY.
Implicit Types e : editor D SY.

Variable good : D -> Prop.
Hypothesis conv_shows : forall d k c n, good d -> symbols c <> [] -> head_text (conv d k c n).

Ltac inv_ok H := inversion H; subst; clear H.
Ltac bind_ok H x Hx := apply obind_ok in H; destruct H as (x & Hx & H).
Ltac split_if H :=
  match type of H with
  | context[if ?c then _ else _] => let E := fresh "E" in destruct c eqn:E
  end.

Lemma head_text_display ivs : head_text ivs -> display_of ivs <> [].
Proof.
  intros (iv & r & -> & Hne). unfold display_of. cbn [flat_map]. intros H. apply app_eq_nil in H as [H _]. now apply Hne.
Qed.

Lemma not_empty_symbols s : ce_is_empty (com s) = false -> symbols (inner (com s)) <> [].
Proof.
  unfold ce_is_empty, ce_len, clen. intros H E. rewrite E in H. discriminate.
Qed.

Lemma commit_or_insert_commit s ch s' : commit_or_insert s ch = Ok (s', Spin BCommit) -> commit_buf s' <> [].
Proof.
  unfold commit_or_insert. destruct (ce_is_empty (com s)); intros H.
  - inv_ok H. discriminate.
  - bind_ok H x Hx. discriminate.
Qed.

Lemma entering_default_commit s ev s' : entering_default sops s ev = Ok (s', Spin BCommit) -> commit_buf s' <> [].
Proof.
  intros H. unfold entering_default in H.
  destruct (negb (o_english (opts s))).
  - destruct (N.eqb (kcode ev) kc_Grave && mods_none ev); [discriminate|].
    destruct (N.eqb (kcode ev) kc_Space).
    { destruct (negb (o_fullwidth (opts s))); [eapply commit_or_insert_commit; eassumption|].
      destruct (full_width_symbol_input (kunicode ev)); [eapply commit_or_insert_commit; eassumption | discriminate]. }
    destruct (o_easy_symbol (opts s)).
    { destruct (assoc (kunicode ev) (abbr s)).
      - bind_ok H c Hc. discriminate.
      - destruct (special_symbol_input (kunicode ev)).
        + bind_ok H s1 H1. discriminate.
        + destruct (mods_none ev).
          * destruct (so_key_press sops (syl s) ev) as [sy kb]. destruct kb; discriminate.
          * discriminate. }
    set (pressed := if mods_none ev then Some (so_key_press sops (syl s) ev) else None) in *.
    destruct pressed as [[sy kb]|].
    + destruct kb; try discriminate;
      (destruct (special_symbol_input (kunicode ev)); [bind_ok H s1 H1; discriminate|];
       destruct (is_printable ev); [|discriminate];
       destruct (negb (o_fullwidth (opts s))); [eapply commit_or_insert_commit; eassumption|];
       destruct (full_width_symbol_input (kunicode ev)); [eapply commit_or_insert_commit; eassumption | discriminate]).
    + destruct (special_symbol_input (kunicode ev)); [bind_ok H s1 H1; discriminate|].
      destruct (is_printable ev); [|discriminate].
      destruct (negb (o_fullwidth (opts s))); [eapply commit_or_insert_commit; eassumption|].
      destruct (full_width_symbol_input (kunicode ev)); [eapply commit_or_insert_commit; eassumption | discriminate].
  - destruct (negb (o_fullwidth (opts s))); [eapply commit_or_insert_commit; eassumption|].
    destruct (full_width_symbol_input (kunicode ev)); [eapply commit_or_insert_commit; eassumption | discriminate].
Qed.

Lemma commit_shows s s' : good (dict s) -> ce_is_empty (com s) = false -> commit dops conv s = Ok s' -> commit_buf s' <> [].
Proof.
  intros Hg Hne H. unfold commit in H. bind_ok H s1 H1. inv_ok H. cbn.
  apply head_text_display. unfold conversion. apply conv_shows; [exact Hg | now apply not_empty_symbols].
Qed.

Lemma entering_next_commit s ev s' : good (dict s) ->
  entering_next dops sops conv s ev = Ok (s', Spin BCommit) -> commit_buf s' <> [].
Proof.
  intros Hg H. unfold entering_next in H.
  split_if H.
  { split_if H; [discriminate|]. bind_ok H s1 H1. discriminate. }
  split_if H; [discriminate|].
  split_if H.
  { split_if H; [discriminate|].
    split_if H.
    - bind_ok H r Hr. destruct r as [s1 ok]. cbn [snd] in H. destruct ok; discriminate.
    - split_if H.
      + bind_ok H r Hr. destruct r as [s1 ok]. cbn [snd] in H. destruct ok; discriminate.
      + discriminate. }
  split_if H; [discriminate|].
  split_if H.
  { split_if H; [discriminate|]. split_if H; bind_ok H s1 H1; discriminate. }
  split_if H.
  { split_if H; [discriminate|]. bind_ok H s1 H1. discriminate. }
  split_if H; [discriminate|].
  split_if H; [split_if H; discriminate|].
  split_if H; [split_if H; discriminate|].
  split_if H; [discriminate|].
  split_if H; [discriminate|].
  split_if H; [discriminate|].
  split_if H; [discriminate|].
  split_if H.
  { apply start_selecting_common_spin in H. cbv beta in H.
    destruct (ce_is_empty (com s)); inv_ok H. cbn. intros X. apply app_eq_nil in X as [_ X]. discriminate. }
  split_if H.
  { apply start_selecting_common_spin in H. cbv beta in H. discriminate. }
  split_if H; [discriminate|].
  split_if H.
  { bind_ok H s1 H1. inv_ok H. eapply commit_shows; [exact Hg | | exact H1].
    (* Enter is a navigation key: with an empty buffer it was answered with Ignore above *)
    match goal with Y : N.eqb (kcode ev) kc_Enter = true |- _ => apply N.eqb_eq in Y;
      match goal with X : code_in (kcode ev) nav_codes && _ = false |- _ => rewrite Y in X; cbn in X; exact X end end. }
  split_if H; [split_if H; discriminate|].
  split_if H; [eapply commit_or_insert_commit; eassumption|].
  eapply entering_default_commit; eassumption.
Qed.

Lemma entering_syllable_next_no_commit s ev s' : entering_syllable_next dops sops s ev <> Ok (s', Spin BCommit).
Proof.
  intros H. unfold entering_syllable_next in H.
  split_if H; [split_if H; discriminate|].
  split_if H; [discriminate|].
  split_if H; [split_if H; discriminate|].
  destruct (if o_fuzzy (opts s) then so_fuzzy_key_press sops (syl s) ev else so_key_press sops (syl s) ev) as [sy kb].
  destruct kb as [| | | | | | |code]; try discriminate.
  - split_if H; [|discriminate]. bind_ok H s2 H2.
    destruct (o_engine _); [bind_ok H r Hr; discriminate | discriminate | discriminate].
  - split_if H; [bind_ok H s2 H2|]; discriminate.
Qed.

Lemma selecting_select_offset_no_commit s pg act sel n s' pg' sel' :
  selecting_select_offset dops sops s pg act sel n <> Ok (s', Spin BCommit, pg', sel').
Proof.
  intros H. unfold selecting_select_offset in H. destruct sel as [p|y|sym0].
  - bind_ok H cands Hc. destruct (nth_error cands _); [bind_ok H c1 H1|]; discriminate.
  - destruct (Nat.leb _ _); [discriminate|].
    bind_ok H r Hr. destruct r as [y' res]. destruct res; [bind_ok H c1 H1|]; discriminate.
  - bind_ok H m Hm. destruct (Nat.leb _ _); [discriminate|].
    bind_ok H res Hr. destruct res; [bind_ok H c1 H1|]; discriminate.
Qed.

Lemma selecting_next_no_commit s ev pg act sel s' pg' sel' :
  selecting_next dops sops s ev pg act sel <> Ok (s', Spin BCommit, pg', sel').
Proof.
  intros H. unfold selecting_next in H. cbv zeta in H.
  split_if H; [discriminate|].
  split_if H; [discriminate|].
  split_if H; [discriminate|].
  split_if H; [discriminate|].
  split_if H.
  { bind_ok H tp Htp. split_if H; [discriminate|].
    destruct sel as [p|y|sym0]; [bind_ok H p' Hp'|..]; discriminate. }
  split_if H; [split_if H; [discriminate|]; bind_ok H sel1 Hs1; discriminate|].
  split_if H; [split_if H; [discriminate|]; bind_ok H sel1 Hs1; discriminate|].
  split_if H; [split_if H; [discriminate|]; bind_ok H tp Htp; discriminate|].
  split_if H; [bind_ok H tp Htp; split_if H; discriminate|].
  split_if H; [unfold selecting_select in H; eapply selecting_select_offset_no_commit; eassumption|].
  split_if H; [discriminate|].
  split_if H; discriminate.
Qed.

Lemma highlighting_next_no_commit s ev mv s' mv' : highlighting_next dops conv s ev mv <> Ok (s', Spin BCommit, mv').
Proof.
  intros H. unfold highlighting_next in H.
  split_if H; [discriminate|]. split_if H; [discriminate|]. split_if H; [discriminate|].
  split_if H; [|discriminate].
  bind_ok H r Hr. discriminate.
Qed.

Lemma auto_commit_take_head len thr iv rest : itext iv <> [] ->
  forall buf rm, auto_commit_take len thr (iv :: rest) [] 0 = Ok (buf, rm) -> buf <> [].
Proof.
  intros Hne buf rm H. cbn [auto_commit_take] in H.
  split_if H; [discriminate|]. split_if H.
  - inv_ok H. cbn. exact Hne.
  - assert (G : forall ivs b r b' r', auto_commit_take len thr ivs b r = Ok (b', r') -> exists t, b' = b ++ t).
    { induction ivs as [|x xs IH]; intros b r b' r' H0; cbn [auto_commit_take] in H0.
      - inv_ok H0. exists []. now rewrite app_nil_r.
      - split_if H0; [discriminate|]. split_if H0.
        + inv_ok H0. eauto.
        + destruct (IH _ _ _ _ H0) as (t & ->). exists (itext x ++ t). now rewrite app_assoc. }
    destruct (G _ _ _ _ _ H) as (t & ->). cbn. intros X. apply app_eq_nil in X as [X _]. now apply Hne.
Qed.

(* what the handler left (s2, in state st2) decides: either it answered Commit itself, or the auto-commit did *)
Theorem commit_result_has_commit_string e ev e' :
  good (dict (sh e)) -> good (dict (sh e')) ->
  process_keyevent dops sops conv e ev = Ok (e', BCommit) -> commit_buf (sh e') <> [].
Proof.
  intros Hg Hg' H. unfold process_keyevent in H.
  set (s0 := set_notice (set_lifetime (sh e) (lifetime (sh e) + 1)%N) []) in *.
  set (s1 := set_commit s0 []) in *.
  assert (Hd1 : dict s1 = dict (sh e)) by reflexivity.
  bind_ok H r Hr. destruct r as [s2 st2]. bind_ok H s3 H3. injection H as He Hb. subst e'. cbn [sh] in *.
  assert (F : forall x : shared', commit_buf (flush_dirty x) = commit_buf x /\ last (flush_dirty x) = last x /\ dict (flush_dirty x) = dict x).
  { intros x. unfold flush_dirty. destruct (N.ltb 0 (dirty x)); cbn; auto. }
  destruct (F s3) as (Fc & Fl & Fd). rewrite Fc. rewrite Fl in Hb. rewrite Fd in Hg'. clear F Fc Fl Fd.
  assert (K : last s2 = BCommit -> commit_buf s2 <> []).
  { intros Hl. destruct (st e) as [| |pg act sel|mv].
    - bind_ok Hr r Hr1. destruct r as [sa ta]. cbn [fst snd] in Hr. injection Hr as Hap.
      destruct ta as [ns|b]; cbn [apply_transition] in Hap; inv_ok Hap; cbn in Hl; [discriminate|]. subst b. cbn.
      eapply entering_next_commit; [|exact Hr1]. now rewrite Hd1.
    - bind_ok Hr r Hr1. destruct r as [sa ta]. cbn [fst snd] in Hr. injection Hr as Hap.
      destruct ta as [ns|b]; cbn [apply_transition] in Hap; inv_ok Hap; cbn in Hl; [discriminate|]. subst b.
      exfalso. eapply entering_syllable_next_no_commit; exact Hr1.
    - bind_ok Hr r Hr1. destruct r as [[[sa ta] pg'] sel']. injection Hr as Hap.
      destruct ta as [ns|b]; cbn [apply_transition] in Hap; inv_ok Hap; cbn in Hl; [discriminate|]. subst b.
      exfalso. eapply selecting_next_no_commit; exact Hr1.
    - bind_ok Hr r Hr1. destruct r as [[sa ta] mv']. injection Hr as Hap.
      destruct ta as [ns|b]; cbn [apply_transition] in Hap; inv_ok Hap; cbn in Hl; [discriminate|]. subst b.
      exfalso. eapply highlighting_next_no_commit; exact Hr1. }
  destruct (is_entering st2 && behavior_eqb (last s2) BAbsorb) eqn:Ea.
  - unfold try_auto_commit in H3. destruct (Nat.leb (ce_len (com s2)) (o_threshold (opts s2))) eqn:El.
    + inv_ok H3. now apply K.
    + bind_ok H3 r0 Hr0. destruct r0 as [buf rm]. bind_ok H3 c Hc. inv_ok H3. cbn in *.
      apply Nat.leb_gt in El.
      assert (Hs : symbols (inner (com s2)) <> []).
      { apply not_empty_symbols. unfold ce_is_empty. destruct (ce_len (com s2)); [lia | reflexivity]. }
      destruct (conv_shows (dict s2) (engine s2) (inner (com s2)) (nth s2) Hg' Hs) as (iv & rest & Ec & Hne).
      unfold conversion in Hr0. rewrite Ec in Hr0. eapply auto_commit_take_head; eassumption.
  - inv_ok H3. now apply K.
Qed.

End CommitConverse.
