(* Proofs about Model/CapiMem.v (C15): copy_cstr, the OWNED registry / chewing_free
   invariant, and the iterator lifetime invariant.  Stdlib only. *)
From Coq Require Import NArith ZArith PeanoNat List Bool Lia.
From LC Require Import Base.Lib Base.Text Model.CapiMem.
Import ListNotations.
Open Scope N_scope.

(* ------------------------------------------------------------------ *)
(* association lists *)

Lemma assoc_remove_same {A} k (l : list (N * A)) : assoc k (remove_key k l) = None.
Proof.
  induction l as [|[k' v] r IH]; [reflexivity|]. cbn [remove_key].
  destruct (N.eqb_spec k k') as [->|Hne]; [exact IH|].
  cbn [assoc]. destruct (N.eqb_spec k k'); [contradiction | exact IH].
Qed.

Lemma assoc_remove_other {A} k k' (l : list (N * A)) : k <> k' -> assoc k (remove_key k' l) = assoc k l.
Proof.
  intros Hne. induction l as [|[k2 v] r IH]; [reflexivity|]. cbn [remove_key].
  destruct (N.eqb_spec k' k2) as [->|Hne2].
  - cbn [assoc]. destruct (N.eqb_spec k k2); [contradiction | exact IH].
  - cbn [assoc]. destruct (N.eqb_spec k k2); [reflexivity | exact IH].
Qed.

Lemma assoc_insert_same {A} k (v : A) l : assoc k (insert_key k v l) = Some v.
Proof. unfold insert_key. cbn [assoc]. now rewrite N.eqb_refl. Qed.

Lemma assoc_insert_other {A} k k' (v : A) l : k <> k' -> assoc k (insert_key k' v l) = assoc k l.
Proof.
  intros Hne. unfold insert_key. cbn [assoc].
  destruct (N.eqb_spec k k'); [contradiction | now apply assoc_remove_other].
Qed.

(* ------------------------------------------------------------------ *)
(* copy_cstr *)

Lemma copy_len_le r cap s : (copy_len r cap s <= cap)%nat /\ (copy_len r cap s <= length s)%nat.
Proof.
  unfold copy_len. destruct r.
  - pose proof (floor_char_boundary_le s (Nat.min (Nat.pred cap) (length s))). lia.
  - lia.
Qed.

Lemma copy_cstr_length r cap s : length (copy_cstr r cap s) = cap.
Proof.
  unfold copy_cstr. destruct (copy_len_le r cap s) as [H1 H2].
  rewrite app_length, firstn_length, repeat_length. lia.
Qed.

Lemma is_char_boundary_len s : is_char_boundary s (length s) = true.
Proof.
  unfold is_char_boundary. destruct (length s) eqn:Hl; [reflexivity|].
  rewrite <- Hl. replace (nth_error s (length s)) with (@None N).
  - apply Nat.eqb_refl.
  - symmetry. apply nth_error_None. lia.
Qed.

Lemma copy_len_fits r cap s : (length s < cap)%nat -> copy_len r cap s = length s.
Proof.
  intros H. unfold copy_len. destruct r.
  - replace (Nat.min (Nat.pred cap) (length s)) with (length s) by lia.
    apply floor_char_boundary_id, is_char_boundary_len.
  - lia.
Qed.

(* the text fits: the buffer holds the text, a terminator, zero fill; reading it as a C string gives
   the text back - the same bytes the heap variant (text ++ [0]) gives *)
Lemma copy_cstr_fits r cap s :
  (length s < cap)%nat -> no_nul s = true ->
  copy_cstr r cap s = s ++ repeat 0 (cap - length s) /\
  c_str (copy_cstr r cap s) = s /\
  has_nul (copy_cstr r cap s) = true /\
  c_str (copy_cstr r cap s) = c_str (s ++ [0]).
Proof.
  intros Hlt Hn. unfold copy_cstr. rewrite (copy_len_fits r cap s Hlt), firstn_all.
  assert (Hrep : repeat 0 (cap - length s) = 0 :: repeat 0 (cap - length s - 1)).
  { destruct (cap - length s)%nat eqn:E; [lia|]. cbn [repeat]. f_equal. f_equal. lia. }
  split; [reflexivity|]. rewrite Hrep. split; [now apply c_str_app_nul|].
  split.
  - rewrite has_nul_app. cbn [has_nul existsb]. rewrite N.eqb_refl. apply orb_true_r.
  - rewrite !c_str_app_nul by assumption. reflexivity.
Qed.

(* the code as pinned: when the text fills or exceeds the buffer there is NO terminator inside the
   buffer, and the buffer holds the first cap bytes whether or not that cuts a character *)
Lemma copy_cstr_unfixed_overflow cap s :
  (cap <= length s)%nat -> no_nul s = true ->
  copy_cstr false cap s = firstn cap s /\ has_nul (copy_cstr false cap s) = false.
Proof.
  intros Hle Hn. unfold copy_cstr, copy_len.
  replace (Nat.min cap (length s)) with cap by lia.
  replace (cap - cap)%nat with O by lia. cbn [repeat]. rewrite app_nil_r.
  split; [reflexivity|]. apply no_nul_has_nul, no_nul_firstn, Hn.
Qed.

(* the repaired code: for every text (valid UTF-8, no interior NUL) and every capacity >= 1 the buffer is
   NUL-terminated, its C string is the longest prefix of the text that ends on a character boundary
   and leaves room for the terminator, that prefix is valid UTF-8, and it is the whole text
   exactly when the text fits *)
Lemma copy_cstr_reserve_spec cap s :
  (1 <= cap)%nat -> utf8_valid s = true -> no_nul s = true ->
  let n := copy_len true cap s in
  (n <= cap - 1)%nat /\
  has_nul (copy_cstr true cap s) = true /\
  c_str (copy_cstr true cap s) = firstn n s /\
  utf8_valid (c_str (copy_cstr true cap s)) = true /\
  is_char_boundary s n = true /\
  ((length s < cap)%nat -> c_str (copy_cstr true cap s) = s).
Proof.
  intros Hcap Hv Hn n.
  assert (Hle : (n <= cap - 1)%nat).
  { unfold n, copy_len. pose proof (floor_char_boundary_le s (Nat.min (Nat.pred cap) (length s))). lia. }
  assert (Hb : is_char_boundary s n = true) by apply floor_char_boundary_is.
  assert (Hrep : repeat 0 (cap - n) = 0 :: repeat 0 (cap - n - 1)).
  { destruct (cap - n)%nat eqn:E; [lia|]. cbn [repeat]. f_equal. f_equal. lia. }
  assert (Hc : c_str (copy_cstr true cap s) = firstn n s).
  { unfold copy_cstr. fold n. rewrite Hrep. apply c_str_app_nul, no_nul_firstn, Hn. }
  split; [exact Hle|]. split.
  { unfold copy_cstr. fold n. rewrite Hrep, has_nul_app. cbn [has_nul existsb].
    rewrite N.eqb_refl. apply orb_true_r. }
  split; [exact Hc|]. split.
  { rewrite Hc. now apply valid_cut_boundary. }
  split; [exact Hb|].
  intros Hlt. rewrite Hc. unfold n. rewrite copy_len_fits by assumption. apply firstn_all.
Qed.

(* the cut is the LARGEST character boundary that leaves room for the terminator: nothing that would
   still fit is dropped *)
Lemma floor_char_boundary_max bs i j :
  is_char_boundary bs j = true -> (j <= i)%nat -> (j <= floor_char_boundary bs i)%nat.
Proof.
  induction i as [|k IH]; intros Hb Hle; cbn [floor_char_boundary].
  - destruct (is_char_boundary bs 0); lia.
  - destruct (is_char_boundary bs (S k)) eqn:E; [exact Hle|].
    apply IH; [exact Hb|]. destruct (Nat.eq_dec j (S k)) as [->|Hne]; [congruence | lia].
Qed.

Lemma copy_len_max cap s j :
  is_char_boundary s j = true -> (j <= cap - 1)%nat -> (j <= length s)%nat -> (j <= copy_len true cap s)%nat.
Proof. intros Hb H1 H2. unfold copy_len. apply floor_char_boundary_max; [exact Hb | lia]. Qed.

(* ------------------------------------------------------------------ *)
(* projections through the state setters *)

Lemma get_heap_up s pol t a : s_up (fst (get_heap s pol t a)) = s_up s.
Proof. unfold get_heap, alloc_cstring. destruct (no_nul t); [reflexivity|]. destruct pol; reflexivity. Qed.

Lemma get_heap_not_dangling s pol t a : is_dangling (snd (get_heap s pol t a)) = false.
Proof. unfold get_heap, alloc_cstring. destruct (no_nul t); [reflexivity|]. destruct pol; reflexivity. Qed.

Lemma do_free_up cfg s p : s_up (fst (do_free cfg s p)) = s_up s.
Proof.
  unfold do_free. destruct (p =? 0); [reflexivity|].
  destruct (assoc p (s_reg s)) as [o|]; [|reflexivity].
  destruct (assoc p (s_heap s)) as [b|].
  - destruct (l_size _ =? 0); [reflexivity|]. destruct (layout_eqb _ _); reflexivity.
  - destruct o as [|[|len]]; reflexivity.
Qed.

Lemma do_free_not_dangling cfg s p : is_dangling (snd (do_free cfg s p)) = false.
Proof.
  unfold do_free. destruct (p =? 0); [reflexivity|].
  destruct (assoc p (s_reg s)) as [o|]; [|reflexivity].
  destruct (assoc p (s_heap s)) as [b|].
  - destruct (l_size _ =? 0); [reflexivity|]. destruct (layout_eqb _ _); reflexivity.
  - destruct o as [|[|len]]; reflexivity.
Qed.

Lemma up_get_item_not_dangling cfg pb bb e : is_dangling (up_get_item cfg pb bb e) = false.
Proof.
  unfold up_get_item. destruct (write_user pb (fst e)) as [p|]; destruct (write_user bb (snd e)) as [b|];
    try reflexivity; destruct (up_get_checks cfg); reflexivity.
Qed.

(* ------------------------------------------------------------------ *)
(* no_dangling: when the user-phrase iterator owns its snapshot, no handle in the context ever
   holds a borrow, so no call sequence reaches Dangling *)

Definition up_is_own (s : state) : Prop :=
  match s_up s with Some (UpBorrow _ _ _) => False | _ => True end.

Lemma step_own cfg s o :
  up_owns cfg = true -> up_is_own s ->
  up_is_own (fst (step cfg s o)) /\ is_dangling (snd (step cfg s o)) = false.
Proof.
  intros Hcfg Hown. unfold up_is_own in *.
  destruct o; cbn [step].
  - rewrite get_heap_up, get_heap_not_dangling. auto.
  - destruct text; cbn; auto.
  - destruct (len =? 0); cbn; auto.
  - rewrite do_free_up, do_free_not_dangling. auto.
  - destruct r; cbn; auto.
  - cbn. unfold int_of_bool. auto.
  - destruct (s_cand s) as [[|x r]|]; cbn [fst snd];
      try (rewrite get_heap_up, get_heap_not_dangling); cbn; auto.
  - destruct (s_cand s) as [[|x r]|]; cbn; auto.
  - cbn; auto.
  - cbn; auto.
  - destruct (s_int s) as [[|x r]|]; cbn; auto.
  - cbn; auto.
  - cbn; auto.
  - destruct (s_kb s) as [[|x r]|]; cbn [fst snd];
      try (rewrite get_heap_up, get_heap_not_dangling); cbn; auto.
  - destruct (s_kb s) as [[|x r]|]; cbn; auto.
  - rewrite Hcfg. cbn. auto.
  - destruct (s_up s) as [[[|e r]|tok pk rest]|] eqn:E; try contradiction;
      cbn [fst snd set_up s_up]; rewrite ?E; cbn; auto.
  - destruct (s_up s) as [[[|e r]|tok pk rest]|] eqn:E; try contradiction;
      cbn [fst snd set_up s_up]; rewrite ?E, ?up_get_item_not_dangling; cbn; auto.
  - destruct (tb_apply muts (s_tb s) (s_dirty_level s)) as [tb dl].
    destruct (end_of_key && (0 <? dl)); cbn; auto.
Qed.

Lemma run_own cfg : up_owns cfg = true ->
  forall ops s, up_is_own s -> existsb is_dangling (run cfg s ops) = false.
Proof.
  intros Hcfg. induction ops as [|o r IH]; intros s Hs; [reflexivity|].
  cbn [run]. destruct (step cfg s o) as [s' x] eqn:E.
  destruct (step_own cfg s o Hcfg Hs) as [Hs' Hx]. rewrite E in Hs', Hx. cbn [fst snd] in *.
  cbn [existsb]. rewrite Hx. cbn. now apply IH.
Qed.

Lemma init_own fb : up_is_own (init fb).
Proof. exact I. Qed.

Theorem no_dangling_own cfg : up_owns cfg = true ->
  forall fb ops, existsb is_dangling (run cfg (init fb) ops) = false.
Proof. intros H fb ops. apply run_own; [exact H | apply init_own]. Qed.

(* ------------------------------------------------------------------ *)
(* free_spec: registry / heap invariant *)

Definition good_free (cfg : config) : Prop :=
  free_removes cfg = true /\ free_elem_size cfg = 2 /\ free_elem_align cfg = 2.

(* the layout the registry entry stands for equals the layout the block was allocated with *)
Definition entry_ok (o : owned) (ob : option blk) : Prop :=
  match o, ob with
  | OCString, Some b => b_layout b = {| l_size := len_N (c_str (b_bytes b)) + 1; l_align := 1 |}
  | OCUShort len, Some b => len <> 0 /\ b_layout b = u16_layout len
  | OCUShort len, None => len = 0
  | OCString, None => False
  end.

Definition reg_inv (s : state) : Prop :=
  (forall p o, assoc p (s_reg s) = Some o -> entry_ok o (assoc p (s_heap s))) /\
  (forall p b, assoc p (s_heap s) = Some b -> exists o, assoc p (s_reg s) = Some o) /\
  assoc 0 (s_reg s) = None /\
  assoc dangling_u16 (s_heap s) = None.

(* what the environment (allocator) may do: a fresh allocation never lands on a block that is still live,
   on address 0, or on the dangling address of empty u16 slices *)
Definition addr_ok (s : state) (a : N) : Prop :=
  a <> 0 /\ a <> dangling_u16 /\ assoc a (s_heap s) = None.

Definition env_ok (s : state) (o : op) : Prop :=
  match o with
  | OGetHeap _ _ a | OCandString a | OKbString a => addr_ok s a
  | OPhoneSeq len a => len <> 0 -> addr_ok s a
  | _ => True
  end.

Fixpoint env_ok_run (cfg : config) (s : state) (ops : list op) : Prop :=
  match ops with
  | [] => True
  | o :: r => env_ok s o /\ env_ok_run cfg (fst (step cfg s o)) r
  end.

Lemma reg_inv_alloc s a o b :
  reg_inv s -> addr_ok s a -> entry_ok o (Some b) ->
  reg_inv (set_heap s (insert_key a b (s_heap s)) (insert_key a o (s_reg s))).
Proof.
  intros [H1 [H2 [H3 H4]]] [Ha0 [Ha2 Hfresh]] Hok. unfold reg_inv. cbn [s_reg s_heap set_heap].
  repeat split.
  - intros p o' Hp. destruct (N.eq_dec p a) as [->|Hne].
    + rewrite assoc_insert_same in Hp. rewrite assoc_insert_same. inversion Hp; subst o'. exact Hok.
    + rewrite assoc_insert_other in Hp by assumption. rewrite assoc_insert_other by assumption. now apply H1.
  - intros p b' Hp. destruct (N.eq_dec p a) as [->|Hne].
    + rewrite assoc_insert_same. eauto.
    + rewrite assoc_insert_other in Hp by assumption. rewrite assoc_insert_other by assumption. now apply (H2 p b').
  - rewrite assoc_insert_other by (intro; subst; contradiction). exact H3.
  - rewrite assoc_insert_other by (intro Hx; symmetry in Hx; contradiction). exact H4.
Qed.

Lemma alloc_cstring_inv s t a :
  reg_inv s -> addr_ok s a -> no_nul t = true -> reg_inv (fst (alloc_cstring s t a)).
Proof.
  intros Hinv Ha Hn. unfold alloc_cstring. cbn [fst].
  apply reg_inv_alloc; try assumption.
  cbn [entry_ok b_layout b_bytes]. unfold cstring_layout. now rewrite c_str_app_nul.
Qed.

Lemma alloc_cstring_nofault s t a : is_alloc_fault (snd (alloc_cstring s t a)) = false.
Proof. reflexivity. Qed.

Lemma get_heap_inv s pol t a :
  reg_inv s -> addr_ok s a -> reg_inv (fst (get_heap s pol t a)) /\ is_alloc_fault (snd (get_heap s pol t a)) = false.
Proof.
  intros Hinv Ha. unfold get_heap. destruct (no_nul t) eqn:Hn.
  - split; [now apply alloc_cstring_inv | reflexivity].
  - destruct pol; cbn [fst snd]; split; try assumption; try reflexivity. now apply alloc_cstring_inv.
Qed.

(* chewing_free on a state satisfying the invariant: exactly one of
   - null / unregistered pointer / registered empty u16 slice: nothing is released;
   - registered live block: released with the layout it was allocated with; block and entry gone. *)
Lemma do_free_spec cfg s p :
  good_free cfg -> reg_inv s ->
  reg_inv (fst (do_free cfg s p)) /\
  match assoc p (s_heap s) with
  | Some b =>
      snd (do_free cfg s p) = RDealloc p (b_layout b) /\
      assoc p (s_heap (fst (do_free cfg s p))) = None /\
      assoc p (s_reg (fst (do_free cfg s p))) = None
  | None => snd (do_free cfg s p) = RNone /\ s_heap (fst (do_free cfg s p)) = s_heap s
  end.
Proof.
  intros [Hrm [Hsz Hal]] Hinv. pose proof Hinv as [H1 [H2 [H3 H4]]]. unfold do_free.
  destruct (N.eqb_spec p 0) as [->|Hp0].
  { cbn [fst snd]. split; [assumption|].
    destruct (assoc 0 (s_heap s)) as [b|] eqn:Hb; [|now split].
    destruct (H2 0 b Hb) as [o Ho]. congruence. }
  destruct (assoc p (s_reg s)) as [o|] eqn:Ho.
  2:{ cbn [fst snd]. split; [assumption|].
      destruct (assoc p (s_heap s)) as [b|] eqn:Hb; [|now split].
      destruct (H2 p b Hb) as [o Ho']. congruence. }
  rewrite Hrm. pose proof (H1 p o Ho) as Hok.
  assert (Hinv_rm : forall h, (forall q b, assoc q h = Some b -> q <> p /\ assoc q (s_heap s) = Some b) ->
            (forall q, q <> p -> assoc q h = assoc q (s_heap s)) ->
            reg_inv (set_heap s h (remove_key p (s_reg s)))).
  { intros h Hh Hh'. unfold reg_inv. cbn [s_reg s_heap set_heap]. repeat split.
    - intros q o' Hq. destruct (N.eq_dec q p) as [->|Hne]; [now rewrite assoc_remove_same in Hq|].
      rewrite assoc_remove_other in Hq by assumption. rewrite Hh' by assumption. now apply H1.
    - intros q b Hq. destruct (Hh q b Hq) as [Hne Hq']. rewrite assoc_remove_other by assumption. now apply (H2 q b).
    - rewrite assoc_remove_other by (intro Hx; symmetry in Hx; contradiction). exact H3.
    - destruct (assoc dangling_u16 h) as [b|] eqn:Hb; [|reflexivity].
      destruct (Hh _ _ Hb) as [_ Hb']. congruence. }
  destruct (assoc p (s_heap s)) as [b|] eqn:Hb.
  - assert (Hl : free_layout cfg o (b_bytes b) = b_layout b /\ l_size (b_layout b) <> 0).
    { destruct o as [|len]; cbn [entry_ok free_layout] in *.
      - rewrite Hok. split; [reflexivity|]. cbn [l_size]. lia.
      - destruct Hok as [Hlen ->]. rewrite Hsz, Hal. unfold u16_layout. split; [f_equal; lia|]. cbn [l_size]. lia. }
    destruct Hl as [Hl Hnz]. rewrite Hl.
    destruct (N.eqb_spec (l_size (b_layout b)) 0) as [E|_]; [contradiction|].
    assert (Heq : layout_eqb (b_layout b) (b_layout b) = true).
    { unfold layout_eqb. now rewrite !N.eqb_refl. }
    rewrite Heq. cbn [fst snd]. split.
    + apply Hinv_rm.
      * intros q b' Hq. destruct (N.eq_dec q p) as [->|Hne]; [now rewrite assoc_remove_same in Hq|].
        rewrite assoc_remove_other in Hq by assumption. now split.
      * intros q Hne. now apply assoc_remove_other.
    + cbn [s_heap s_reg set_heap]. rewrite !assoc_remove_same. now repeat split.
  - destruct o as [|len]; cbn [entry_ok] in Hok; [contradiction|]. subst len.
    cbn [fst snd]. split; [|now split].
    apply Hinv_rm.
    + intros q b' Hq. split; [intro; subst; congruence | assumption].
    + reflexivity.
Qed.

Lemma do_free_nofault cfg s p : good_free cfg -> reg_inv s -> is_alloc_fault (snd (do_free cfg s p)) = false.
Proof.
  intros Hg Hinv. destruct (do_free_spec cfg s p Hg Hinv) as [_ H].
  destruct (assoc p (s_heap s)) as [b|].
  - destruct H as [-> _]. reflexivity.
  - destruct H as [-> _]. reflexivity.
Qed.

Lemma step_inv cfg s o :
  good_free cfg -> reg_inv s -> env_ok s o ->
  reg_inv (fst (step cfg s o)) /\ is_alloc_fault (snd (step cfg s o)) = false.
Proof.
  intros Hg Hinv Henv.
  destruct o; cbn [step env_ok] in *.
  - now apply get_heap_inv.
  - destruct text; cbn; auto.
  - destruct (N.eqb_spec len 0) as [->|Hne]; cbn [fst snd]; (split; [|reflexivity]).
    + destruct Hinv as [H1 [H2 [H3 H4]]]. unfold reg_inv. cbn [s_reg s_heap set_heap]. repeat split.
      * intros p o Hp. destruct (N.eq_dec p dangling_u16) as [->|Hn2].
        -- rewrite assoc_insert_same in Hp. inversion Hp; subst o. rewrite H4. reflexivity.
        -- rewrite assoc_insert_other in Hp by assumption. now apply H1.
      * intros p b Hp. destruct (N.eq_dec p dangling_u16) as [->|Hn2].
        -- congruence.
        -- rewrite assoc_insert_other by assumption. now apply (H2 p b).
      * rewrite assoc_insert_other by (unfold dangling_u16; lia). exact H3.
      * exact H4.
    + apply reg_inv_alloc; [assumption | now apply Henv |]. cbn [entry_ok b_layout]. now split.
  - split; [now apply do_free_spec | now apply do_free_nofault].
  - destruct r; cbn; auto.
  - cbn. unfold int_of_bool. destruct (selecting && has_item (s_cand s)); auto.
  - destruct (s_cand s) as [[|x r]|]; try (split; [now apply alloc_cstring_inv | reflexivity]).
    apply (get_heap_inv (set_cand s (Some r)) NulEmpty x a); assumption.
  - destruct (s_cand s) as [[|x r]|]; cbn; auto.
  - cbn; auto.
  - cbn. unfold int_of_bool. destruct (has_item (s_int s)); auto.
  - destruct (s_int s) as [[|x r]|]; cbn; auto.
  - cbn; auto.
  - cbn. unfold int_of_bool. destruct (has_item (s_kb s)); auto.
  - destruct (s_kb s) as [[|x r]|]; try (split; [now apply alloc_cstring_inv | reflexivity]).
    apply (get_heap_inv (set_kb s (Some r)) NulNull x a); assumption.
  - destruct (s_kb s) as [[|x r]|]; cbn; auto.
  - cbn; auto.
  - destruct (s_up s) as [[[|e r]|tok [|] [|e r]]|]; cbn [fst snd]; auto;
      try (destruct (stale tok (tb_tok (s_tb s))); cbn; auto).
  - destruct (s_up s) as [[[|e r]|tok [|] [|e r]]|]; cbn [fst snd]; auto;
      try (destruct (stale tok (tb_tok (s_tb s))); cbn [fst snd]; auto);
      try (split; [assumption|]); unfold up_get_item;
      try (destruct (write_user pbuf (fst e)); destruct (write_user bbuf (snd e)); try reflexivity;
           destruct (up_get_checks cfg); reflexivity).
  - destruct (tb_apply muts (s_tb s) (s_dirty_level s)) as [tb dl].
    destruct (end_of_key && (0 <? dl)); cbn; auto.
Qed.

Lemma run_inv cfg : good_free cfg ->
  forall ops s, reg_inv s -> env_ok_run cfg s ops ->
  existsb is_alloc_fault (run cfg s ops) = false /\ reg_inv (run_state cfg s ops).
Proof.
  intros Hg. induction ops as [|o r IH]; intros s Hs Henv; [split; [reflexivity | exact Hs]|].
  cbn [run run_state env_ok_run] in *. destruct Henv as [Ho Hr].
  destruct (step_inv cfg s o Hg Hs Ho) as [Hs' Hx].
  destruct (step cfg s o) as [s' x] eqn:E. cbn [fst snd] in *.
  cbn [existsb]. rewrite Hx. cbn [orb]. now apply IH.
Qed.

Lemma init_inv fb : reg_inv (init fb).
Proof. unfold reg_inv, init. cbn. repeat split; intros; discriminate. Qed.

(* every chewing_free of every call sequence (with an allocator that does not hand out live blocks)
   releases nothing, or releases a live registered block with the layout it was allocated with *)
Theorem free_spec_good cfg : good_free cfg ->
  forall fb ops, env_ok_run cfg (init fb) ops ->
  existsb is_alloc_fault (run cfg (init fb) ops) = false /\
  forall p, let s := run_state cfg (init fb) ops in
    match assoc p (s_heap s) with
    | Some b => snd (step cfg s (OFree p)) = RDealloc p (b_layout b) /\
                assoc p (s_heap (fst (step cfg s (OFree p)))) = None /\
                snd (step cfg (fst (step cfg s (OFree p))) (OFree p)) = RNone     (* double free: ignored *)
    | None => snd (step cfg s (OFree p)) = RNone                                    (* foreign / null / empty slice *)
    end.
Proof.
  intros Hg fb ops Henv. destruct (run_inv cfg Hg ops (init fb) (init_inv fb) Henv) as [Hnf Hinv].
  split; [exact Hnf|]. intros p s. cbn [step].
  destruct (do_free_spec cfg s p Hg Hinv) as [Hinv' Hspec].
  destruct (assoc p (s_heap s)) as [b|] eqn:Hb.
  - destruct Hspec as [Hr [Hh Hreg]]. split; [exact Hr|]. split; [exact Hh|].
    destruct (do_free_spec cfg (fst (do_free cfg s p)) p Hg Hinv') as [_ Hspec2].
    rewrite Hh in Hspec2. now destruct Hspec2.
  - now destruct Hspec.
Qed.

(* every heap result is live and registered when it is returned (so it can be released) *)
Lemma heap_result_registered cfg s o a content :
  snd (step cfg s o) = RHeap a content ->
  assoc a (s_reg (fst (step cfg s o))) = Some OCString /\
  exists b, assoc a (s_heap (fst (step cfg s o))) = Some b /\ b_bytes b = content /\
            b_layout b = {| l_size := len_N content; l_align := 1 |}.
Proof.
  assert (Halloc : forall s t a', snd (alloc_cstring s t a') = RHeap a content ->
     assoc a (s_reg (fst (alloc_cstring s t a'))) = Some OCString /\
     exists b, assoc a (s_heap (fst (alloc_cstring s t a'))) = Some b /\ b_bytes b = content /\
            b_layout b = {| l_size := len_N content; l_align := 1 |}).
  { intros s0 t a' H. unfold alloc_cstring in *. cbn [fst snd] in *. inversion H; subst.
    cbn [s_reg s_heap set_heap]. rewrite !assoc_insert_same. split; [reflexivity|].
    eexists. split; [reflexivity|]. cbn [b_bytes b_layout]. split; [reflexivity|].
    unfold cstring_layout, len_N. rewrite app_length. cbn [length]. f_equal. lia. }
  assert (Hget : forall s pol t a', snd (get_heap s pol t a') = RHeap a content ->
     assoc a (s_reg (fst (get_heap s pol t a'))) = Some OCString /\
     exists b, assoc a (s_heap (fst (get_heap s pol t a'))) = Some b /\ b_bytes b = content /\
            b_layout b = {| l_size := len_N content; l_align := 1 |}).
  { intros s0 pol t a'. unfold get_heap. destruct (no_nul t); [apply Halloc|].
    destruct pol; cbn [fst snd]; try discriminate. apply Halloc. }
  destruct o; cbn [step];
    try apply Hget;
    try (destruct (s_cand s) as [[|x r]|]; first [apply Halloc | apply Hget]);
    try (destruct (s_kb s) as [[|x r]|]; first [apply Halloc | apply Hget]).
  all: intros H; exfalso; revert H;
    unfold do_free, up_get_item, int_of_bool, write_static;
    repeat match goal with
           | |- context [match ?x with _ => _ end] => destruct x
           end; cbn [fst snd]; discriminate.
Qed.

(* ------------------------------------------------------------------ *)
(* data bounds: how long the UTF-8 form of a text of n characters can be *)

Definition bmp_char_ok (c : N) : bool :=
  if is_scalar c then (length (utf8_encode_char c) <=? 3)%nat else true.

Lemma bmp_char_sweep : forall_below 65536 bmp_char_ok = true.
Proof. vm_cast_no_check (eq_refl true). Qed.

Lemma encode_length_le_bmp cs :
  forallb is_scalar cs = true -> forallb (fun c => c <? 65536) cs = true ->
  (length (utf8_encode cs) <= 3 * length cs)%nat.
Proof.
  induction cs as [|c r IH]; intros H Hb; [cbn; lia|].
  cbn [forallb] in H, Hb. apply andb_true_iff in H as [Hc Hr]. apply andb_true_iff in Hb as [Hcb Hrb].
  cbn [utf8_encode flat_map length]. rewrite app_length. specialize (IH Hr Hrb). unfold utf8_encode in IH.
  apply N.ltb_lt in Hcb. pose proof (forall_below_true _ _ bmp_char_sweep c Hcb) as Hk.
  unfold bmp_char_ok in Hk. rewrite Hc in Hk. apply Nat.leb_le in Hk. lia.
Qed.

(* any text of at most 63 characters fits a 256-byte buffer with its terminator;
   any text of at most 5 BMP characters fits a 16-byte buffer *)
Lemma text_fits_256 cs : forallb is_scalar cs = true -> (length cs <= 63)%nat ->
  (length (utf8_encode cs) < 256)%nat.
Proof. intros H Hl. pose proof (encode_length_le cs H). lia. Qed.

Lemma text_fits_16 cs : forallb is_scalar cs = true -> forallb (fun c => c <? 65536) cs = true ->
  (length cs <= 5)%nat -> (length (utf8_encode cs) < 16)%nat.
Proof. intros H Hb Hl. pose proof (encode_length_le_bmp cs H Hb). lia. Qed.

(* the witness sequences of the pinned tree *)
Definition witness_up : list op :=
  [OUpEnum two_entries; OUpHasNext;
   OCall [(MUpdate, true)] false WRunning true;      (* chewing_userphrase_add, update branch *)
   OCall [] true WRunning true;                      (* one key event: reopen() reloads the trie *)
   OUpGet None None; OUpHasNext].

Definition witness_free_u16 : list op := [OPhoneSeq 3 4096; OFree 4096].
Definition witness_double_free : list op := [OGetHeap NulNull [65] 4096; OFree 4096; OFree 4096].

(* ------------------------------------------------------------------ *)
(* strings: over all call sequences every string the model hands to the caller is NUL-terminated valid
   UTF-8, provided the texts the editor supplies are valid UTF-8 without U+0000 (Rust Strings are valid
   UTF-8 by type; NUL-freedom is dict_wf + printable keys) *)

Definition text_okb (t : bytes) : bool := utf8_valid t && no_nul t.
Definition entry_okb (e : entry) : bool := text_okb (fst e) && text_okb (snd e).

Definition op_texts_okb (o : op) : bool :=
  match o with
  | OGetHeap _ t _ => utf8_valid t
  | OGetStatic _ (Some t) => text_okb t
  | OCandEnum (Some l) => forallb text_okb l
  | OUpEnum snap => forallb entry_okb snap
  | _ => true
  end.

Definition cstring_ok (c : bytes) : Prop :=
  exists t, c = t ++ [0] /\ utf8_valid t = true /\ no_nul t = true.

Definition res_ok (cfg : config) (r : res) : Prop :=
  match r with
  | RHeap _ c => cstring_ok c
  | RStatic b c => length c = N.to_nat (cap_of cfg b) /\ has_nul c = true /\ utf8_valid (c_str c) = true
  | RUpGet p b => (forall x, p = Some x -> cstring_ok x) /\ (forall x, b = Some x -> cstring_ok x)
  | _ => True
  end.

Definition up_rest (h : up_handle) : list entry :=
  match h with UpOwn r => r | UpBorrow _ _ r => r end.

Definition texts_inv (s : state) : Prop :=
  (forall l, s_cand s = Some l -> forallb text_okb l = true) /\
  (forall l, s_kb s = Some l -> forallb text_okb l = true) /\
  (forall h, s_up s = Some h -> forallb entry_okb (up_rest h) = true).

Definition good_strings (cfg : config) : Prop :=
  cstr_reserve cfg = true /\ (forall b, 1 <= cap_of cfg b) /\ forallb text_okb (kb_names cfg) = true.

Lemma cstring_ok_intro t : utf8_valid t = true -> no_nul t = true -> cstring_ok (t ++ [0]).
Proof. intros Hv Hn. now exists t. Qed.

Lemma text_okb_split t : text_okb t = true -> utf8_valid t = true /\ no_nul t = true.
Proof. unfold text_okb. intros H. now apply andb_true_iff in H. Qed.

Lemma alloc_cstring_res cfg s t a : utf8_valid t = true -> no_nul t = true -> res_ok cfg (snd (alloc_cstring s t a)).
Proof. intros Hv Hn. cbn. now apply cstring_ok_intro. Qed.

Lemma get_heap_res cfg s pol t a : utf8_valid t = true -> res_ok cfg (snd (get_heap s pol t a)).
Proof.
  intros Hv. unfold get_heap. destruct (no_nul t) eqn:Hn; [now apply alloc_cstring_res|].
  destruct pol; cbn [snd res_ok]; auto. now apply (alloc_cstring_res cfg s [] a).
Qed.

Lemma write_static_res cfg s b t : good_strings cfg -> text_okb t = true -> res_ok cfg (snd (write_static cfg s b t)).
Proof.
  intros [Hres [Hcap _]] Ht. apply text_okb_split in Ht as [Hv Hn].
  unfold write_static. cbn [snd res_ok]. rewrite Hres.
  assert (H1 : (1 <= N.to_nat (cap_of cfg b))%nat) by (specialize (Hcap b); lia).
  destruct (copy_cstr_reserve_spec _ t H1 Hv Hn) as [_ [Hnul [_ [Hval _]]]].
  split; [apply copy_cstr_length|]. now split.
Qed.

Lemma up_get_item_res cfg pb bb e : entry_okb e = true -> res_ok cfg (up_get_item cfg pb bb e).
Proof.
  intros He. unfold entry_okb in He. apply andb_true_iff in He as [Hp Hb].
  apply text_okb_split in Hp as [Hpv Hpn]. apply text_okb_split in Hb as [Hbv Hbn].
  unfold up_get_item, write_user.
  destruct pb as [n|]; destruct bb as [m|];
    repeat match goal with |- context [if ?c then _ else _] => destruct c end;
    cbn [res_ok]; auto; split; intros x Hx; inversion Hx; subst; now apply cstring_ok_intro.
Qed.

Lemma get_heap_texts s pol t a : texts_inv s -> texts_inv (fst (get_heap s pol t a)).
Proof. unfold get_heap, alloc_cstring. destruct (no_nul t); [auto|]. destruct pol; auto. Qed.

Lemma do_free_texts cfg s p : texts_inv s -> texts_inv (fst (do_free cfg s p)).
Proof.
  unfold do_free. destruct (p =? 0); [auto|]. destruct (assoc p (s_reg s)) as [o|]; [|auto].
  destruct (assoc p (s_heap s)) as [b|].
  - destruct (l_size _ =? 0); [auto|]. destruct (layout_eqb _ _); auto.
  - destruct o as [|[|len]]; auto.
Qed.

Lemma step_strings cfg s o :
  good_strings cfg -> texts_inv s -> op_texts_okb o = true ->
  texts_inv (fst (step cfg s o)) /\ res_ok cfg (snd (step cfg s o)).
Proof.
  intros Hg Hinv Ho. pose proof Hinv as [Hc [Hk Hu]]. pose proof Hg as [_ [_ Hnames]].
  destruct o; cbn [step op_texts_okb] in *.
  - split; [now apply get_heap_texts | now apply get_heap_res].
  - destruct text as [t|]; [|cbn; auto]. split; [exact Hinv | now apply write_static_res].
  - destruct (len =? 0); cbn; auto.
  - split; [now apply do_free_texts|]. unfold do_free.
    destruct (p =? 0); [exact I|]. destruct (assoc p (s_reg s)) as [ow|]; [|exact I].
    destruct (assoc p (s_heap s)) as [b|].
    + destruct (l_size _ =? 0); [exact I|]. destruct (layout_eqb _ _); exact I.
    + destruct ow as [|[|len]]; exact I.
  - destruct r as [l|]; cbn [fst snd res_ok]; [|auto]. split; [|exact I].
    repeat split; cbn [s_cand s_kb s_up set_cand]; auto. intros l' Hl'. inversion Hl'; subst. exact Ho.
  - cbn. unfold int_of_bool. auto.
  - destruct (s_cand s) as [[|x r]|] eqn:E.
    + split; [exact Hinv | now apply alloc_cstring_res].
    + specialize (Hc _ eq_refl). cbn [forallb] in Hc. apply andb_true_iff in Hc as [Hx Hr].
      apply text_okb_split in Hx as [Hxv Hxn]. split.
      * apply get_heap_texts. repeat split; cbn [s_cand s_kb s_up set_cand]; auto.
        intros l' Hl'. inversion Hl'; subst. exact Hr.
      * now apply get_heap_res.
    + split; [exact Hinv | now apply alloc_cstring_res].
  - destruct (s_cand s) as [[|x r]|] eqn:E; try (cbn; auto; fail).
    specialize (Hc _ eq_refl). cbn [forallb] in Hc. apply andb_true_iff in Hc as [Hx Hr]. split.
    + unfold write_static. cbn [fst]. repeat split; cbn [s_cand s_kb s_up set_cand set_buf]; auto.
      intros l' Hl'. inversion Hl'; subst. exact Hr.
    + now apply write_static_res.
  - cbn; auto.
  - cbn. unfold int_of_bool. auto.
  - destruct (s_int s) as [[|x r]|]; cbn; auto.
  - cbn [fst snd res_ok]. split; [|exact I]. repeat split; cbn [s_cand s_kb s_up set_kb]; auto.
    intros l' Hl'. inversion Hl'; subst. exact Hnames.
  - cbn. unfold int_of_bool. auto.
  - destruct (s_kb s) as [[|x r]|] eqn:E.
    + split; [exact Hinv | now apply alloc_cstring_res].
    + specialize (Hk _ eq_refl). cbn [forallb] in Hk. apply andb_true_iff in Hk as [Hx Hr].
      apply text_okb_split in Hx as [Hxv Hxn]. split.
      * apply get_heap_texts. repeat split; cbn [s_cand s_kb s_up set_kb]; auto.
        intros l' Hl'. inversion Hl'; subst. exact Hr.
      * now apply get_heap_res.
    + split; [exact Hinv | now apply alloc_cstring_res].
  - destruct (s_kb s) as [[|x r]|] eqn:E; try (cbn; auto; fail).
    specialize (Hk _ eq_refl). cbn [forallb] in Hk. apply andb_true_iff in Hk as [Hx Hr]. split.
    + unfold write_static. cbn [fst]. repeat split; cbn [s_cand s_kb s_up set_kb set_buf]; auto.
      intros l' Hl'. inversion Hl'; subst. exact Hr.
    + now apply write_static_res.
  - cbn [fst snd res_ok]. split; [|exact I]. repeat split; cbn [s_cand s_kb s_up set_up]; auto.
    intros h Hh. inversion Hh; subst. destruct (up_owns cfg); exact Ho.
  - destruct (s_up s) as [h|] eqn:E; [|cbn; auto].
    specialize (Hu _ eq_refl).
    assert (Hnone : texts_inv (set_up s None)).
    { repeat split; cbn [s_cand s_kb s_up set_up]; auto. intros h' Hh'. discriminate. }
    assert (Hset : forall h', forallb entry_okb (up_rest h') = true -> texts_inv (set_up s (Some h'))).
    { intros h' Hh'. repeat split; cbn [s_cand s_kb s_up set_up]; auto. intros h2 H2. inversion H2; subst. exact Hh'. }
    destruct h as [[|e r]|tok [|] [|e r]]; cbn [fst snd up_rest] in *;
      try (destruct (stale tok (tb_tok (s_tb s))); cbn [fst snd]);
      (split; [first [exact Hinv | exact Hnone | now apply Hset] | exact I]).
  - destruct (s_up s) as [h|] eqn:E; [|cbn; auto].
    specialize (Hu _ eq_refl).
    assert (Hset : forall h', forallb entry_okb (up_rest h') = true -> texts_inv (set_up s (Some h'))).
    { intros h' Hh'. repeat split; cbn [s_cand s_kb s_up set_up]; auto. intros h2 H2. inversion H2; subst. exact Hh'. }
    destruct h as [[|e r]|tok [|] [|e r]]; cbn [fst snd up_rest forallb] in *;
      try (destruct (stale tok (tb_tok (s_tb s))); cbn [fst snd]);
      first [ split; [exact Hinv | exact I]
            | apply andb_true_iff in Hu as [He Hr]; split; [apply Hset; exact Hr | now apply up_get_item_res] ].
  - destruct (tb_apply muts (s_tb s) (s_dirty_level s)) as [tb dl].
    destruct (end_of_key && (0 <? dl)); cbn; auto.
Qed.

Lemma run_strings cfg : good_strings cfg ->
  forall ops s, texts_inv s -> forallb op_texts_okb ops = true -> Forall (res_ok cfg) (run cfg s ops).
Proof.
  intros Hg. induction ops as [|o r IH]; intros s Hs Hops; [constructor|].
  cbn [forallb] in Hops. apply andb_true_iff in Hops as [Ho Hr].
  cbn [run]. destruct (step_strings cfg s o Hg Hs Ho) as [Hs' Hx].
  destruct (step cfg s o) as [s' x]. cbn [fst snd] in *. constructor; [exact Hx | now apply IH].
Qed.

Lemma init_texts fb : texts_inv (init fb).
Proof. repeat split; cbn; intros; discriminate. Qed.

Theorem strings_wellformed cfg : good_strings cfg ->
  forall fb ops, forallb op_texts_okb ops = true -> Forall (res_ok cfg) (run cfg (init fb) ops).
Proof. intros Hg fb ops H. apply run_strings; [exact Hg | apply init_texts | exact H]. Qed.
