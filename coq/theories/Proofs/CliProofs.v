(* Proofs about Model/Cli.v (C20): the dump printers and parse_line are inverse
   on well-formed records for both delimiters; the compiler is a map (last
   record per key, no duplicates); compiling a dump again gives the same
   dictionary; every rejected line is reported with its number, exit status 1
   and no output unless --skip-invalid. *)
From Coq Require Import NArith List Bool Lia Permutation.
From LC Require Import Base.Lib Gen.Bopomofo_gen Gen.Uhash_gen Model.Syllable Model.Utf8Dfa Model.Uhash Model.Cli
  Proofs.Utf8DfaProofs Proofs.UhashProofs.
Import ListNotations.
Open Scope N_scope.

(* ------------------------------------------------------------------ *)
(* splitting *)

Definition pfree (p : N -> bool) (l : list N) : Prop := Forall (fun c => p c = false) l.

Lemma split_on_free p a : forall s cur, pfree p a -> split_on p (a ++ s) cur = split_on p s (rev a ++ cur).
Proof.
  induction a as [|c a IH]; intros s cur H; [reflexivity|].
  inversion H as [|c0 a0 Hc Ha]; subst. cbn [app split_on rev]. rewrite Hc, IH by exact Ha.
  now rewrite <- app_assoc.
Qed.

Lemma split_on_sep p a c rest : pfree p a -> p c = true ->
  split_on p (a ++ c :: rest) [] = a :: split_on p rest [].
Proof.
  intros Ha Hc. rewrite split_on_free by exact Ha. cbn [split_on]. rewrite Hc, app_nil_r, rev_involutive. reflexivity.
Qed.

Lemma split_on_last p a : pfree p a -> split_on p a [] = [a].
Proof.
  intros Ha. rewrite <- (app_nil_r a) at 1. rewrite split_on_free by exact Ha.
  cbn [split_on]. now rewrite app_nil_r, rev_involutive.
Qed.

Lemma fields_sep p a c rest : a <> [] -> pfree p a -> p c = true ->
  fields p (a ++ c :: rest) = a :: fields p rest.
Proof.
  intros Hne Ha Hc. unfold fields. rewrite split_on_sep by assumption. cbn [filter].
  destruct a; [contradiction | reflexivity].
Qed.

Lemma fields_last p a : a <> [] -> pfree p a -> fields p a = [a].
Proof.
  intros Hne Ha. unfold fields. rewrite split_on_last by exact Ha. cbn [filter].
  destruct a; [contradiction | reflexivity].
Qed.

Lemma fields_nil p : fields p [] = [].
Proof. reflexivity. Qed.

Lemma fields_join p c toks : p c = true ->
  Forall (fun t => t <> [] /\ pfree p t) toks -> fields p (join [c] toks) = toks.
Proof.
  intros Hc. induction toks as [|t ts IH]; intros H; [reflexivity|].
  inversion H as [|t0 ts0 [Hne Hf] Hts]; subst.
  destruct ts as [|t' ts'].
  - cbn [join]. now apply fields_last.
  - change (join [c] (t :: t' :: ts')) with (t ++ [c] ++ join [c] (t' :: ts')). cbn [app].
    rewrite fields_sep by assumption. now rewrite IH.
Qed.

(* ------------------------------------------------------------------ *)
(* quotes *)

Lemma trim_start_q_id s : match s with c :: _ => c <> QUOTE | [] => True end -> trim_start_q s = s.
Proof. destruct s as [|c t]; [reflexivity|]. intros H. cbn [trim_start_q]. destruct (N.eqb_spec c QUOTE); [contradiction | reflexivity]. Qed.

Lemma trim_q_id s : Forall (fun c => c <> QUOTE) s -> trim_q s = s.
Proof.
  intros H. unfold trim_q. rewrite (trim_start_q_id s) by (destruct H; [exact I | assumption]).
  assert (Hr : Forall (fun c => c <> QUOTE) (rev s)) by now apply Forall_rev.
  rewrite (trim_start_q_id (rev s)) by (destruct Hr; [exact I | assumption]).
  apply rev_involutive.
Qed.

(* ------------------------------------------------------------------ *)
(* characters of a printed syllable *)

Definition char_plain (c : N) : bool := negb ((c =? COMMA) || (c =? QUOTE) || (c =? HASH) || is_ws c).

Lemma char_table_plain : forallb char_plain char_table = true.
Proof. vm_cast_no_check (eq_refl true). Qed.

Lemma map_opt_in {A B} (f : A -> option B) l y : In y (map_opt f l) -> exists x, In x l /\ f x = Some y.
Proof.
  induction l as [|a l IH]; [intros []|]. cbn [map_opt].
  destruct (f a) as [b|] eqn:E.
  - intros [<-|H]; [exists a; split; [now left | exact E]|].
    destruct (IH H) as [x [Hx Hf]]. exists x. split; [now right | exact Hf].
  - intros H. destruct (IH H) as [x [Hx Hf]]. exists x. split; [now right | exact Hf].
Qed.

Lemma spell_plain v c : In c (spell v) -> char_plain c = true.
Proof.
  unfold spell. intros H. apply map_opt_in in H as [b [_ Hb]].
  unfold bchar, nth_N in Hb. apply nth_error_In in Hb.
  pose proof char_table_plain as T. rewrite forallb_forall in T. now apply T.
Qed.

Lemma char_plain_spec c : char_plain c = true -> c <> COMMA /\ c <> QUOTE /\ c <> HASH /\ is_ws c = false.
Proof.
  unfold char_plain. intros H. apply negb_true_iff in H.
  apply orb_false_iff in H as [H H4]. apply orb_false_iff in H as [H H3]. apply orb_false_iff in H as [H1 H2].
  apply N.eqb_neq in H1, H2, H3. auto.
Qed.

Lemma is_ws_space : is_ws 32 = true /\ is_ws 12288 = true.
Proof. split; reflexivity. Qed.

(* ------------------------------------------------------------------ *)
(* well-formed records *)

Record srec_wf_P (r : srec) : Prop := {
  sw_nonempty : sr_phrase r <> [];
  sw_chars : Forall (fun c => c <> COMMA /\ c <> QUOTE /\ is_ws c = false) (sr_phrase r);
  sw_syls_nonempty : sr_syls r <> [];
  sw_syls : Forall (fun v => spell v <> [] /\ parse_chars (spell v) = inl v) (sr_syls r);
  sw_freq : sr_freq r < 4294967296
}.

Lemma srec_wf_spec r : srec_wf r = true -> srec_wf_P r.
Proof.
  unfold srec_wf. intros H. repeat (apply andb_true_iff in H as [H ?]).
  constructor.
  - destruct (sr_phrase r); [discriminate | discriminate].
  - apply Forall_forall. intros c Hc.
    match goal with Hf : forallb phrase_char_ok _ = true |- _ => rewrite forallb_forall in Hf; specialize (Hf c Hc) end.
    unfold phrase_char_ok in *.
    match goal with Hf : negb _ = true |- _ => apply negb_true_iff in Hf;
      apply orb_false_iff in Hf as [Hf Hf3]; apply orb_false_iff in Hf as [Hf1 Hf2] end.
    apply N.eqb_neq in Hf1, Hf2. auto.
  - destruct (sr_syls r); [discriminate | discriminate].
  - apply Forall_forall. intros v Hv.
    match goal with Hf : forallb syl_ok _ = true |- _ => rewrite forallb_forall in Hf; specialize (Hf v Hv) end.
    unfold syl_ok in *.
    match goal with Hf : _ && _ = true |- _ => apply andb_true_iff in Hf as [Hf1 Hf2] end.
    split.
    + destruct (spell v); [discriminate | discriminate].
    + destruct (parse_chars (spell v)) as [v'|]; [|discriminate]. apply N.eqb_eq in Hf2. now subst.
  - now apply N.ltb_lt.
Qed.

(* ------------------------------------------------------------------ *)
(* the line codec *)

Lemma parse_syl_tokens_spells vs :
  Forall (fun v => spell v <> [] /\ parse_chars (spell v) = inl v) vs ->
  parse_syl_tokens (map spell vs) = Some vs.
Proof.
  induction vs as [|v vs IH]; intros H; [reflexivity|].
  inversion H as [|v0 l0 [Hne Hp] Hvs]; subst. cbn [map parse_syl_tokens].
  assert (Hq : Forall (fun c => c <> QUOTE) (spell v)).
  { apply Forall_forall. intros c Hc. apply spell_plain, char_plain_spec in Hc. tauto. }
  rewrite trim_q_id by exact Hq.
  destruct (spell v) as [|c t] eqn:E; [contradiction|].
  assert (Hc : c <> HASH).
  { assert (Hin : In c (c :: t)) by now left. rewrite <- E in Hin.
    apply spell_plain, char_plain_spec in Hin. destruct Hin as (_ & _ & Hh & _). exact Hh. }
  destruct (N.eqb_spec c HASH); [contradiction|].
  rewrite Hp, IH by exact Hvs. reflexivity.
Qed.

Lemma dec_N_pfree p n : (forall c, 48 <= c <= 57 -> p c = false) -> pfree p (dec_N n).
Proof.
  intros H. pose proof (dec_N_digits n) as Hd. unfold pfree. eapply Forall_impl; [|exact Hd].
  intros c Hc. apply H, is_digit_range, Hc.
Qed.

Lemma dec_N_noquote n : Forall (fun c => c <> QUOTE) (dec_N n).
Proof.
  pose proof (dec_N_digits n) as Hd. eapply Forall_impl; [|exact Hd].
  intros c Hc. apply is_digit_range in Hc. unfold QUOTE. lia.
Qed.

(* one statement for both formats: separators s1 s2 s3 that the delimiter test
   pd and the token test pt both (s1, s2) resp. pt (s3) recognise *)
Lemma parse_print_generic d keep r s1 s2 s3 :
  srec_wf_P r ->
  s1 = d -> s2 = d ->
  (s3 = COMMA \/ is_ws s3 = true) -> (d = COMMA \/ is_ws d = true) ->
  (forall c, 48 <= c <= 57 -> (d =? c) = false) ->
  Forall (fun c => (d =? c) = false) (sr_phrase r) ->
  parse_line d keep (sr_phrase r ++ s1 :: dec_N (sr_freq r) ++ s2 :: join [s3] (map spell (sr_syls r)))
  = Some (zero_word_freq keep r).
Proof.
  intros W -> -> H3 Hd Hdig Hph.
  set (pt := fun c => (c =? COMMA) || is_ws c).
  assert (Hptd : pt d = true).
  { unfold pt. destruct Hd as [->|Hd]; [reflexivity | rewrite Hd; apply orb_true_r]. }
  assert (Hpt3 : pt s3 = true).
  { unfold pt. destruct H3 as [->|H3]; [reflexivity | rewrite H3; apply orb_true_r]. }
  assert (Hptdig : forall c, 48 <= c <= 57 -> pt c = false).
  { intros c Hc. unfold pt, COMMA, is_ws, in_iv.
    repeat match goal with |- context [?x =? ?y] => destruct (N.eqb_spec x y); [lia|] end.
    repeat match goal with |- context [?x <=? ?y] => destruct (N.leb_spec x y); try lia end; reflexivity. }
  assert (Hptph : pfree pt (sr_phrase r)).
  { unfold pfree. eapply Forall_impl; [|apply (sw_chars r W)]. intros c (Hc1 & _ & Hc3). unfold pt.
    rewrite Hc3. destruct (N.eqb_spec c COMMA); [contradiction | reflexivity]. }
  assert (Hspells : Forall (fun t => t <> [] /\ pfree pt t) (map spell (sr_syls r))).
  { apply Forall_forall. intros t Ht. apply in_map_iff in Ht as [v [<- Hv]].
    pose proof (sw_syls r W) as Hs. rewrite Forall_forall in Hs. destruct (Hs v Hv) as [Hne _]. split; [exact Hne|].
    apply Forall_forall. intros c Hc. apply spell_plain, char_plain_spec in Hc as (Hc1 & _ & _ & Hc4).
    unfold pt. rewrite Hc4. destruct (N.eqb_spec c COMMA); [contradiction | reflexivity]. }
  unfold parse_line.
  (* phrase and frequency fields *)
  rewrite (fields_sep (N.eqb d)); [| apply (sw_nonempty r W) | exact Hph | apply N.eqb_refl].
  rewrite (fields_sep (N.eqb d)); [| apply dec_N_nonempty | apply dec_N_pfree, Hdig | apply N.eqb_refl].
  assert (Hq : Forall (fun c => c <> QUOTE) (sr_phrase r)).
  { eapply Forall_impl; [|apply (sw_chars r W)]. intros c (_ & Hq & _). exact Hq. }
  rewrite (trim_q_id (sr_phrase r)) by exact Hq.
  rewrite (trim_q_id (dec_N (sr_freq r))) by apply dec_N_noquote.
  rewrite (parse_col_dec_N U32) by (unfold fits_nonneg, U32; cbn [fst snd]; pose proof (sw_freq r W);
                                    change (2 ^ 32) with 4294967296; assumption).
  (* syllable tokens *)
  rewrite (fields_sep pt); [| apply (sw_nonempty r W) | exact Hptph | exact Hptd].
  rewrite (fields_sep pt); [| apply dec_N_nonempty | apply dec_N_pfree, Hptdig | exact Hptd].
  rewrite (fields_join pt) by assumption.
  cbn [skipn]. rewrite parse_syl_tokens_spells by apply (sw_syls r W).
  unfold zero_word_freq. destruct ((len_N (sr_phrase r) =? 1) && negb keep); [reflexivity|].
  destruct r; reflexivity.
Qed.

Lemma dump_format_facts :
  dump_csv_sep1 = delim_csv /\ dump_csv_sep2 = delim_csv /\ dump_ssv_sep1 = delim_ssv /\ dump_ssv_sep2 = delim_ssv /\
  delim_csv = COMMA /\ is_ws delim_ssv = true /\
  (exists c, dump_csv_sylsep = [c] /\ is_ws c = true) /\ (exists c, dump_ssv_sylsep = [c] /\ is_ws c = true) /\
  (forall c, 48 <= c <= 57 -> (delim_csv =? c) = false /\ (delim_ssv =? c) = false).
Proof.
  repeat split; try reflexivity; try (eexists; split; reflexivity).
  - apply N.eqb_neq. change delim_csv with 44. lia.
  - apply N.eqb_neq. change delim_ssv with 32. lia.
Qed.

(* parse_line d (print_line d r) = Ok (zero_word_freq keep r) for every
   well-formed record and both formats *)
Theorem parse_print_line csv keep r :
  srec_wf r = true -> parse_line (delim csv) keep (print_line csv r) = Some (zero_word_freq keep r).
Proof.
  intros Hw. pose proof (srec_wf_spec r Hw) as W.
  destruct dump_format_facts as (A1 & A2 & A3 & A4 & A5 & A6 & (c1 & A7 & A8) & (c2 & A9 & A10) & A11).
  unfold print_line, delim. destruct csv.
  - rewrite A7. apply parse_print_generic; try assumption.
    + right. exact A8.
    + left. exact A5.
    + intros c Hc. apply A11, Hc.
    + eapply Forall_impl; [|apply (sw_chars r W)]. intros c (Hc & _ & _).
      rewrite A5. apply N.eqb_neq. congruence.
  - rewrite A9. apply parse_print_generic; try assumption.
    + right. exact A10.
    + right. exact A6.
    + intros c Hc. apply A11, Hc.
    + eapply Forall_impl; [|apply (sw_chars r W)]. intros c (_ & _ & Hc).
      apply N.eqb_neq. intros <-. rewrite A6 in Hc. discriminate.
Qed.

(* ------------------------------------------------------------------ *)
(* the dictionary as a map *)

Lemma skey_eqb_spec a b : skey_eqb a b = true <-> a = b.
Proof.
  unfold skey_eqb. destruct a as [s1 p1], b as [s2 p2]. cbn [fst snd].
  rewrite andb_true_iff, !list_eqb_N_spec. split.
  - intros [-> ->]. reflexivity.
  - intros E. inversion E. auto.
Qed.
Lemma skey_eqb_refl a : skey_eqb a a = true.
Proof. now apply skey_eqb_spec. Qed.
Lemma skey_eqb_neq a b : a <> b -> skey_eqb a b = false.
Proof. intros H. destruct (skey_eqb a b) eqn:E; [apply skey_eqb_spec in E; contradiction | reflexivity]. Qed.

Lemma slookup_insert_same d r : sdict_lookup (sdict_insert d r) (srec_key r) = Some (sr_freq r).
Proof.
  induction d as [|x d IH]; cbn [sdict_insert sdict_lookup].
  - now rewrite skey_eqb_refl.
  - destruct (skey_eqb (srec_key r) (srec_key x)) eqn:E; cbn [sdict_lookup]; [now rewrite skey_eqb_refl | now rewrite E].
Qed.

Lemma slookup_insert_other d r k : k <> srec_key r -> sdict_lookup (sdict_insert d r) k = sdict_lookup d k.
Proof.
  intros Hne. induction d as [|x d IH]; cbn [sdict_insert sdict_lookup].
  - now rewrite skey_eqb_neq.
  - destruct (skey_eqb (srec_key r) (srec_key x)) eqn:E; cbn [sdict_lookup].
    + apply skey_eqb_spec in E. rewrite <- E. now rewrite !(skey_eqb_neq k (srec_key r)).
    + now rewrite IH.
Qed.

Lemma find_app' {A} (f : A -> bool) l1 l2 :
  find f (l1 ++ l2) = match find f l1 with Some x => Some x | None => find f l2 end.
Proof. induction l1 as [|x l1 IH]; [reflexivity|]. cbn [app find]. destruct (f x); [reflexivity | exact IH]. Qed.

(* the compiled dictionary answers with the LAST record of each key *)
Lemma fold_insert_lookup rs : forall d k,
  sdict_lookup (fold_left sdict_insert rs d) k =
  match find (fun r => skey_eqb k (srec_key r)) (rev rs) with
  | Some r => Some (sr_freq r)
  | None => sdict_lookup d k
  end.
Proof.
  induction rs as [|r rs IH]; intros d k; [reflexivity|].
  cbn [fold_left rev]. rewrite IH, find_app'.
  destruct (find (fun r0 => skey_eqb k (srec_key r0)) (rev rs)); [reflexivity|].
  cbn [find]. destruct (skey_eqb k (srec_key r)) eqn:E.
  - apply skey_eqb_spec in E. subst k. apply slookup_insert_same.
  - apply slookup_insert_other. intros ->. now rewrite skey_eqb_refl in E.
Qed.

Lemma compile_lookup rs k :
  sdict_lookup (compile_records rs) k =
  match find (fun r => skey_eqb k (srec_key r)) (rev rs) with
  | Some r => Some (sr_freq r)
  | None => None
  end.
Proof. unfold compile_records. now rewrite fold_insert_lookup. Qed.

Lemma insert_keys d r :
  map srec_key (sdict_insert d r) =
  if existsb (skey_eqb (srec_key r)) (map srec_key d) then map srec_key d else map srec_key d ++ [srec_key r].
Proof.
  induction d as [|x d IH]; [reflexivity|]. cbn [sdict_insert map existsb].
  destruct (skey_eqb (srec_key r) (srec_key x)) eqn:E; cbn [orb map].
  - apply skey_eqb_spec in E. now rewrite E.
  - rewrite IH. destruct (existsb (skey_eqb (srec_key r)) (map srec_key d)); reflexivity.
Qed.

Lemma NoDup_snoc' {A} (l : list A) k : NoDup l -> ~ In k l -> NoDup (l ++ [k]).
Proof.
  induction l as [|x l IH]; intros H Hk; cbn [app].
  - constructor; [intros [] | constructor].
  - inversion H as [|x0 l0 Hx Hl]; subst. constructor.
    + intros Hi. apply in_app_or in Hi as [Hi|[->|[]]]; [contradiction | apply Hk; now left].
    + apply IH; [exact Hl | intros Hi; apply Hk; now right].
Qed.

Lemma insert_nodup d r : NoDup (map srec_key d) -> NoDup (map srec_key (sdict_insert d r)).
Proof.
  intros H. rewrite insert_keys.
  destruct (existsb (skey_eqb (srec_key r)) (map srec_key d)) eqn:E; [exact H|].
  apply NoDup_snoc'; [exact H|]. intros Hi.
  assert (existsb (skey_eqb (srec_key r)) (map srec_key d) = true).
  { apply existsb_exists. exists (srec_key r). split; [exact Hi | apply skey_eqb_refl]. }
  congruence.
Qed.

Lemma fold_insert_nodup rs : forall d, NoDup (map srec_key d) -> NoDup (map srec_key (fold_left sdict_insert rs d)).
Proof. induction rs as [|r rs IH]; intros d H; [exact H|]. cbn [fold_left]. apply IH, insert_nodup, H. Qed.

(* duplicate phrases in the source give one entry *)
Lemma compile_nodup rs : NoDup (map srec_key (compile_records rs)).
Proof. unfold compile_records. apply fold_insert_nodup. constructor. Qed.

Lemma insert_fresh d r : ~ In (srec_key r) (map srec_key d) -> sdict_insert d r = d ++ [r].
Proof.
  induction d as [|x d IH]; intros H; [reflexivity|]. cbn [sdict_insert].
  rewrite skey_eqb_neq by (intros E; apply H; left; now rewrite E).
  cbn [app]. f_equal. apply IH. intros Hi. apply H. now right.
Qed.

Lemma fold_insert_fresh rs : forall d,
  NoDup (map srec_key d ++ map srec_key rs) -> fold_left sdict_insert rs d = d ++ rs.
Proof.
  induction rs as [|r rs IH]; intros d H; [now rewrite app_nil_r|].
  cbn [fold_left]. rewrite insert_fresh.
  - rewrite IH; [now rewrite <- app_assoc|]. rewrite map_app. cbn [map]. now rewrite <- app_assoc.
  - cbn [map] in H. apply NoDup_remove_2 in H. intros Hi. apply H, in_or_app. now left.
Qed.

(* a source without repeated keys compiles to exactly its records *)
Lemma compile_nodup_id rs : NoDup (map srec_key rs) -> compile_records rs = rs.
Proof. intros H. unfold compile_records. now rewrite fold_insert_fresh. Qed.

Lemma insert_in d r x : In x (sdict_insert d r) -> x = r \/ In x d.
Proof.
  induction d as [|y d IH]; cbn [sdict_insert].
  - intros [<-|[]]. now left.
  - destruct (skey_eqb (srec_key r) (srec_key y)).
    + intros [<-|H]; [now left | right; now right].
    + intros [<-|H]; [right; now left|]. destruct (IH H) as [->|Hd]; [now left | right; now right].
Qed.

Lemma fold_insert_in rs : forall d x, In x (fold_left sdict_insert rs d) -> In x rs \/ In x d.
Proof.
  induction rs as [|r rs IH]; intros d x H; [now right|]. cbn [fold_left] in H.
  destruct (IH _ _ H) as [Hr|Hd]; [left; now right|].
  destruct (insert_in _ _ _ Hd) as [->|Hd']; [left; now left | now right].
Qed.

(* nothing is invented: every entry of the compiled dictionary is a record of the source *)
Lemma compile_in rs x : In x (compile_records rs) -> In x rs.
Proof. intros H. destruct (fold_insert_in rs [] x H) as [H'|[]]. exact H'. Qed.

(* with pairwise distinct keys lookups do not depend on the order of the records *)
Lemma lookup_nodup_in d : NoDup (map srec_key d) -> forall k f,
  sdict_lookup d k = Some f <-> exists x, In x d /\ srec_key x = k /\ sr_freq x = f.
Proof.
  induction d as [|y d IH]; intros ND k f; cbn [sdict_lookup].
  - split; [discriminate | intros (x & [] & _)].
  - cbn [map] in ND. inversion ND as [|k0 l0 Hy Hd]; subst.
    destruct (skey_eqb k (srec_key y)) eqn:E.
    + apply skey_eqb_spec in E. subst k. split.
      * intros H. inversion H; subst. exists y. repeat split. now left.
      * intros (x & [<-|Hx] & Hk & Hf); [now subst|].
        exfalso. apply Hy. rewrite <- Hk. now apply in_map.
    + rewrite (IH Hd). split.
      * intros (x & Hx & Hk & Hf). exists x. repeat split; try assumption. now right.
      * intros (x & [<-|Hx] & Hk & Hf).
        -- subst k. now rewrite skey_eqb_refl in E.
        -- exists x. repeat split; assumption.
Qed.

Lemma compile_perm_lookup d d' :
  NoDup (map srec_key d) -> Permutation d d' ->
  forall k, sdict_lookup (compile_records d') k = sdict_lookup d k.
Proof.
  intros ND P k.
  assert (ND' : NoDup (map srec_key d')).
  { eapply Permutation_NoDup; [|exact ND]. now apply Permutation_map. }
  rewrite (compile_nodup_id d' ND').
  destruct (sdict_lookup d k) as [f|] eqn:E.
  - apply (lookup_nodup_in d ND) in E as (x & Hx & Hk & Hf).
    apply (lookup_nodup_in d' ND'). exists x. repeat split; try assumption. eapply Permutation_in; eassumption.
  - destruct (sdict_lookup d' k) as [f|] eqn:E'; [|reflexivity].
    apply (lookup_nodup_in d' ND') in E' as (x & Hx & Hk & Hf).
    assert (Some f = None); [|discriminate]. rewrite <- E. symmetry.
    apply (lookup_nodup_in d ND). exists x. repeat split; try assumption.
    eapply Permutation_in; [apply Permutation_sym; exact P | exact Hx].
Qed.

(* ------------------------------------------------------------------ *)
(* run: error collection, exit status, --skip-invalid *)

Definition is_header (fl : cli_flags) (num : N) : bool := fl_csv fl && (num =? 0).

(* the faithful notion of "malformed line" (DESIGN appendix D) *)
Definition line_rejected (fl : cli_flags) (num : N) (l : list N) : bool :=
  negb (is_header fl num) &&
  match parse_line (delim (fl_csv fl)) (fl_keep fl) l with Some _ => false | None => true end.

Fixpoint err_lines (fl : cli_flags) (lines : list (list N)) (num : N) : list N :=
  match lines with
  | [] => []
  | l :: ls => (if line_rejected fl num l then [num + 1] else []) ++ err_lines fl ls (num + 1)
  end.

Fixpoint ok_recs (fl : cli_flags) (lines : list (list N)) (num : N) : list srec :=
  match lines with
  | [] => []
  | l :: ls =>
      (if is_header fl num then []
       else match parse_line (delim (fl_csv fl)) (fl_keep fl) l with Some r => [r] | None => [] end)
      ++ ok_recs fl ls (num + 1)
  end.

Lemma run_lines_spec fl lines : forall num errs recs,
  run_lines fl lines num errs recs = (rev errs ++ err_lines fl lines num, rev recs ++ ok_recs fl lines num).
Proof.
  induction lines as [|l ls IH]; intros num errs recs; cbn [run_lines err_lines ok_recs].
  - now rewrite !app_nil_r.
  - unfold line_rejected, is_header.
    destruct (fl_csv fl && (num =? 0)) eqn:H; cbn [negb andb].
    + rewrite IH. reflexivity.
    + destruct (parse_line (delim (fl_csv fl)) (fl_keep fl) l) as [r|]; rewrite IH; cbn [rev];
        rewrite <- ?app_assoc; reflexivity.
Qed.

Lemma run_spec fl lines :
  run fl lines =
  let errs := err_lines fl lines 0 in
  if negb (is_nil errs) && negb (fl_skip fl)
  then {| cr_errors := errs; cr_exit := 1; cr_output := None |}
  else {| cr_errors := errs; cr_exit := 0; cr_output := Some (compile_records (ok_recs fl lines 0)) |}.
Proof. unfold run. rewrite run_lines_spec. reflexivity. Qed.

Lemma err_lines_in fl lines : forall num n,
  In n (err_lines fl lines num) <->
  exists i l, nth_error lines i = Some l /\ n = num + N.of_nat i + 1 /\ line_rejected fl (num + N.of_nat i) l = true.
Proof.
  induction lines as [|l ls IH]; intros num n; cbn [err_lines].
  - split; [intros [] | intros (i & l & H & _); destruct i; discriminate H].
  - rewrite in_app_iff, IH. split.
    + intros [H|(i & l' & Hn & -> & Hr)].
      * destruct (line_rejected fl num l) eqn:R; [|destruct H].
        destruct H as [<-|[]]. exists 0%nat, l. cbn [nth_error]. rewrite N.add_0_r. auto.
      * exists (S i), l'. cbn [nth_error]. rewrite Nat2N.inj_succ.
        replace (num + N.succ (N.of_nat i)) with (num + 1 + N.of_nat i) by lia. auto.
    + intros (i & l' & Hn & -> & Hr). destruct i as [|i].
      * cbn [nth_error] in Hn. inversion Hn; subst. left. cbn [N.of_nat] in *. rewrite N.add_0_r in *.
        rewrite Hr. now left.
      * right. exists i, l'. cbn [nth_error] in Hn. rewrite Nat2N.inj_succ in *.
        replace (num + N.succ (N.of_nat i)) with (num + 1 + N.of_nat i) in * by lia. auto.
Qed.

(* every line the parser rejects is reported with line_num + 1 - and nothing else is *)
Theorem run_reports fl lines n :
  In n (cr_errors (run fl lines)) <->
  exists i l, nth_error lines i = Some l /\ n = N.of_nat i + 1 /\ line_rejected fl (N.of_nat i) l = true.
Proof.
  rewrite run_spec. cbv zeta.
  assert (E : forall x, cr_errors (if negb (is_nil (err_lines fl lines 0)) && negb (fl_skip fl)
               then {| cr_errors := err_lines fl lines 0; cr_exit := 1; cr_output := None |}
               else {| cr_errors := err_lines fl lines 0; cr_exit := 0; cr_output := x |}) = err_lines fl lines 0).
  { intros x. destruct (_ && _); reflexivity. }
  rewrite E, err_lines_in. split; intros (i & l & H1 & H2 & H3); exists i, l; rewrite ?N.add_0_l in *; auto.
Qed.

(* a rejected line without --skip-invalid: exit status 1, no output *)
Theorem run_rejects fl lines i l :
  nth_error lines i = Some l -> line_rejected fl (N.of_nat i) l = true -> fl_skip fl = false ->
  cr_exit (run fl lines) = 1 /\ cr_output (run fl lines) = None.
Proof.
  intros Hn Hr Hs.
  assert (Hin : In (N.of_nat i + 1) (err_lines fl lines 0)).
  { apply err_lines_in. exists i, l. rewrite N.add_0_l. auto. }
  rewrite run_spec. cbv zeta. rewrite Hs.
  destruct (err_lines fl lines 0); [destruct Hin|]. split; reflexivity.
Qed.

(* with --skip-invalid (or no rejected line) the accepted records are compiled *)
Theorem run_skips fl lines :
  fl_skip fl = true \/ err_lines fl lines 0 = [] ->
  cr_exit (run fl lines) = 0 /\ cr_output (run fl lines) = Some (compile_records (ok_recs fl lines 0)).
Proof.
  intros H. rewrite run_spec. cbv zeta.
  destruct H as [H|H]; [rewrite H, andb_false_r | rewrite H]; split; reflexivity.
Qed.

(* ------------------------------------------------------------------ *)
(* whole files of well-formed records *)

Definition header_lines (csv : bool) : list (list N) := if csv then [dump_csv_header] else [].

Lemma err_ok_printed fl rs : forall num,
  (fl_csv fl = true -> 0 < num) ->
  forallb srec_wf rs = true ->
  err_lines fl (map (print_line (fl_csv fl)) rs) num = [] /\
  ok_recs fl (map (print_line (fl_csv fl)) rs) num = map (zero_word_freq (fl_keep fl)) rs.
Proof.
  induction rs as [|r rs IH]; intros num Hnum W; [split; reflexivity|].
  cbn [forallb] in W. apply andb_true_iff in W as [Wr Wrs].
  cbn [map err_lines ok_recs]. unfold line_rejected, is_header.
  assert (Hh : fl_csv fl && (num =? 0) = false).
  { destruct (fl_csv fl); [|reflexivity]. cbn [andb]. apply N.eqb_neq. specialize (Hnum eq_refl). lia. }
  rewrite Hh, (parse_print_line _ _ _ Wr). cbn [negb andb app].
  destruct (IH (num + 1)) as [E1 E2]; [intros _; lia | exact Wrs |].
  rewrite E1, E2. split; reflexivity.
Qed.

(* compile o print: a source made of printed well-formed records (after the CSV
   header) is accepted without errors and compiles to the map of its records,
   single-character frequencies zeroed unless --keep-word-freq *)
Theorem run_printed fl rs :
  forallb srec_wf rs = true ->
  run fl (header_lines (fl_csv fl) ++ map (print_line (fl_csv fl)) rs) =
  {| cr_errors := []; cr_exit := 0; cr_output := Some (compile_records (map (zero_word_freq (fl_keep fl)) rs)) |}.
Proof.
  intros W. rewrite run_spec. cbv zeta. unfold header_lines.
  destruct (fl_csv fl) eqn:C.
  - cbn [app err_lines ok_recs]. unfold line_rejected, is_header. rewrite C. cbn [andb negb N.eqb app].
    change (0 =? 0) with true. cbn [negb andb app].
    destruct (err_ok_printed fl rs (0 + 1)) as [E1 E2]; [intros _; lia | exact W |].
    rewrite C in E1, E2. rewrite E1, E2. reflexivity.
  - cbn [app]. destruct (err_ok_printed fl rs 0) as [E1 E2]; [rewrite C; discriminate | exact W |].
    rewrite C in E1, E2. rewrite E1, E2. reflexivity.
Qed.

Lemma zero_word_freq_idem keep r : zero_word_freq keep (zero_word_freq keep r) = zero_word_freq keep r.
Proof.
  unfold zero_word_freq. destruct ((len_N (sr_phrase r) =? 1) && negb keep) eqn:E; cbn [sr_phrase]; now rewrite E.
Qed.

Lemma zero_word_freq_wf keep r : srec_wf r = true -> srec_wf (zero_word_freq keep r) = true.
Proof.
  unfold zero_word_freq. destruct (_ && _); [|auto]. unfold srec_wf. cbn [sr_phrase sr_syls sr_freq].
  intros H. repeat (apply andb_true_iff in H as [H ?]).
  repeat (apply andb_true_iff; split); try assumption. reflexivity.
Qed.

(* dump o compile o dump o compile: compiling the dump again yields the same dictionary *)
Theorem recompile_dump fl rs :
  forallb srec_wf rs = true ->
  let d := compile_records (map (zero_word_freq (fl_keep fl)) rs) in
  run fl (dump_lines (fl_csv fl) d) = {| cr_errors := []; cr_exit := 0; cr_output := Some d |}.
Proof.
  intros W d.
  assert (Hin : forall x, In x d -> exists r, In r rs /\ x = zero_word_freq (fl_keep fl) r).
  { intros x Hx. apply compile_in, in_map_iff in Hx as [r [<- Hr]]. exists r. auto. }
  assert (Wd : forallb srec_wf d = true).
  { apply forallb_forall. intros x Hx. destruct (Hin x Hx) as [r [Hr ->]].
    apply zero_word_freq_wf. rewrite forallb_forall in W. now apply W. }
  assert (Zd : map (zero_word_freq (fl_keep fl)) d = d).
  { rewrite <- (map_id d) at 2. apply map_ext_in. intros x Hx. destruct (Hin x Hx) as [r [_ ->]].
    apply zero_word_freq_idem. }
  unfold dump_lines. fold (header_lines (fl_csv fl)).
  rewrite (run_printed fl d Wd), Zd, (compile_nodup_id d (compile_nodup _)). reflexivity.
Qed.

(* ... whatever order the back end enumerates the entries in *)
Theorem recompile_dump_any_order fl rs d' :
  forallb srec_wf rs = true ->
  let d := compile_records (map (zero_word_freq (fl_keep fl)) rs) in
  Permutation d d' ->
  exists d2, run fl (header_lines (fl_csv fl) ++ map (print_line (fl_csv fl)) d') =
               {| cr_errors := []; cr_exit := 0; cr_output := Some d2 |} /\
             forall k, sdict_lookup d2 k = sdict_lookup d k.
Proof.
  intros W d P.
  assert (Hin : forall x, In x d' -> exists r, In r rs /\ x = zero_word_freq (fl_keep fl) r).
  { intros x Hx. apply (Permutation_in _ (Permutation_sym P)) in Hx.
    apply compile_in, in_map_iff in Hx as [r [<- Hr]]. exists r. auto. }
  assert (Wd : forallb srec_wf d' = true).
  { apply forallb_forall. intros x Hx. destruct (Hin x Hx) as [r [Hr ->]].
    apply zero_word_freq_wf. rewrite forallb_forall in W. now apply W. }
  assert (Zd : map (zero_word_freq (fl_keep fl)) d' = d').
  { rewrite <- (map_id d') at 2. apply map_ext_in. intros x Hx. destruct (Hin x Hx) as [r [_ ->]].
    apply zero_word_freq_idem. }
  eexists. split; [rewrite (run_printed fl d' Wd), Zd; reflexivity|].
  apply compile_perm_lookup; [apply compile_nodup | exact P].
Qed.

(* ------------------------------------------------------------------ *)
(* every syllable composed of an optional initial, medial, rime and tone - except
   the empty one - is printed so that the compiler reads it back (complete sweep
   of the component tuples over the regenerated tables) *)
From LC Require Import Model.SyllableSearch Proofs.SyllableProofs.

Definition chk_syl_ok (ci cm cr ct : N) : bool := all_zero ci cm cr ct || syl_ok (pack ci cm cr ct).
Lemma chk_syl_ok_all : forall_comps chk_syl_ok = true.
Proof. vm_cast_no_check (eq_refl true). Qed.

Lemma syl_ok_pack ci cm cr ct :
  in_range ci cm cr ct -> all_zero ci cm cr ct = false -> syl_ok (pack ci cm cr ct) = true.
Proof.
  intros Hr Hz. pose proof (forall_comps_spec _ chk_syl_ok_all ci cm cr ct Hr) as H.
  unfold chk_syl_ok in H. now rewrite Hz in H.
Qed.

(* ------------------------------------------------------------------ *)
(* Source lines in any style (quoted fields, runs of delimiters, trailing
   comments): parse_line depends on the line only through three token views -
   the first two non-empty delimiter fields and the comma/white-space tokens
   after the first two, all with quotes trimmed. *)

Fixpoint parse_syl_trimmed (ts : list (list N)) : option (list N) :=
  match ts with
  | [] => Some []
  | t :: rest =>
      match t with
      | [] => parse_syl_trimmed rest
      | c :: _ =>
          if c =? HASH then Some []
          else match parse_chars t with
               | inr _ => None
               | inl v => match parse_syl_trimmed rest with Some vs => Some (v :: vs) | None => None end
               end
      end
  end.

Lemma parse_syl_tokens_trimmed toks : parse_syl_tokens toks = parse_syl_trimmed (map trim_q toks).
Proof.
  induction toks as [|t ts IH]; [reflexivity|]. cbn [map parse_syl_tokens parse_syl_trimmed].
  destruct (trim_q t) as [|c t']; [exact IH|].
  destruct (c =? HASH); [reflexivity|]. destruct (parse_chars (c :: t')); [|reflexivity]. now rewrite IH.
Qed.

(* the syllable tokens, then nothing or a token that starts a comment (whatever follows it) *)
Definition comment_tail (tail : list (list N)) : Prop :=
  tail = [] \/ exists t rest, tail = (HASH :: t) :: rest.

Lemma parse_syl_trimmed_spells vs tail :
  Forall (fun v => spell v <> [] /\ parse_chars (spell v) = inl v) vs -> comment_tail tail ->
  parse_syl_trimmed (map spell vs ++ tail) = Some vs.
Proof.
  intros H T. induction vs as [|v vs IH].
  - cbn [map app]. destruct T as [->|(t & rest & ->)]; [reflexivity|].
    cbn [parse_syl_trimmed]. now rewrite N.eqb_refl.
  - inversion H as [|v0 l0 [Hne Hp] Hvs]; subst. cbn [map app parse_syl_trimmed].
    destruct (spell v) as [|c t] eqn:E; [contradiction|].
    assert (Hc : c <> HASH).
    { assert (Hin : In c (c :: t)) by now left. rewrite <- E in Hin.
      apply spell_plain, char_plain_spec in Hin. destruct Hin as (_ & _ & Hh & _). exact Hh. }
    destruct (N.eqb_spec c HASH); [contradiction|]. rewrite Hp, (IH Hvs). reflexivity.
Qed.

Theorem parse_line_by_tokens d keep line r f0 f1 more tail :
  srec_wf r = true ->
  fields (N.eqb d) line = f0 :: f1 :: more ->
  trim_q f0 = sr_phrase r -> trim_q f1 = dec_N (sr_freq r) ->
  map trim_q (skipn 2 (fields (fun c => (c =? COMMA) || is_ws c) line)) = map spell (sr_syls r) ++ tail ->
  comment_tail tail ->
  parse_line d keep line = Some (zero_word_freq keep r).
Proof.
  intros Hw F T0 T1 TS CT. pose proof (srec_wf_spec r Hw) as W.
  unfold parse_line. rewrite F, T0, T1.
  rewrite (parse_col_dec_N U32) by (unfold fits_nonneg, U32; cbn [fst snd]; pose proof (sw_freq r W);
                                    change (2 ^ 32) with 4294967296; assumption).
  rewrite parse_syl_tokens_trimmed, TS, (parse_syl_trimmed_spells _ _ (sw_syls r W) CT).
  unfold zero_word_freq. destruct ((len_N (sr_phrase r) =? 1) && negb keep); [reflexivity|].
  destruct r; reflexivity.
Qed.
