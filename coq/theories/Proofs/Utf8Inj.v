(* char::encode_utf8 is a prefix-free, injective code on the code points below 0x110000: two strings with the same
   encoding are the same string.  (What lets a dictionary keyed by UTF-8 bytes stand for one keyed by characters:
   the bridge between the CLI model of C20 and the trie builder of C11.)  Stdlib only. *)
From Coq Require Import NArith List Bool Lia ZArith.
From LC Require Import Base.Lib Model.Utf8.
Import ListNotations.
Open Scope N_scope.

Ltac Zify.zify_post_hook ::= Z.div_mod_to_equations.

Definition cp_ok (c : N) : Prop := c < 1114112.

Lemma encode_char_cases c : cp_ok c ->
  (c < 128 /\ encode_char c = [c]) \/
  (128 <= c < 2048 /\ encode_char c = [192 + c / 64; 128 + c mod 64]) \/
  (2048 <= c < 65536 /\ encode_char c = [224 + c / 64 / 64; 128 + (c / 64) mod 64; 128 + c mod 64]) \/
  (65536 <= c < 1114112 /\ encode_char c = [240 + c / 64 / 64 / 64; 128 + (c / 64 / 64) mod 64; 128 + (c / 64) mod 64; 128 + c mod 64]).
Proof.
  intros Hc. unfold cp_ok in Hc. unfold encode_char.
  destruct (c <? 128) eqn:E1; [apply N.ltb_lt in E1; left; split; [exact E1 | reflexivity]|]. apply N.ltb_ge in E1.
  destruct (c <? 2048) eqn:E2; [apply N.ltb_lt in E2; right; left; split; [lia | reflexivity]|]. apply N.ltb_ge in E2.
  assert (D2 : c / 4096 = c / 64 / 64) by (rewrite N.div_div by lia; reflexivity).
  assert (D3 : c / 262144 = c / 64 / 64 / 64) by (rewrite !N.div_div by lia; reflexivity).
  destruct (c <? 65536) eqn:E3; [apply N.ltb_lt in E3; right; right; left; split; [lia | now rewrite D2]|]. apply N.ltb_ge in E3.
  right. right. right. split; [lia | now rewrite D2, D3].
Qed.

(* prefix-free and injective *)
Lemma encode_char_inj c1 c2 r1 r2 : cp_ok c1 -> cp_ok c2 ->
  encode_char c1 ++ r1 = encode_char c2 ++ r2 -> c1 = c2 /\ r1 = r2.
Proof.
  intros H1 H2 H.
  destruct (encode_char_cases c1 H1) as [(B1 & E1)|[(B1 & E1)|[(B1 & E1)|(B1 & E1)]]];
  destruct (encode_char_cases c2 H2) as [(B2 & E2)|[(B2 & E2)|[(B2 & E2)|(B2 & E2)]]];
  rewrite E1, E2 in H; cbn [app] in H;
  repeat match type of H with _ :: _ = _ :: _ => let X := fresh "X" in injection H as X H end;
  pose proof (N.div_mod' c1 64); pose proof (N.div_mod' c2 64);
  pose proof (N.div_mod' (c1 / 64) 64); pose proof (N.div_mod' (c2 / 64) 64);
  pose proof (N.div_mod' (c1 / 64 / 64) 64); pose proof (N.div_mod' (c2 / 64 / 64) 64);
  pose proof (N.mod_lt c1 64 ltac:(lia)); pose proof (N.mod_lt c2 64 ltac:(lia));
  pose proof (N.mod_lt (c1 / 64) 64 ltac:(lia)); pose proof (N.mod_lt (c2 / 64) 64 ltac:(lia));
  pose proof (N.mod_lt (c1 / 64 / 64) 64 ltac:(lia)); pose proof (N.mod_lt (c2 / 64 / 64) 64 ltac:(lia));
  first [ split; [lia | assumption] | exfalso; lia ].
Qed.

Theorem encode_utf8_inj : forall s1 s2, Forall cp_ok s1 -> Forall cp_ok s2 -> encode_utf8 s1 = encode_utf8 s2 -> s1 = s2.
Proof.
  unfold encode_utf8. induction s1 as [|c1 s1 IH]; intros s2 H1 H2 H.
  - destruct s2 as [|c2 s2]; [reflexivity|]. exfalso. cbn [flat_map] in H. inversion H2 as [|? ? Hc2 _]; subst.
    destruct (encode_char_cases c2 Hc2) as [(_ & E)|[(_ & E)|[(_ & E)|(_ & E)]]]; rewrite E in H; discriminate.
  - destruct s2 as [|c2 s2].
    + exfalso. cbn [flat_map] in H. inversion H1 as [|? ? Hc1 _]; subst.
      destruct (encode_char_cases c1 Hc1) as [(_ & E)|[(_ & E)|[(_ & E)|(_ & E)]]]; rewrite E in H; discriminate.
    + cbn [flat_map] in H. inversion H1 as [|? ? Hc1 Hs1]; subst. inversion H2 as [|? ? Hc2 Hs2]; subst.
      destruct (encode_char_inj c1 c2 _ _ Hc1 Hc2 H) as [-> Hr]. f_equal. now apply IH.
Qed.
