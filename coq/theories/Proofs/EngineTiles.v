(* The modelled conversion engines answer with a tiling of the buffer (the hypothesis `conv_tiles` of the
   every-history theorems) - for the in-memory dictionary (m_conv) and for the one whose system layer is a trie
   file (mf_conv); the fresh C context satisfies the context invariant.  Used by the C-level theorems of C01,
   C05 and C07. *)
From Coq Require Import NArith ZArith List Bool Arith Lia Permutation.
From LC Require Import Base.Lib Gen.Keyboard_gen Gen.Editor_gen Model.Syllable Model.Composition Model.Conversion Model.Editor Model.EditorRun
     Model.EdInst Proofs.CompositionProofs Proofs.EdInstProofs Proofs.EditorInv Proofs.NoPanic Model.Engine Proofs.EngineProofs
     Proofs.SimpleEngineProofs Model.CapiKeys Model.CapiConfig Model.CapiRun Proofs.CapiKeysProofs.
Import ListNotations.
Open Scope nat_scope.

Lemma engine_alt_tiles : forall sortu lookup spell c n,
  (forall l, Permutation (sortu l) l) -> lookup [] = [] -> wf_comp c -> clen c <= 4000 ->
  contiguous 0 (clen c) (engine_alt sortu spell lookup c n) = true.
Proof.
  intros sortu lookup spell c n Hp Hn Wc Hl. unfold engine_alt, chewing_convert.
  destruct (chewing_convert_spec lookup Hn spell c Wc sortu Hp Hl) as (alts & b & -> & Hne & Hall). cbn [bind fst].
  apply Hall. apply nth_In. apply Nat.mod_upper_bound. destruct alts; [contradiction | discriminate].
Qed.

Lemma sort_by_len_permutes : forall l, Permutation (sort_by_len l) l.
Proof.
  assert (Hi : forall p l, Permutation (insert_by_len p l) (p :: l)).
  { intros p. induction l as [|x l IH]; cbn [insert_by_len]; [reflexivity|].
    destruct (Nat.leb (length p) (length x)); [reflexivity|]. rewrite IH. apply perm_swap. }
  induction l as [|x l IH]; cbn; [reflexivity|]. now rewrite Hi, IH.
Qed.

Lemma m_conv_tiles : forall d k c n, md_fine d -> wf_comp c -> contiguous 0 (clen c) (m_conv d k c n) = true.
Proof.
  intros d k c n Hd Wc. unfold m_conv.
  assert (Hs : contiguous 0 (clen c) (simple_convert (m_lookup1 d) spell c) = true) by (now apply simple_convert_contiguous).
  assert (He : forall f, clen c <= 4000 ->
               contiguous 0 (clen c) (engine_alt sort_by_len spell (fun syms => md_lookup d f (syl_prefix syms)) c n) = true).
  { intros f Hl. apply engine_alt_tiles; [apply sort_by_len_permutes | | exact Wc | exact Hl].
    cbn [syl_prefix]. apply md_ok_lookup. now apply md_fine_ok. }
  destruct k; [exact Hs | |]; (destruct (Nat.leb (clen c) 4000) eqn:E; [apply He; now apply Nat.leb_le | exact Hs]).
Qed.

Lemma mf_conv_tiles : forall d k c n, md_fine d -> wf_comp c -> contiguous 0 (clen c) (mf_conv d k c n) = true.
Proof.
  intros d k c n Hd Wc. unfold mf_conv.
  assert (Hs : contiguous 0 (clen c) (simple_convert (m_lookup1 d) spell c) = true) by (now apply simple_convert_contiguous).
  assert (He : forall f, clen c <= 4000 ->
               contiguous 0 (clen c) (engine_alt sort_by_len spell (fun syms => mdf_lookup d f (syl_prefix syms)) c n) = true).
  { intros f Hl. apply engine_alt_tiles; [apply sort_by_len_permutes | | exact Wc | exact Hl].
    cbn [syl_prefix]. apply (mdf_ok_lookup d f). now apply md_fine_ok. }
  destruct k; [exact Hs | |]; (destruct (Nat.leb (clen c) 4000) eqn:E; [apply He; now apply Nat.leb_le | exact Hs]).
Qed.

(* the context chewing_new2 returns (default keyboard, default selection keys, a fresh editor over a well-formed
   dictionary) satisfies the context invariant *)
Lemma cx_init_inv : forall ss d ab t0, ss_good ss -> ss_cursor ss = None -> md_fine d -> CInv ss (cx_init d ab ss t0).
Proof.
  intros ss d ab t0 Hg Hf Hd. constructor; [|vm_compute; reflexivity].
  unfold cx_init, ml_init. cbn [cx_ed].
  eapply (init_inv mdf_ops lay_ops); try eassumption.
Qed.
