(* C16 for the conversion engine, through the C calls: after EVERY sequence of C calls (Model/CapiRun.v) with any
   arguments - accepted and rejected values of every option included - the engine chewing_config_get_int reports
   (EditorOptions::conversion_engine) is the engine installed in the editor, and the lookup strategy option is the
   one that belongs to it.  The value table of chewing.conversion_engine is regenerated from capi/src/io.rs:
   (value -> kind stored, engine installed, strategy stored); the theorem needs each row to install the kind it
   stores (a finite check on the regenerated table).  Stdlib only. *)
From Coq Require Import NArith ZArith List Bool String Lia.
From LC Require Model.Keyboard Model.Config.
From LC Require Import Base.Lib Gen.Keyboard_gen Gen.Capi_gen Gen.Editor_gen Model.Composition Model.Conversion Model.Editor
     Model.EditorRun Model.EdInst Model.CapiKeys Model.CapiConfig Model.CapiRun
     Proofs.EditorInv Proofs.EngineFrame.
Import ListNotations.

Section CapiEngine.
Variable conv : conv_fn memdict.

(* reported engine = installed engine; reported lookup strategy = the installed engine's *)
Definition EI (c : cctx) : Prop :=
  let s := sh (cx_ed c) in engine s = o_engine (opts s) /\ o_fuzzy (opts s) = engine_fuzzy (engine s).

Lemma EI_of_ek (e e' : medl) kb kc sel kb' kc' sel' :
  ek (sh e') = ek (sh e) -> EI (mkCctx e kb kc sel) -> EI (mkCctx e' kb' kc' sel').
Proof. unfold EI, ek. cbn [cx_ed]. intros H [H1 H2]. inversion H as [[Ha Hb Hc]]. rewrite Ha, Hb, Hc. split; assumption. Qed.

Lemma EI_step c o e' : ~ writes_engine o -> step mdf_ops lay_ops conv (cx_ed c) o = Ok e' -> EI c -> EI (with_ed c e').
Proof.
  intros Hw H Hi. destruct c as [e kb kc sel]. unfold with_ed. cbn [cx_ed cx_kb cx_kbcompat cx_sel] in *.
  eapply EI_of_ek; [|exact Hi]. eapply step_ek; eassumption.
Qed.

Lemma press_EI c ev c' : press conv c ev = Ok c' -> EI c -> EI c'.
Proof.
  unfold press, ml_key. destruct ev as [ev| | |]; try discriminate.
  destruct (process_keyevent mdf_ops lay_ops conv (cx_ed c) (of_key_event ev)) as [[e b]| | |] eqn:E; try discriminate.
  intros H Hi. inversion H; subst c'. cbn [fst].
  apply (EI_step c (OpKey (of_key_event ev)) e); [intros [] | | exact Hi]. cbn [step]. unfold fst_ok. now rewrite E.
Qed.

(* ---- the regenerated engine table: every value installs the engine kind it stores, and stores the fuzzy lookup
   strategy exactly for the fuzzy engine ---- *)
Definition engine_row_ok (row : Z * (N * (N * N))) : bool :=
  let '(_, (kind, (inst, strat))) := row in
  N.eqb kind inst &&
  Bool.eqb (N.eqb strat LookupStrategy_FuzzyPartialPrefix) (engine_fuzzy (engine_of_N kind)).

Lemma engine_table_ok : forallb engine_row_ok set_int_engine = true.
Proof. vm_compute. reflexivity. Qed.

Lemma assocZ_in {A} v (l : list (Z * A)) x : Config.assocZ v l = Some x -> In (v, x) l.
Proof.
  induction l as [|[k y] l IH]; cbn [Config.assocZ]; [discriminate|].
  destruct (Z.eqb v k) eqn:E; [apply Z.eqb_eq in E; subst k; intros H; inversion H; now left | intros H; right; now apply IH].
Qed.

Lemma engine_roundtrip k : engine_of_N (engine_to_N k) = k.
Proof. destruct k; vm_compute; reflexivity. Qed.

(* the options and the engine a successful chewing_config_set_int installs agree with each other, provided they did before *)
Lemma apply_iopt_engine o v op eng op' eng' :
  Config.apply_iopt o v op eng = Some (op', eng') ->
  engine_of_N eng = engine_of_N (Config.conversion_engine op) ->
  N.eqb (Config.lookup_strategy op) LookupStrategy_FuzzyPartialPrefix = engine_fuzzy (engine_of_N eng) ->
  engine_of_N eng' = engine_of_N (Config.conversion_engine op') /\
  N.eqb (Config.lookup_strategy op') LookupStrategy_FuzzyPartialPrefix = engine_fuzzy (engine_of_N eng').
Proof.
  intros H H1 H2.
  destruct o; cbn [Config.apply_iopt] in H;
    try (match type of H with
         | match ?x with _ => _ end = _ => destruct x as [y|]; [|discriminate]; inversion H; subst; cbn; split; assumption
         end).
  - (* candidates_per_page *)
    destruct (set_int_reject_candidates_per_page v); [discriminate|]. inversion H; subst. cbn. split; assumption.
  - (* auto_commit_threshold *)
    destruct (set_int_reject_auto_commit_threshold v); [discriminate|]. inversion H; subst. cbn. split; assumption.
  - (* conversion_engine: the regenerated table *)
    destruct (Config.assocZ v set_int_engine) as [[kind [inst strat]]|] eqn:Ea; [|discriminate]. inversion H; subst. cbn.
    apply assocZ_in in Ea. pose proof engine_table_ok as T. rewrite forallb_forall in T. specialize (T _ Ea).
    cbn [engine_row_ok] in T. apply andb_true_iff in T as [T1 T2]. apply N.eqb_eq in T1. subst eng'.
    apply Bool.eqb_prop in T2. split; [reflexivity | exact T2].
Qed.

Lemma config_set_int_EI c name v c' rc : config_set_int_c c name v = Ok (c', rc) -> EI c -> EI c'.
Proof.
  unfold config_set_int_c. intros H Hi.
  destruct (set_int_global_reject v); [inversion H; subst; exact Hi|].
  destruct (Config.parse_iopt name) as [o|]; [|inversion H; subst; exact Hi].
  destruct (Config.apply_iopt o v (of_ed_options (opts (sh (cx_ed c)))) (engine_to_N (engine (sh (cx_ed c))))) as [[op' eng']|] eqn:Ea;
    [|inversion H; subst; exact Hi].
  destruct Hi as [H1 H2].
  destruct (apply_iopt_engine _ _ _ _ _ _ Ea) as [K1 K2].
  { cbn [of_ed_options Config.conversion_engine]. now rewrite !engine_roundtrip. }
  { cbn [of_ed_options Config.lookup_strategy]. rewrite engine_roundtrip, <- H2. destruct (o_fuzzy (opts (sh (cx_ed c)))); vm_compute; reflexivity. }
  unfold ml_set_options, ml_set_engine, ed_set_options_c in H.
  destruct (clamp_page mdf_ops lay_ops (ed_set_options lay_ops (ed_set_engine (cx_ed c) (engine_of_N eng')) (to_ed_options op'))) as [e2| | |] eqn:Ec;
    try discriminate.
  inversion H; subst c' rc. unfold EI. cbn [cx_ed with_ed].
  rewrite (clamp_page_sh mdf_ops lay_ops _ _ Ec). unfold ed_set_options, ed_set_engine. cbn [sh opts engine set_opts set_engine].
  match goal with |- context[if ?b then _ else _] => destruct b end; cbn [engine opts set_syl set_opts set_engine o_engine o_fuzzy to_ed_options];
    (split; [exact K1 | exact K2]).
Qed.

(* the C calls proper (a raw editor operation CEditor is not one of them) *)
Definition c_call (o : cop) : Prop := match o with CEditor _ => False | _ => True end.

Theorem cstep_EI c o c' : c_call o -> cstep conv c o = Ok c' -> EI c -> EI c'.
Proof.
  intros Hc H Hi. destruct o as [code mods|k|k|k|n|ks|i| | |w| | | | |name v|ph bo|ph bo|o]; cbn [cstep c_call] in *; try contradiction.
  - eapply press_EI; eassumption.
  - eapply press_EI; eassumption.
  - unfold handle_ctrlnum, drop_rc in H. destruct ((48 <=? u8_of k)%N && (u8_of k <=? 57)%N).
    + unfold handle_code in H.
      destruct (press conv c (Keyboard.map_keycode (cx_kb c) (if (u8_of k =? 48)%N then kcN0 else (u8_of k - 48)%N) MOD_CTRL)) as [c1| | |] eqn:E;
        try discriminate. inversion H; subst c'. eapply press_EI; eassumption.
    + inversion H; subst; exact Hi.
  - eapply press_EI; eassumption.
  - (* set_KBType *)
    unfold set_kbtype, drop_rc in H.
    destruct (if ((0 <=? n)%Z && (n <=? 255)%Z)%bool then assoc (Z.to_N n) kb_table_by_number else None) as [r|];
      cbv beta iota zeta in H;
      match type of H with context[ml_set_layout mdf_ops (cx_ed c) ?L] => destruct (ml_set_layout mdf_ops (cx_ed c) L) as [e1| | |] eqn:E end;
      try discriminate; inversion H; subst c';
      (destruct c as [e kb kc sel]; cbn [cx_ed cx_sel fst] in *; eapply EI_of_ek; [|exact Hi];
       eapply (step_ek mdf_ops lay_ops conv e (OpLayout _) e1); [intros [] | exact E]).
  - unfold set_selkey in H. inversion H; subst c'. destruct (Nat.eqb _ 10); [|exact Hi]. destruct c; exact Hi.
  - (* choose *)
    unfold cand_choose, drop_rc in H. destruct (ml_select mdf_ops conv (cx_ed c) _) as [[e1 b]| | |] eqn:E; try discriminate.
    inversion H; subst c'. cbn [fst]. apply (EI_step c (OpSelect (choose_index (cx_ed c) i)) e1); [intros [] | | exact Hi]. cbn [step]. unfold fst_ok, ml_select in *. now rewrite E.
  - unfold cand_open, drop_rc in H. destruct (ml_start_selecting mdf_ops (cx_ed c)) as [[e1 b]| | |] eqn:E; try discriminate.
    inversion H; subst c'. cbn [fst]. apply (EI_step c OpStart e1); [intros [] | | exact Hi]. cbn [step]. unfold fst_ok, ml_start_selecting in *. now rewrite E.
  - inversion H; subst c'. unfold cand_close. cbn [fst]. apply (EI_step c OpCancel); [intros [] | reflexivity | exact Hi].
  - (* list first / last / next / prev *)
    unfold cand_list, drop_rc in H. destruct (negb (is_selecting_b (cx_ed c))); [inversion H; subst; exact Hi|].
    assert (J : forall (r : outcome (medl * bool)) (o : op) (rc : medl * bool -> Z), ~ writes_engine o ->
                fst_ok r = step mdf_ops lay_ops conv (cx_ed c) o ->
                match match r with Ok x => Ok (with_ed c (fst x), rc x) | Err x => Err x | Panic s => Panic s | OutOfFuel => OutOfFuel end
                with Ok x => Ok (fst x) | Err x => Err x | Panic s => Panic s | OutOfFuel => OutOfFuel end = Ok c' -> EI c').
    { intros r o rc Hw Hs Hr. destruct r as [[e1 bb]| | |]; try discriminate. cbn [fst] in Hr. inversion Hr; subst c'.
      apply (EI_step c o e1 Hw); [|exact Hi]. rewrite <- Hs. reflexivity. }
    destruct w as [|[[p|p|]|[p|p|]|]]; cbv beta iota in H;
      [eapply (J _ OpJumpFirst) | eapply (J _ OpJumpPrev) | eapply (J _ OpJumpPrev) | eapply (J _ OpJumpPrev) | eapply (J _ OpJumpPrev)
       | eapply (J _ OpJumpPrev) | eapply (J _ OpJumpNext) | eapply (J _ OpJumpLast)];
      try (intros []); try reflexivity; exact H.
  - unfold commit_preedit, drop_rc in H. destruct (ml_commit mdf_ops conv (cx_ed c)) as [[e1 b]| | |] eqn:E; try discriminate.
    inversion H; subst c'. cbn [fst]. apply (EI_step c OpCommit e1); [intros [] | | exact Hi]. cbn [step]. unfold fst_ok, ml_commit in *. now rewrite E.
  - inversion H; subst c'. unfold clean_preedit. destruct (is_entering_b (cx_ed c)); cbn [fst]; [|exact Hi].
    apply (EI_step c OpClear); [intros [] | reflexivity | exact Hi].
  - inversion H; subst c'. unfold clean_bopomofo. cbn [fst]. apply (EI_step c OpClearSyl); [intros [] | reflexivity | exact Hi].
  - inversion H; subst c'. unfold reset. apply (EI_step c OpClear); [intros [] | reflexivity | exact Hi].
  - unfold drop_rc in H. destruct (config_set_int_c c name v) as [[c1 rc]| | |] eqn:E; try discriminate. inversion H; subst c'.
    eapply config_set_int_EI; eassumption.
  - unfold userphrase_add, drop_rc in H. destruct (Nat.ltb 11 _); [inversion H; subst; exact Hi|].
    destruct (ml_learn mdf_ops (cx_ed c) _ _) as [[e1 b]| | |] eqn:E; try discriminate.
    inversion H; subst c'. cbn [fst]. apply (EI_step c (OpLearn (parse_bopomofo bo) ph) e1); [intros [] | | exact Hi]. cbn [step]. unfold fst_ok, ml_learn in *. now rewrite E.
  - unfold userphrase_remove, drop_rc in H. destruct (negb _); [inversion H; subst; exact Hi|].
    destruct (ml_unlearn mdf_ops (cx_ed c) _ _) as [e1| | |] eqn:E; try discriminate.
    inversion H; subst c'. apply (EI_step c (OpUnlearn (parse_bopomofo bo) ph) e1); [intros [] | exact E | exact Hi].
Qed.

Theorem crun_EI : forall ops c c', Forall c_call ops -> crun conv c ops = Ok c' -> EI c -> EI c'.
Proof.
  induction ops as [|o ops IH]; intros c c' Hops H Hi; cbn [crun] in H; [inversion H; subst; exact Hi|].
  inversion Hops as [|x l Ho Hrest]; subst.
  destruct (cstep conv c o) as [c1| | |] eqn:Es; try discriminate.
  eapply IH; [exact Hrest | exact H | eapply cstep_EI; eassumption].
Qed.

Lemma cx_init_EI d ab ss t0 : EI (cx_init d ab ss t0).
Proof. split; reflexivity. Qed.

End CapiEngine.
