(* C14: the known-unreachable readings of the Pinyin variants are genuinely
   unreachable: whatever the key string, a committed syllable is an element of the
   image of the table product (pinyin_image), and the readings are not in it. *)
From Coq Require Import NArith List Bool Lia.
From LC Require Import Base.Lib Gen.Bopomofo_gen Gen.Keyboard_gen Gen.Layout_gen Gen.Readings_gen
  Model.Syllable Model.Keyboard Model.LayoutBase Model.LayoutPinyin Model.Layout
  Proofs.SyllableProofs Proofs.LayoutDefs Proofs.LayoutPinyinSweep Proofs.LayoutPinyinProofs
  Proofs.LayoutCompleteDefs.
Import ListNotations.
Open Scope N_scope.

Definition commit_syl (e : list N * (N * N)) (t : option N) : list N :=
  match pinyin_commit_entry e t with Ok (st', _) => [ls_syl st'] | _ => [] end.
Definition finish_syl (v : N) (i : option N) (f : option (option N * option N)) (t : option N) : list N :=
  match pinyin_finish v i f t with Ok s => [s] | _ => [] end.

(* every syllable a variant can commit *)
Definition pinyin_image (v : N) : list N :=
  flat_map (fun e => flat_map (commit_syl e) tone_opts) (pinyin_variant_mapping v ++ pinyin_common_mapping) ++
  flat_map (fun i => flat_map (fun f => flat_map (finish_syl v i f) tone_opts) fin_opts) ini_opts.

Lemma commit_in_image v e t st' b :
  In e (pinyin_variant_mapping v ++ pinyin_common_mapping) -> In t tone_opts ->
  pinyin_commit_entry e t = Ok (st', b) -> In (ls_syl st') (pinyin_image v).
Proof.
  intros He Ht E. unfold pinyin_image. apply in_or_app. left.
  apply in_flat_map. exists e. split; [exact He|].
  apply in_flat_map. exists t. split; [exact Ht|].
  unfold commit_syl. rewrite E. left. reflexivity.
Qed.

Lemma finish_in_image v i f t s :
  In i ini_opts -> In f fin_opts -> In t tone_opts ->
  pinyin_finish v i f t = Ok s -> In s (pinyin_image v).
Proof.
  intros Hi Hf Ht E. unfold pinyin_image. apply in_or_app. right.
  apply in_flat_map. exists i. split; [exact Hi|].
  apply in_flat_map. exists f. split; [exact Hf|].
  apply in_flat_map. exists t. split; [exact Ht|].
  unfold finish_syl. rewrite E. left. reflexivity.
Qed.

Lemma pinyin_commit_in_image v st ev st' :
  pinyin_key_press v st ev = Ok (st', Commit) -> In (ls_syl st') (pinyin_image v).
Proof.
  unfold pinyin_key_press.
  destruct (match ls_keys st with [] => negb (is_atoz (ev_code ev)) | _ :: _ => false end); [discriminate|].
  destruct (negb (memN (ev_code ev) pinyin_tone_keys)).
  { destruct (len_N (ls_keys st) =? MAX_PINYIN_LEN); [discriminate|].
    destruct (negb (is_ascii_alphabetic (ev_unicode ev))); discriminate. }
  pose proof (assoc_opts (ev_code ev) pinyin_tone_table) as Ht. fold tone_opts in Ht.
  set (tone := assoc (ev_code ev) pinyin_tone_table) in *.
  destruct (find_str (ls_keys st) (pinyin_variant_mapping v)) as [e|] eqn:E1.
  { apply find_some in E1 as [Hin _]. intros E.
    exact (commit_in_image v e tone st' Commit (in_or_app _ _ _ (or_introl Hin)) Ht E). }
  destruct (find_str (ls_keys st) pinyin_common_mapping) as [e|] eqn:E2.
  { apply find_some in E2 as [Hin _]. intros E.
    exact (commit_in_image v e tone st' Commit (in_or_app _ _ _ (or_intror Hin)) Ht E). }
  set (ini := find (fun e => str_starts_with (ls_keys st) (fst e)) pinyin_initial_mapping).
  set (fin := find_str (match ini with
                        | Some e => str_trim_start (length (ls_keys st)) (ls_keys st) (fst e)
                        | None => ls_keys st
                        end) pinyin_final_mapping).
  assert (Hi : In (option_map snd ini) ini_opts) by apply find_opts.
  assert (Hf : In (option_map snd fin) fin_opts) by apply find_opts.
  assert (Hcommit :
            obind (pinyin_finish v (option_map snd ini) (option_map snd fin) tone)
                  (fun s => Ok (mk_lstate s s [], Commit)) = Ok (st', Commit) ->
            In (ls_syl st') (pinyin_image v)).
  { destruct (pinyin_finish v (option_map snd ini) (option_map snd fin) tone) as [s| | |] eqn:Es;
      cbn [obind]; try discriminate.
    intros E. inversion E; subst st'. cbn [ls_syl].
    exact (finish_in_image v _ _ tone s Hi Hf Ht Es). }
  destruct ini as [ei|]; [exact Hcommit|].
  destruct fin as [ef|]; [exact Hcommit|].
  discriminate.
Qed.

Lemma pinyin_editor_step_image L st op st' o :
  7 <= L < 10 -> wf_state st -> editor_step L st op = Ok (st', o) ->
  exists v, In v variants /\ wf_state st' /\ (forall h, o = Some h -> In h (pinyin_image v)) /\
            v = L - 7.
Proof.
  intros HL Hw E. unfold editor_step in E.
  destruct (pinyin_step_facts L st op HL Hw) as (st1 & b & E1 & Hw1 & Hb).
  rewrite E1 in E. cbn [obind fst snd] in E.
  assert (Hv : In (L - 7) variants).
  { apply pinyin_cases in HL as [->|[->| ->]]; [left|right; left|right; right; left]; reflexivity. }
  exists (L - 7). split; [exact Hv|].
  destruct Hb as [->|[->|[->| ->]]]; inversion E; subst; try (split; [exact Hw1|]; split; [intros h Hh; discriminate | reflexivity]).
  split; [split; exact wf_empty|]. split; [|reflexivity].
  intros h Hh. inversion Hh; subst h. unfold l_read.
  destruct op as [ev|ev| |]; cbn [l_step] in E1.
  - assert (Ek' : key_press L st ev = pinyin_key_press (L - 7) st ev).
    { apply pinyin_cases in HL as [->|[->| ->]]; reflexivity. }
    rewrite Ek' in E1. now apply pinyin_commit_in_image in E1.
  - assert (Ek' : fuzzy_key_press L st ev = pinyin_key_press (L - 7) st ev).
    { apply pinyin_cases in HL as [->|[->| ->]]; reflexivity. }
    rewrite Ek' in E1. now apply pinyin_commit_in_image in E1.
  - inversion E1.
  - inversion E1.
Qed.

Lemma pinyin_run_image L ops : forall st st' hs,
  7 <= L < 10 -> wf_state st -> run_editor L st ops = Ok (st', hs) ->
  forall h, In h hs -> In h (pinyin_image (L - 7)).
Proof.
  induction ops as [|op ops IH]; intros st st' hs HL Hw Hrun h Hh.
  - cbn [run_editor] in Hrun. inversion Hrun; subst. destruct Hh.
  - cbn [run_editor] in Hrun.
    destruct (editor_step L st op) as [[st1 o]| | |] eqn:E; try discriminate.
    cbn [obind fst snd] in Hrun.
    destruct (run_editor L st1 ops) as [[st2 hs2]| | |] eqn:E2; try discriminate.
    cbn [obind fst snd] in Hrun. inversion Hrun; subst.
    destruct (pinyin_editor_step_image L st op st1 o HL Hw E) as (v & _ & Hw1 & Ho & ->).
    apply in_app_or in Hh as [Hh|Hh].
    + destruct o as [x|]; cbn [opt_list] in Hh; [|destruct Hh].
      destruct Hh as [->|[]]. now apply Ho.
    + exact (IH st1 _ _ HL Hw1 E2 h Hh).
Qed.

(* the known-unreachable readings are outside the image *)
Definition outside_b (l img : list N) : bool := forallb (fun r => negb (memN r img)) l.
Definition pinyin_outside_b : bool :=
  forallb (fun L => outside_b (known_unreachable L) (pinyin_image (L - 7))) [7; 8; 9].

Lemma pinyin_outside : pinyin_outside_b = true.
Proof. vm_cast_no_check (eq_refl true). Qed.

Lemma pinyin_known_unreachable_genuine L r ops st hs :
  7 <= L < 10 -> In r (known_unreachable L) ->
  run_editor L lstate_empty ops = Ok (st, hs) -> ~ In r hs.
Proof.
  intros HL Hr Hrun Hin.
  assert (Hw : wf_state lstate_empty) by (split; exact wf_empty).
  pose proof (pinyin_run_image L ops lstate_empty st hs HL Hw Hrun r Hin) as Him.
  pose proof pinyin_outside as H. unfold pinyin_outside_b in H. rewrite forallb_forall in H.
  assert (HLin : In L [7; 8; 9]).
  { apply pinyin_cases in HL as [->|[->| ->]]; [left|right; left|right; right; left]; reflexivity. }
  specialize (H L HLin). cbv beta in H. unfold outside_b in H. rewrite forallb_forall in H. specialize (H r Hr).
  apply negb_true_iff in H. apply memN_In in Him. rewrite Him in H. discriminate.
Qed.
