(* Proofs about Model/Conversion.v (C03, C04): every edge of the interval graph is
   well-formed, and EVERY 0->len path through the graph - hence every alternative any
   ranking could return - glues into a tiling that honours selections and breaks. *)
From Coq Require Import NArith List Bool Arith Lia.
From LC Require Import Base.Lib Model.Composition Model.Conversion Proofs.CompositionProofs.
Import ListNotations.
Open Scope nat_scope.

Section Conv.
Variable lookup : lookup_fn.
(* the properties' "well-formed dictionary": a phrase has as many characters as its key has
   syllables; no entry for the empty key *)
Hypothesis lookup_len : forall syms p, In p (lookup syms) -> length (fst p) = length syms.
Hypothesis lookup_nil : lookup [] = [].
(* Syllable::to_string, used only by the fallback for a syllable without any word *)
Variable spell : N -> list N.

Variable c : composition.
Hypothesis Wc : wf_comp c.
(* user selections carry one character per covered symbol (they are dictionary phrases for the
   range, see EditorInv) *)
Hypothesis sel_len : Forall (fun s => length (itext s) = ie s - ib s) (selections c).
(* C03 quantifies over dictionaries with at least one word per syllable: every syllable of the
   buffer has a word under the engine's lookup strategy (then the spelled fallback of
   find_best_phrase is never taken; without it a fallback edge carries the spelling, which has
   more than one character) *)
Hypothesis has_word : forall s, In (SymSyl s) (symbols c) -> lookup [SymSyl s] <> [].

(* ... and cover syllables only (the editor offers phrase candidates for syllable ranges): part of wf_comp *)
Lemma sel_syl : forall sel k, In sel (selections c) -> ib sel <= k < ie sel ->
  exists s, nth_error (symbols c) k = Some (SymSyl s).
Proof. intros sel k Hs Hk. destruct Wc as [_ _ _ Wk]. destruct (Wk sel Hs) as (K1 & _). exact (K1 k Hk). Qed.

Lemma text_eqb_eq a b : text_eqb a b = true <-> a = b.
Proof. apply list_eqb_N_spec. Qed.

(* ---- pick_best / forced_selection ---- *)
Lemma pick_best_in s e : forall cands best mf p,
  pick_best c s e cands best mf = Some p ->
  best = Some p \/ (In p cands /\ agrees_with_selections c s e (fst p) = true).
Proof.
  induction cands as [|q rest IH]; intros best mf p H; cbn [pick_best] in H.
  - now left.
  - destruct (agrees_with_selections c s e (fst q)) eqn:Ea.
    + destruct (N.ltb mf (snd q) || match best with None => true | Some _ => false end).
      * destruct (IH _ _ _ H) as [K|[K1 K2]]; [inversion K; subst; right; split; [now left | assumption] | right; split; [now right | assumption]].
      * destruct (IH _ _ _ H) as [K|[K1 K2]]; [now left | right; split; [now right | assumption]].
    + destruct (IH _ _ _ H) as [K|[K1 K2]]; [now left | right; split; [now right | assumption]].
Qed.

Lemma forced_selection_spec s e sel : forced_selection c s e = Some sel ->
  In sel (selections c) /\ ib sel = s /\ ie sel = e.
Proof.
  unfold forced_selection. intros H. apply find_some in H as [Hin Hb].
  apply andb_true_iff in Hb as [H1 H2]. apply Nat.eqb_eq in H1, H2. auto.
Qed.

(* ---- what an edge of the graph guarantees ---- *)
Definition all_syllables (b e : nat) : Prop :=
  forall k, b <= k < e -> exists s, nth_error (symbols c) k = Some (SymSyl s).

Definition no_break_inside (b e : nat) : Prop :=
  forall k, b < k < e -> comp_gap c k <> Some GBreak.

(* no partial overlap with a selection *)
Definition respects_selections (b e : nat) : Prop :=
  forall sel, In sel (selections c) -> (ie sel <= b \/ e <= ib sel) \/ (b <= ib sel /\ ie sel <= e).

Record edge_ok (g : edge) : Prop := {
  eo_range : eb g < ee g <= clen c;
  eo_break : no_break_inside (eb g) (ee g);
  eo_sels : respects_selections (eb g) (ee g);
  eo_len : length (pphrase_text (ephrase g)) = ee g - eb g;
  eo_char : pphrase_is_phrase (ephrase g) = false ->
            exists ch, ee g = S (eb g) /\ pphrase_text (ephrase g) = [ch] /\ nth_error (symbols c) (eb g) = Some (SymChar ch);
  eo_phrase : pphrase_is_phrase (ephrase g) = true -> all_syllables (eb g) (ee g);
  (* the text agrees with every selection it contains *)
  eo_agree : forall sel, In sel (selections c) -> eb g <= ib sel -> ie sel <= ee g ->
             firstn (ie sel - ib sel) (skipn (ib sel - eb g) (pphrase_text (ephrase g))) = itext sel
}.

Lemma has_break_inside_false b n : has_break_inside c b n = false -> no_break_inside b (b + n).
Proof.
  unfold has_break_inside, no_break_inside. intros H k Hk Hg.
  assert (Hin : In k (seq (S b) (n - 1))) by (apply in_seq; lia).
  assert (K : existsb (fun i => match comp_gap c i with Some GBreak => true | _ => false end) (seq (S b) (n - 1)) = true).
  { apply existsb_exists. exists k. split; [exact Hin | now rewrite Hg]. }
  congruence.
Qed.

Lemma sel_conflicts_false b e : b < e -> sel_conflicts c b e = false -> respects_selections b e.
Proof.
  unfold sel_conflicts, respects_selections. intros Hbe H sel Hin.
  destruct (intersect_range sel b e) eqn:Ei.
  - destruct (is_contained_by sel b e) eqn:Ec.
    + right. unfold is_contained_by in Ec. b2p. lia.
    + exfalso. assert (K : existsb (fun sel0 => intersect_range sel0 b e && negb (is_contained_by sel0 b e)) (selections c) = true).
      { apply existsb_exists. exists sel. split; [exact Hin | now rewrite Ei, Ec]. }
      congruence.
  - left. unfold intersect_range in Ei. b2p.
    destruct Wc as [_ Ws _]. rewrite Forall_forall in Ws. destruct (Ws _ Hin) as [Hlt _].
    pose proof (Nat.le_min_l (ie sel) e); pose proof (Nat.le_min_r (ie sel) e);
    pose proof (Nat.le_max_l (ib sel) b); pose proof (Nat.le_max_r (ib sel) b);
    destruct (Nat.min_spec (ie sel) e) as [[? K1]|[? K1]], (Nat.max_spec (ib sel) b) as [[? K2]|[? K2]]; rewrite K1, K2 in Ei; lia.
Qed.

Lemma existsb_is_char_false syms : existsb is_char syms = false ->
  forall k x, nth_error syms k = Some x -> exists s, x = SymSyl s.
Proof.
  induction syms as [|y l IH]; intros H k x Hk; [destruct k; discriminate|].
  cbn [existsb] in H. apply orb_false_iff in H as [Hy Hl].
  destruct k as [|k]; cbn [nth_error] in Hk.
  - inversion Hk; subst. destruct x as [s|ch]; [eauto | discriminate].
  - eapply IH; eassumption.
Qed.

Lemma nth_error_firstn_lt {A} : forall n (l : list A) k, k < n -> nth_error (firstn n l) k = nth_error l k.
Proof.
  induction n as [|n IH]; intros l k Hk; [lia|]. destruct l as [|x l]; [now destruct k|].
  destruct k as [|k]; cbn [firstn nth_error]; [reflexivity | apply IH; lia].
Qed.

Lemma nth_error_skipn_add {A} : forall b (l : list A) k, nth_error (skipn b l) k = nth_error l (b + k).
Proof.
  induction b as [|b IH]; intros l k; [reflexivity|]. destruct l as [|x l]; [now destruct k|].
  cbn [skipn plus nth_error]. apply IH.
Qed.

Lemma nth_error_slice {A} (l : list A) b n k : k < n -> b + n <= length l ->
  nth_error (firstn n (skipn b l)) k = nth_error l (b + k).
Proof.
  intros Hk Hn. rewrite nth_error_firstn_lt by exact Hk. apply nth_error_skipn_add.
Qed.

Lemma agrees_spec s e text : agrees_with_selections c s e text = true ->
  forall sel, In sel (selections c) -> s <= ib sel -> ie sel <= e ->
  firstn (ie sel - ib sel) (skipn (ib sel - s) text) = itext sel.
Proof.
  unfold agrees_with_selections. intros H sel Hin H1 H2. rewrite forallb_forall in H. specialize (H _ Hin).
  apply Nat.leb_le in H1, H2. rewrite H1, H2 in H. cbn [andb] in H. now apply text_eqb_eq.
Qed.

Lemma same_range_same_selection sel sel' :
  In sel (selections c) -> In sel' (selections c) -> ib sel <= ib sel' -> ie sel' <= ie sel -> sel' = sel.
Proof.
  intros Hin Hin' H1 H2.
  destruct Wc as [_ Ws Wd]. rewrite Forall_forall in Ws.
  destruct (Ws _ Hin) as [Hlt _]. destruct (Ws _ Hin') as [Hlt' _].
  assert (Hdec : sel' = sel \/ sel' <> sel).
  { destruct (interval_eqb sel' sel) eqn:Eq.
    - left. unfold interval_eqb in Eq.
      apply andb_true_iff in Eq as [Eq E4]. apply andb_true_iff in Eq as [Eq E3]. apply andb_true_iff in Eq as [E1 E2].
      apply Nat.eqb_eq in E1, E2. apply eqb_prop in E3. apply text_eqb_eq in E4.
      destruct sel', sel; cbn in *; subst; reflexivity.
    - right. intros ->. unfold interval_eqb in Eq. rewrite !Nat.eqb_refl, eqb_reflx in Eq. cbn [andb] in Eq.
      assert (text_eqb (itext sel) (itext sel) = true) by (now apply text_eqb_eq). congruence. }
  destruct Hdec as [K|Hne]; [exact K|]. exfalso.
  assert (Hd : disjoint sel' sel \/ disjoint sel sel').
  { clear -Wd Hin Hin' Hne. induction Wd as [|x l Hx Hl IH]; [destruct Hin|].
    rewrite Forall_forall in Hx.
    destruct Hin as [->|Hin], Hin' as [->|Hin'].
    - contradiction.
    - right. now apply Hx.
    - left. now apply Hx.
    - now apply IH. }
  unfold disjoint in Hd. lia.
Qed.

Lemma pick_best_some_stays s e : forall cands b mf, exists q, pick_best c s e cands (Some b) mf = Some q.
Proof.
  induction cands as [|p rest IH]; intros b mf; cbn [pick_best]; [eauto|].
  destruct (agrees_with_selections c s e (fst p)); [|apply IH].
  destruct (N.ltb mf (snd p) || false); apply IH.
Qed.

Lemma pick_best_none s e : forall cands mf, pick_best c s e cands None mf = None ->
  forall p, In p cands -> agrees_with_selections c s e (fst p) = false.
Proof.
  induction cands as [|q rest IH]; intros mf H p Hin; [destruct Hin|]. cbn [pick_best] in H.
  destruct (agrees_with_selections c s e (fst q)) eqn:Ea.
  - rewrite orb_true_r in H. destruct (pick_best_some_stays s e rest q (snd q)) as (x & Hx). congruence.
  - destruct Hin as [<-|Hin]; [exact Ea | eapply IH; eassumption].
Qed.

(* with a word for every syllable, a single syllable always gets an edge from the dictionary or
   from a forced selection: the spelled fallback is not reached *)
Lemma fallback_unreachable b s : nth_error (symbols c) b = Some (SymSyl s) ->
  pick_best c b (b + 1) (lookup [SymSyl s]) None 0%N = None -> forced_selection c b (b + 1) <> None.
Proof.
  intros Hb Hp Hf.
  destruct (lookup [SymSyl s]) as [|p rest] eqn:El; [apply (has_word s); [eapply nth_error_In; eassumption | exact El]|].
  pose proof (pick_best_none _ _ _ _ Hp p (or_introl eq_refl)) as Ha.
  unfold agrees_with_selections in Ha.
  assert (exists sel, In sel (selections c) /\ Nat.leb b (ib sel) && Nat.leb (ie sel) (b + 1) = true) as (sel & Hin & Hc).
  { clear -Ha. induction (selections c) as [|x l IH]; cbn [forallb] in Ha; [discriminate|].
    apply andb_false_iff in Ha as [Hx|Hl].
    - exists x. split; [now left|]. destruct (Nat.leb b (ib x) && Nat.leb (ie x) (b + 1)); [reflexivity | discriminate].
    - destruct (IH Hl) as (y & Hy & Hc). exists y. split; [now right | exact Hc]. }
  apply andb_true_iff in Hc as [H1 H2]. apply Nat.leb_le in H1, H2.
  destruct Wc as [_ Ws _]. rewrite Forall_forall in Ws. destruct (Ws _ Hin) as [Hlt _].
  unfold forced_selection in Hf. pose proof (find_none _ _ Hf sel Hin) as Hn. cbn beta in Hn.
  assert (ib sel = b) by lia. assert (ie sel = b + 1) by lia.
  rewrite (proj2 (Nat.eqb_eq b (ib sel))), (proj2 (Nat.eqb_eq (b + 1) (ie sel))) in Hn by lia. discriminate.
Qed.

(* the dictionary / forced-selection branch of find_best_phrase *)
Lemma phrase_branch_ok b n syms p :
  1 <= n -> b + n <= clen c -> length syms = n ->
  (forall k, k < n -> nth_error syms k = nth_error (symbols c) (b + k)) ->
  existsb is_char syms = false ->
  no_break_inside b (b + n) -> respects_selections b (b + n) ->
  match pick_best c b (b + n) (lookup syms) None 0%N with
  | Some q => Some (PPhrase (fst q) (snd q))
  | None => match forced_selection c b (b + n) with
            | Some sel => Some (PPhrase (itext sel) 0%N)
            | None => None
            end
  end = Some p ->
  edge_ok (mkEdge b (b + n) p).
Proof.
  intros Hn1 Hn Hlen Hnth Hch NB RS H.
  assert (AS : all_syllables b (b + n)).
  { intros k Hk. specialize (Hnth (k - b) ltac:(lia)). replace (b + (k - b)) with k in Hnth by lia.
    destruct (nth_error syms (k - b)) as [x|] eqn:Ex.
    - destruct (existsb_is_char_false _ Hch _ _ Ex) as (s0 & ->). exists s0. now symmetry.
    - apply nth_error_None in Ex. lia. }
  destruct (pick_best c b (b + n) (lookup syms) None 0%N) as [q|] eqn:Ep.
  - inversion H; subst; clear H. apply pick_best_in in Ep as [K|[K1 K2]]; [discriminate|].
    pose proof (lookup_len _ _ K1) as HL.
    constructor; cbn [eb ee ephrase pphrase_text pphrase_is_phrase]; try assumption; try lia;
      try (intros Hf; discriminate Hf); try (intros _; exact AS).
    intros sel Hin H1 H2. eapply agrees_spec; eassumption.
  - destruct (forced_selection c b (b + n)) as [sel|] eqn:Ef; [|discriminate].
    inversion H; subst; clear H. apply forced_selection_spec in Ef as (Hin & H1 & H2).
    pose proof sel_len as SL. rewrite Forall_forall in SL. specialize (SL _ Hin).
    constructor; cbn [eb ee ephrase pphrase_text pphrase_is_phrase]; try assumption; try lia;
      try (intros Hf; discriminate Hf); try (intros _; exact AS).
    intros sel' Hin' H1' H2'.
      assert (sel' = sel) as -> by (apply same_range_same_selection; [assumption | assumption | lia | lia]).
      rewrite H1. replace (b - b) with 0 by lia. cbn [skipn]. rewrite firstn_all2; [reflexivity | lia].
Qed.

Lemma find_best_phrase_ok b n p :
  b + n <= clen c ->
  find_best_phrase spell lookup c b (firstn n (skipn b (symbols c))) = Some p ->
  edge_ok (mkEdge b (b + n) p).
Proof.
  intros Hn H. unfold find_best_phrase in H.
  set (syms := firstn n (skipn b (symbols c))) in *.
  assert (Hlen : length syms = n).
  { subst syms. rewrite firstn_length, skipn_length. unfold clen in Hn. lia. }
  rewrite Hlen in H.
  destruct (has_break_inside c b n) eqn:Eb; [discriminate|].
  destruct (sel_conflicts c b (b + n)) eqn:Es; [discriminate|].
  pose proof (has_break_inside_false _ _ Eb) as NB.
  assert (RS : 1 <= n -> respects_selections b (b + n)) by (intros Hn1; apply sel_conflicts_false; [lia | exact Es]).
  assert (Hnth : forall k, k < n -> nth_error syms k = nth_error (symbols c) (b + k)).
  { intros k Hk. subst syms. apply nth_error_slice; unfold clen in Hn; lia. }
  clearbody syms.
  destruct syms as [|x l].
  - (* empty range: no edge *)
    exfalso. cbn [existsb] in H. rewrite lookup_nil in H. cbn [pick_best] in H.
    destruct (forced_selection c b (b + n)) as [sel|] eqn:Ef; [|discriminate].
    apply forced_selection_spec in Ef as (Hin & H1 & H2).
    destruct Wc as [_ Ws _]. rewrite Forall_forall in Ws. destruct (Ws _ Hin) as [Hlt _].
    cbn [length] in Hlen. lia.
  - destruct x as [s|ch].
    + (* starts with a syllable *)
      assert (H' : (if existsb is_char (SymSyl s :: l) then None else
                    match pick_best c b (b + n) (lookup (SymSyl s :: l)) None 0%N with
                    | Some q => Some (PPhrase (fst q) (snd q))
                    | None => match forced_selection c b (b + n) with
                              | Some sel => Some (PPhrase (itext sel) 0%N)
                              | None => match l with [] => Some (PPhrase (spell s) 0%N) | _ => None end
                              end
                    end) = Some p) by (destruct l; exact H).
      destruct (existsb is_char (SymSyl s :: l)) eqn:Ech; [discriminate|].
      cbn [length] in Hlen.
      apply (phrase_branch_ok b n (SymSyl s :: l) p); try assumption; try lia; try (cbn [length]; exact Hlen); try (apply RS; lia).
      destruct (pick_best c b (b + n) (lookup (SymSyl s :: l)) None 0%N) eqn:Ep; [exact H'|].
      destruct (forced_selection c b (b + n)) eqn:Ef; [exact H'|]. exfalso.
      destruct l as [|y l']; [|discriminate]. cbn [length] in Hlen. subst n.
      apply (fallback_unreachable b s); [|exact Ep | exact Ef].
      specialize (Hnth 0 ltac:(lia)). cbn [nth_error] in Hnth. rewrite Nat.add_0_r in Hnth. now symmetry.
    + destruct l as [|y l].
      * (* a single character symbol: kept as it is *)
        cbn [length] in Hlen. subst n. inversion H; subst; clear H. specialize (RS ltac:(lia)).
        assert (Hsym : nth_error (symbols c) b = Some (SymChar ch)).
        { specialize (Hnth 0 ltac:(lia)). cbn [nth_error] in Hnth. rewrite Nat.add_0_r in Hnth. now symmetry. }
        constructor; cbn [eb ee ephrase pphrase_text pphrase_is_phrase length]; try assumption; try lia;
          try (intros Hf; discriminate Hf);
          try (intros _; exists ch; split; [lia | split; [reflexivity | exact Hsym]]).
        intros sel Hin H1 H2. exfalso.
           destruct Wc as [_ Ws _]. rewrite Forall_forall in Ws. destruct (Ws _ Hin) as [Hlt _].
           destruct (sel_syl sel b Hin ltac:(lia)) as (s0 & Hs0). congruence.
      * (* a character followed by more symbols: no phrase *)
        cbn [existsb is_char is_syllable negb orb] in H. discriminate.
Qed.

(* every edge of the graph is well-formed *)
Lemma in_edges_from b g : In g (edges_from spell lookup c b) -> b < clen c -> edge_ok g.
Proof.
  unfold edges_from. intros Hin Hb. apply in_flat_map in Hin as (n & Hn & Hg).
  apply in_seq in Hn.
  destruct (find_best_phrase spell lookup c b (firstn n (skipn b (symbols c)))) as [p|] eqn:Ef; [|destruct Hg].
  destruct Hg as [<-|[]]. apply find_best_phrase_ok; [lia | exact Ef].
Qed.

Theorem graph_edges_ok g : In g (find_intervals spell lookup c) -> edge_ok g.
Proof.
  unfold find_intervals. intros Hin. apply in_flat_map in Hin as (b & Hb & Hg).
  apply in_seq in Hb. eapply in_edges_from; [exact Hg | lia].
Qed.

(* ------------------------------------------------------------------ *)
(* from edges to glued intervals *)
Record iv_ok (iv : interval) : Prop := {
  io_range : ib iv < ie iv <= clen c;
  io_len : length (itext iv) = ie iv - ib iv;
  io_char : iphrase iv = false ->
            exists ch, ie iv = S (ib iv) /\ itext iv = [ch] /\ nth_error (symbols c) (ib iv) = Some (SymChar ch);
  io_phrase : iphrase iv = true -> all_syllables (ib iv) (ie iv);
  io_break : no_break_inside (ib iv) (ie iv);
  io_sels : respects_selections (ib iv) (ie iv);
  io_agree : forall sel, In sel (selections c) -> ib iv <= ib sel -> ie sel <= ie iv ->
             firstn (ie sel - ib sel) (skipn (ib sel - ib iv) (itext iv)) = itext sel
}.

Lemma edge_interval_ok g : edge_ok g -> iv_ok (edge_interval g).
Proof.
  intros [R B S L C P A]. constructor; cbn [edge_interval ib ie iphrase itext]; assumption.
Qed.

Lemma firstn_skipn_app_l {A} (l1 l2 : list A) off n : off + n <= length l1 ->
  firstn n (skipn off (l1 ++ l2)) = firstn n (skipn off l1).
Proof.
  intros H. rewrite skipn_app. replace (off - length l1) with 0 by lia. cbn [skipn].
  rewrite firstn_app. rewrite skipn_length. replace (n - (length l1 - off)) with 0 by lia.
  cbn [firstn]. now rewrite app_nil_r.
Qed.

Lemma skipn_app_r {A} (l1 l2 : list A) k : skipn (length l1 + k) (l1 ++ l2) = skipn k l2.
Proof.
  rewrite skipn_app. replace (length l1 + k - length l1) with k by lia.
  rewrite skipn_all2 by lia. reflexivity.
Qed.

Lemma sel_nonempty sel : In sel (selections c) -> ib sel < ie sel.
Proof. intros Hin. destruct Wc as [_ Ws _]. rewrite Forall_forall in Ws. now destruct (Ws _ Hin). Qed.

Lemma merge_ok a b :
  iv_ok a -> iv_ok b -> ib b = ie a -> iphrase a = true -> iphrase b = true -> comp_gap c (ie a) = Some GGlue ->
  iv_ok (mkIv (ib a) (ie b) true (itext a ++ itext b)).
Proof.
  intros [Ra La Ca Pa Ba Sa Aa] [Rb Lb Cb Pb Bb Sb Ab] Hadj Hpa Hpb Hg.
  constructor; cbn [ib ie iphrase itext].
  - lia.
  - rewrite app_length. lia.
  - discriminate.
  - intros _ k Hk. destruct (Nat.lt_ge_cases k (ie a)); [apply (Pa Hpa); lia | apply (Pb Hpb); lia].
  - intros k Hk Hbk. destruct (Nat.lt_trichotomy k (ie a)) as [H|[H|H]].
    + apply (Ba k); [lia | exact Hbk].
    + subst k. rewrite Hg in Hbk. discriminate.
    + apply (Bb k); [lia | exact Hbk].
  - intros sel Hin. pose proof (sel_nonempty _ Hin) as Hne.
    destruct (Sa _ Hin) as [Da|Ca']; destruct (Sb _ Hin) as [Db|Cb']; try lia.
  - intros sel Hin H1 H2. pose proof (sel_nonempty _ Hin) as Hne.
    destruct (Sa _ Hin) as [Da|Ca'].
    + (* not in a: it lies in b *)
      destruct (Sb _ Hin) as [Db|Cb']; [lia|].
      replace (ib sel - ib a) with (length (itext a) + (ib sel - ib b)) by lia.
      rewrite skipn_app_r. apply Ab; [assumption | lia | lia].
    + rewrite firstn_skipn_app_l by lia. apply Aa; [assumption | lia | lia].
Qed.

(* reversed accumulator of glue_fn: tiles [0, e) *)
Inductive rtiles : nat -> list interval -> Prop :=
| rt_nil : rtiles 0 []
| rt_cons iv acc : rtiles (ib iv) acc -> iv_ok iv -> rtiles (ie iv) (iv :: acc).

Lemma glue_step_tiles acc e iv : rtiles e acc -> iv_ok iv -> ib iv = e -> rtiles (ie iv) (glue_step c acc iv).
Proof.
  intros Ht Hiv Hb. subst e. unfold glue_step. destruct acc as [|last rest].
  - constructor; [exact Ht | exact Hiv].
  - destruct (negb (iphrase last) || negb (iphrase iv)) eqn:Ep.
    + constructor; [exact Ht | exact Hiv].
    + apply orb_false_iff in Ep as [E1 E2]. apply negb_false_iff in E1, E2.
      assert (Hadj : ib iv = ie last /\ rtiles (ib last) rest /\ iv_ok last).
      { inversion Ht as [|last' rest' Hrest Hlast Heq]; subst. auto. }
      destruct Hadj as (Hadj & Hrest & Hlast).
      destruct (comp_gap c (ie last)) as [[| | |]|] eqn:Eg; try (constructor; [exact Ht | exact Hiv]).
      apply (rt_cons (mkIv (ib last) (ie iv) true (itext last ++ itext iv)) rest); [exact Hrest | now apply merge_ok].
Qed.

Lemma fold_glue_tiles ivs : forall acc e e',
  rtiles e acc -> Forall iv_ok ivs -> contiguous e e' ivs = true ->
  rtiles e' (fold_left (glue_step c) ivs acc).
Proof.
  induction ivs as [|iv rest IH]; intros acc e e' Ht Hok Hc; cbn [fold_left contiguous] in *.
  - apply Nat.eqb_eq in Hc. now subst.
  - apply andb_true_iff in Hc as [Hc Hc2]. apply andb_true_iff in Hc as [Hc0 Hc1]. apply Nat.eqb_eq in Hc0.
    apply Forall_cons_iff in Hok as [Hx Hl].
    eapply IH; [apply (glue_step_tiles acc e iv); [exact Ht | exact Hx | exact Hc0] | exact Hl | exact Hc2].
Qed.

Lemma rtiles_rev e acc : rtiles e acc -> contiguous 0 e (rev acc) = true /\ Forall iv_ok (rev acc).
Proof.
  induction 1 as [|iv acc Ht [IH1 IH2] Hiv]; cbn [rev]; [split; [reflexivity | constructor]|].
  split.
  - clear IH2. revert IH1. generalize (rev acc) 0. intros l. induction l as [|x l IHl]; intros from Hc; cbn [app contiguous] in *.
    + apply Nat.eqb_eq in Hc. subst. destruct Hiv as [R _ _ _ _ _ _].
      rewrite !Nat.eqb_refl. cbn [andb]. rewrite andb_true_r. apply Nat.ltb_lt. lia.
    + apply andb_true_iff in Hc as [Hc Hc2]. rewrite Hc. cbn [andb]. now apply IHl.
  - apply Forall_app. split; [assumption | now constructor].
Qed.

(* a path through the graph *)
Lemma pphrase_eqb_eq a b : pphrase_eqb a b = true -> a = b.
Proof.
  destruct a as [x|t f], b as [y|t' f']; cbn; try discriminate.
  - destruct x, y; cbn; try discriminate; intros H; apply N.eqb_eq in H; now subst.
  - intros H. apply andb_true_iff in H as [H1 H2]. apply text_eqb_eq in H1. apply N.eqb_eq in H2. now subst.
Qed.

Lemma path_ok_spec graph : (forall g, In g graph -> edge_ok g) ->
  forall p from len, path_ok graph from len p = true ->
  Forall iv_ok (map edge_interval p) /\ contiguous from len (map edge_interval p) = true.
Proof.
  intros Hg. induction p as [|e rest IH]; intros from len H; cbn [path_ok map contiguous] in *.
  - split; [constructor | exact H].
  - apply andb_true_iff in H as [H H4]. apply andb_true_iff in H as [H H3]. apply andb_true_iff in H as [H1 H2].
    apply existsb_exists in H3 as (g & Hin & Hm).
    apply andb_true_iff in Hm as [Hm Hm3]. apply andb_true_iff in Hm as [Hm1 Hm2].
    apply Nat.eqb_eq in Hm1, Hm2. apply pphrase_eqb_eq in Hm3.
    assert (e = g) as -> by (destruct e, g; cbn in *; subst; reflexivity).
    destruct (IH _ _ H4) as (I1 & I2).
    split; [constructor; [apply edge_interval_ok, Hg, Hin | exact I1]|].
    cbn [edge_interval ib ie]. rewrite H1, H2, I2. reflexivity.
Qed.

(* C03: EVERY 0->len path through the interval graph glues into a tiling *)
Theorem every_path_tiles p :
  path_ok (find_intervals spell lookup c) 0 (clen c) p = true ->
  let ivs := glue_path c (map edge_interval p) in
  contiguous 0 (clen c) ivs = true /\ Forall iv_ok ivs.
Proof.
  intros H. destruct (path_ok_spec _ graph_edges_ok _ _ _ H) as (Hok & Hc).
  unfold glue_path. apply rtiles_rev. eapply fold_glue_tiles; [constructor | exact Hok | exact Hc].
Qed.

(* ------------------------------------------------------------------ *)
(* consequences for any tiling of ok intervals *)
Lemma display_sub : forall ivs from to iv,
  contiguous from to ivs = true -> Forall iv_ok ivs -> In iv ivs ->
  forall off n, off + n <= ie iv - ib iv ->
  firstn n (skipn (ib iv - from + off) (flat_map itext ivs)) = firstn n (skipn off (itext iv)).
Proof.
  induction ivs as [|x l IH]; intros from to iv Hc Hok Hin off n Hn; [destruct Hin|].
  cbn [contiguous flat_map] in *.
  apply andb_true_iff in Hc as [Hc Hc2]. apply andb_true_iff in Hc as [Hc0 Hc1].
  apply Nat.eqb_eq in Hc0. apply Nat.ltb_lt in Hc1.
  inversion Hok as [|x' l' Hx Hl]; subst.
  destruct Hin as [->|Hin].
  - replace (ib iv - ib iv + off) with off by lia. apply firstn_skipn_app_l.
    rewrite (io_len _ Hx). lia.
  - assert (Hge : ie x <= ib iv).
    { clear -Hc2 Hin. revert Hc2. generalize (ie x). induction l as [|y l IHl]; intros from Hc; [destruct Hin|].
      cbn [contiguous] in Hc. apply andb_true_iff in Hc as [Hc Hc2]. apply andb_true_iff in Hc as [Hc0 Hc1].
      apply Nat.eqb_eq in Hc0. apply Nat.ltb_lt in Hc1. destruct Hin as [->|Hin]; [lia|].
      specialize (IHl Hin _ Hc2). lia. }
    replace (ib iv - ib x + off) with (length (itext x) + (ib iv - ie x + off)) by (rewrite (io_len _ Hx); lia).
    rewrite skipn_app_r. eapply IH; eassumption.
Qed.

Lemma covering_interval : forall ivs from to k,
  contiguous from to ivs = true -> from <= k < to -> exists iv, In iv ivs /\ ib iv <= k < ie iv.
Proof.
  induction ivs as [|x l IH]; intros from to k Hc Hk; cbn [contiguous] in Hc.
  - apply Nat.eqb_eq in Hc. lia.
  - apply andb_true_iff in Hc as [Hc Hc2]. apply andb_true_iff in Hc as [Hc0 Hc1].
    apply Nat.eqb_eq in Hc0. apply Nat.ltb_lt in Hc1.
    destruct (Nat.lt_ge_cases k (ie x)).
    + exists x. split; [now left | lia].
    + destruct (IH _ _ k Hc2 ltac:(lia)) as (iv & Hin & Hr). exists iv. split; [now right | exact Hr].
Qed.

(* C04: every selection is displayed, at its own range, by every tiling of ok intervals *)
Theorem selection_is_displayed ivs sel :
  contiguous 0 (clen c) ivs = true -> Forall iv_ok ivs -> In sel (selections c) ->
  firstn (ie sel - ib sel) (skipn (ib sel) (display_of ivs)) = itext sel.
Proof.
  intros Hc Hok Hin. pose proof (sel_nonempty _ Hin) as Hne.
  destruct Wc as [_ Ws _]. rewrite Forall_forall in Ws. destruct (Ws _ Hin) as [_ Hle].
  destruct (covering_interval _ _ _ (ib sel) Hc ltac:(lia)) as (iv & Hiv & Hr).
  rewrite Forall_forall in Hok. pose proof (Hok _ Hiv) as Ho.
  destruct (io_sels _ Ho _ Hin) as [Hd|[H1 H2]]; [lia|].
  unfold display_of.
  replace (ib sel) with (ib iv - 0 + (ib sel - ib iv)) at 2 by lia.
  rewrite (display_sub ivs 0 (clen c) iv Hc ltac:(now apply Forall_forall) Hiv) by lia.
  now apply (io_agree _ Ho).
Qed.

(* C04: no interval spans a break point *)
Theorem no_interval_spans_break ivs iv k :
  Forall iv_ok ivs -> In iv ivs -> ib iv < k < ie iv -> comp_gap c k <> Some GBreak.
Proof. intros Hok Hin Hk. rewrite Forall_forall in Hok. exact (io_break _ (Hok _ Hin) k Hk). Qed.

(* C03: non-syllable symbols appear unchanged at their own position *)
Theorem char_symbols_unchanged ivs k ch :
  contiguous 0 (clen c) ivs = true -> Forall iv_ok ivs -> nth_error (symbols c) k = Some (SymChar ch) ->
  nth_error (display_of ivs) k = Some ch.
Proof.
  intros Hc Hok Hk.
  assert (Hlt : k < clen c) by (unfold clen; apply nth_error_Some; congruence).
  destruct (covering_interval _ _ _ k Hc ltac:(lia)) as (iv & Hiv & Hr).
  pose proof Hok as Hok'. rewrite Forall_forall in Hok'. pose proof (Hok' _ Hiv) as Ho.
  destruct (iphrase iv) eqn:Ep.
  - destruct (io_phrase _ Ho Ep k Hr) as (s0 & Hs0). congruence.
  - destruct (io_char _ Ho Ep) as (ch' & He & Ht & Hsym). assert (k = ib iv) by lia. subst k.
    assert (ch' = ch) by congruence. subst ch'.
    pose proof (display_sub ivs 0 (clen c) iv Hc Hok Hiv 0 1 ltac:(lia)) as Hd.
    rewrite Nat.sub_0_r, Nat.add_0_r, Ht in Hd. cbn [skipn firstn] in Hd. unfold display_of.
    destruct (skipn (ib iv) (flat_map itext ivs)) as [|y r] eqn:Es; cbn [firstn] in Hd; [discriminate|].
    inversion Hd; subst.
    rewrite <- (firstn_skipn (ib iv) (flat_map itext ivs)), Es.
    rewrite nth_error_app2; rewrite firstn_length_le; try lia.
    + now rewrite Nat.sub_diag.
    + assert (length (skipn (ib iv) (flat_map itext ivs)) = length (ch :: r)) by now rewrite Es.
      rewrite skipn_length in H. cbn [length] in H. lia.
    + assert (length (skipn (ib iv) (flat_map itext ivs)) = length (ch :: r)) by now rewrite Es.
      rewrite skipn_length in H. cbn [length] in H. lia.
Qed.

(* ------------------------------------------------------------------ *)
(* the boolean checker applied to every conversion the implementation returns (correspondence)
   accepts only tilings of ok intervals *)
Lemma decompose_ok graph : (forall g, In g graph -> edge_ok g) ->
  forall fuel from upto text first,
  decompose graph c fuel from upto text first = true ->
  iv_ok (mkIv from upto true text) /\ (first = false -> comp_gap c from = Some GGlue).
Proof.
  intros Hg. induction fuel as [|k IH]; intros from upto text first H; cbn [decompose] in H; [discriminate|].
  apply existsb_exists in H as (g & Hin & H).
  apply andb_true_iff in H as [H Hlet]. cbv zeta in Hlet. apply andb_true_iff in Hlet as [H6 H7].
  apply andb_true_iff in H as [H H5].
  apply andb_true_iff in H as [H H4]. apply andb_true_iff in H as [H H3]. apply andb_true_iff in H as [H1 H2].
  apply Nat.eqb_eq in H1. apply Nat.ltb_lt in H2. apply Nat.leb_le in H3. apply text_eqb_eq in H6.
  pose proof (edge_interval_ok _ (Hg _ Hin)) as Hok.
  assert (Hgl : first = false -> comp_gap c from = Some GGlue).
  { intros ->. cbn [orb] in H5. destruct (comp_gap c from) as [[| | |]|]; try discriminate. reflexivity. }
  split; [|exact Hgl].
  destruct (Nat.eqb (ee g) upto) eqn:Eu.
  - apply Nat.eqb_eq in Eu, H7.
    assert (text = pphrase_text (ephrase g)).
    { rewrite <- H6. symmetry. apply firstn_all2. lia. }
    subst text upto from. destruct g as [gb ge gp]. cbn [eb ee ephrase] in *.
    destruct gp as [sy|t f]; [discriminate|]. exact Hok.
  - apply Nat.eqb_neq in Eu.
    destruct (IH _ _ _ _ H7) as (Hr & Hglue). specialize (Hglue eq_refl).
    assert (Htext : text = pphrase_text (ephrase g) ++ skipn (length (pphrase_text (ephrase g))) text).
    { rewrite <- H6 at 1. symmetry. apply firstn_skipn. }
    rewrite Htext. subst from.
    destruct g as [gb ge gp]. cbn [eb ee ephrase] in *. destruct gp as [sy|t f]; [discriminate|].
    cbn [pphrase_text] in *.
    apply (merge_ok (edge_interval (mkEdge gb ge (PPhrase t f))) (mkIv ge upto true (skipn (length t) text))); try assumption; reflexivity.
Qed.

Theorem valid_conversion_tiles ivs : symbols c <> [] -> valid_conversion spell lookup c ivs = true ->
  contiguous 0 (clen c) ivs = true /\ Forall iv_ok ivs.
Proof.
  intros Hne H. unfold valid_conversion in H. destruct (symbols c) eqn:Es; [contradiction|]. rewrite <- Es in *.
  apply andb_true_iff in H as [H1 H2]. split; [exact H1|].
  apply Forall_forall. intros iv Hin. rewrite forallb_forall in H2. specialize (H2 _ Hin).
  unfold interval_valid in H2. destruct (iphrase iv) eqn:Ep.
  - destruct (decompose_ok _ graph_edges_ok _ _ _ _ _ H2) as (Hok & _).
    destruct iv as [b e ph t]. cbn [iphrase ib ie itext] in *. subst ph. exact Hok.
  - apply existsb_exists in H2 as (g & Hg & H2).
    apply andb_true_iff in H2 as [H2 H6]. apply andb_true_iff in H2 as [H2 H5]. apply andb_true_iff in H2 as [H3 H4].
    apply Nat.eqb_eq in H3, H4. apply negb_true_iff in H5. apply text_eqb_eq in H6.
    pose proof (edge_interval_ok _ (graph_edges_ok _ Hg)) as Hok.
    destruct iv as [b e ph t]. cbn [iphrase ib ie itext] in *. subst.
    destruct g as [gb ge gp]. cbn [eb ee ephrase] in *. unfold edge_interval in Hok. cbn [eb ee ephrase] in Hok.
    rewrite H5 in Hok. exact Hok.
Qed.

End Conv.
