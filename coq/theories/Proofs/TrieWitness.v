(* Concrete witnesses (closed by vm_compute) about the reader of Model/TrieCodec.v:
   - the pre-fix reader (open_unchecked: no structural validation of the index)
     panics, does not terminate within its fuel, and is exponential on crafted
     indexes.  Each byte string is a single-byte corruption of a file written by
     TrieBuilder (harness corpus small-one / small-wide) or a 3-record cyclic
     index; all three were replayed on the implementation before the fix
     b1dbe45 (docs/notes/C12.md).
   - capacity witnesses for C11 (outside the guards of the round-trip theorem). *)
From Coq Require Import NArith List Bool Lia Permutation.
From LC Require Import Base.Lib Model.Utf8 Model.Der Model.Syllable Model.TrieCodec.
Import ListNotations.
Open Scope N_scope.

(* the valid 61-byte file {[0x2e53] -> ("\230\184\172", 1)} *)
Definition w_small_one : list N := [48; 59; 12; 4; 67; 72; 69; 87; 2; 1; 0; 48; 10; 12; 0; 12; 0; 12; 0; 12; 0; 12; 0; 4; 24; 0; 0; 0; 1; 0; 1; 0; 0; 0; 0; 0; 2; 0; 1; 46; 83; 0; 0; 0; 0; 0; 10; 0; 0; 48; 10; 48; 8; 12; 3; 230; 184; 172; 2; 1; 1].
(* byte 36 (low byte of child_begin of record 1) 2 -> 1: record 1 lists itself as its child *)
Definition w_self_ref : list N := [48; 59; 12; 4; 67; 72; 69; 87; 2; 1; 0; 48; 10; 12; 0; 12; 0; 12; 0; 12; 0; 12; 0; 4; 24; 0; 0; 0; 1; 0; 1; 0; 0; 0; 0; 0; 1; 0; 1; 46; 83; 0; 0; 0; 0; 0; 10; 0; 0; 48; 10; 48; 8; 12; 3; 230; 184; 172; 2; 1; 1].
(* the valid 198-byte file small-wide with byte 29 (child_begin of the root) 1 -> 2:
   the root's range now ends with a leaf record (zero syllable in a non-first child) *)
Definition w_zero_syl : list N := [48; 129; 195; 12; 4; 67; 72; 69; 87; 2; 1; 0; 48; 10; 12; 0; 12; 0; 12; 0; 12; 0; 12; 0; 4; 104; 0; 0; 0; 2; 0; 4; 0; 0; 0; 0; 0; 5; 0; 1; 2; 8; 0; 0; 0; 6; 0; 1; 10; 139; 0; 0; 0; 7; 0; 2; 20; 136; 0; 0; 0; 9; 0; 2; 46; 83; 0; 0; 0; 0; 0; 10; 0; 0; 0; 0; 0; 10; 0; 10; 0; 0; 0; 0; 0; 20; 0; 10; 0; 0; 0; 0; 0; 11; 0; 1; 20; 136; 0; 0; 0; 30; 0; 10; 0; 0; 0; 0; 0; 12; 0; 1; 46; 83; 0; 0; 0; 40; 0; 13; 0; 0; 0; 0; 0; 53; 0; 13; 0; 0; 48; 66; 48; 8; 12; 3; 229; 155; 155; 2; 1; 1; 48; 8; 12; 3; 228; 184; 137; 2; 1; 1; 48; 8; 12; 3; 228; 186; 140; 2; 1; 1; 48; 8; 12; 3; 228; 184; 128; 2; 1; 1; 48; 11; 12; 6; 228; 186; 140; 228; 186; 140; 2; 1; 7; 48; 11; 12; 6; 228; 184; 128; 228; 184; 128; 2; 1; 7].

Definition is_ok {A} (o : outcome A) : bool := match o with Ok _ => true | _ => false end.
Definition get_trie (o : outcome trie) : trie :=
  match o with Ok t => t | _ => mkTrie (mkInfo [] [] [] [] []) [] [] end.

Lemma small_one_opens : is_ok (open w_small_one) = true.
Proof. vm_compute. reflexivity. Qed.

Lemma self_ref_accepted_unchecked : is_ok (open_unchecked w_self_ref) = true.
Proof. vm_compute. reflexivity. Qed.

Lemma self_ref_entries_out_of_fuel :
  entries (get_trie (open_unchecked w_self_ref)) = OutOfFuel.
Proof. vm_compute. reflexivity. Qed.

(* not an artefact of the stated fuel: forty times the fuel is not enough either *)
Lemma self_ref_entries_out_of_fuel_big :
  entries_leaves false 4000 (get_trie (open_unchecked w_self_ref)) = OutOfFuel.
Proof. vm_compute. reflexivity. Qed.

Lemma self_ref_rejected : open w_self_ref = Err 2.
Proof. vm_compute. reflexivity. Qed.

Lemma zero_syl_accepted_unchecked : is_ok (open_unchecked w_zero_syl) = true.
Proof. vm_compute. reflexivity. Qed.

Lemma zero_syl_entries_panic : entries (get_trie (open_unchecked w_zero_syl)) = Panic 358.
Proof. vm_compute. reflexivity. Qed.

Lemma zero_syl_rejected : open w_zero_syl = Err 2.
Proof. vm_compute. reflexivity. Qed.

(* a cyclic index: the root and two records with the same syllable all have the
   child range [1,3).  A query of k equal syllables creates 2^k threads. *)
Definition w_cyclic_recs : list rec := [(1, 2, 0); (1, 2, 11859); (1, 2, 11859)].
Definition w_cyclic : trie := mkTrie (mkInfo [] [] [] [] []) w_cyclic_recs [].

Lemma cyclic_lookup_exponential :
  snd (lookup_cost w_cyclic (repeat 11859 12) 0 STANDARD) = 8190 /\
  snd (lookup_cost w_cyclic (repeat 11859 16) 0 STANDARD) = 131070.
Proof. split; vm_compute; reflexivity. Qed.

Lemma cyclic_is_a_file :
  exists bytes, enc_file (mkInfo [] [] [] [] []) (enc_recs w_cyclic_recs) [] = Some bytes /\
                open_unchecked bytes = Ok w_cyclic /\ open bytes = Err 2.
Proof. eexists. split; [vm_compute; reflexivity|]. split; vm_compute; reflexivity. Qed.

Definition w_cyclic_bytes : list N :=
  match enc_file (mkInfo [] [] [] [] []) (enc_recs w_cyclic_recs) [] with Some b => b | None => [] end.

Definition all_bytes (l : list N) : bool := forallb (fun b => b <? 256) l.
Lemma all_bytes_ok l : all_bytes l = true -> Forall (fun b => b < 256) l.
Proof.
  unfold all_bytes. rewrite forallb_forall, Forall_forall. intros H x Hx. apply N.ltb_lt. auto.
Qed.

Lemma unvalidated_entries_panic :
  exists bytes t, Forall (fun b => b < 256) bytes /\ open_unchecked bytes = Ok t /\ entries t = Panic 358.
Proof.
  exists w_zero_syl, (get_trie (open_unchecked w_zero_syl)).
  split; [apply all_bytes_ok; vm_compute; reflexivity|]. split; vm_compute; reflexivity.
Qed.

Lemma unvalidated_entries_hang :
  exists bytes t, Forall (fun b => b < 256) bytes /\ open_unchecked bytes = Ok t /\ entries t = OutOfFuel /\
                  entries_leaves false 4000 t = OutOfFuel.
Proof.
  exists w_self_ref, (get_trie (open_unchecked w_self_ref)).
  split; [apply all_bytes_ok; vm_compute; reflexivity|]. split; [vm_compute; reflexivity|].
  split; vm_compute; reflexivity.
Qed.

Lemma unvalidated_lookup_exponential :
  exists bytes t, Forall (fun b => b < 256) bytes /\ open_unchecked bytes = Ok t /\
    snd (lookup_cost t (repeat 11859 12) 0 STANDARD) = 8190 /\
    snd (lookup_cost t (repeat 11859 16) 0 STANDARD) = 131070.
Proof.
  exists w_cyclic_bytes, w_cyclic.
  split; [apply all_bytes_ok; vm_compute; reflexivity|]. split; [vm_compute; reflexivity|].
  exact cyclic_lookup_exponential.
Qed.

Lemma witnesses_rejected :
  open w_self_ref = Err 2 /\ open w_zero_syl = Err 2 /\ open w_cyclic_bytes = Err 2.
Proof. split; [|split]; vm_compute; reflexivity. Qed.

(* ------------------------------------------------------------------ *)
(* C11: witnesses just outside the capacity guards of the round trip     *)

(* (1) a leaf of 65536 bytes: `data_len as u16` is 0, the reader then treats the
   leaf as corrupt and the lookup returns nothing although the phrase is in
   the builder *)
Definition w_big_phrase : phrase := mkPhrase (N.iter 65525 (cons 97) []) 5 None.
Definition w_big_tree : tnode := tinsert [11859] w_big_phrase tempty.
Definition MAXFIRST : N := 18446744073709551615.

(* at tree level the key has one phrase *)
Definition tlookup_len_one : bool :=
  match tleaf w_big_tree, tchildren w_big_tree with
  | None, [(11859, TNode (Some [p]) [])] => true
  | _, _ => false
  end.

Definition big_check : bool :=
  match write (mkInfo [] [] [] [] []) w_big_tree with
  | Ok bytes =>
    match open bytes with
    | Ok tr => match lookup tr [11859] MAXFIRST STANDARD with Ok [] => true | _ => false end
    | _ => false
    end
  | _ => false
  end.

Lemma big_check_true : big_check = true.
Proof. vm_compute. reflexivity. Qed.

Lemma big_leaf_size : option_map len_N (enc_phrases (sort_leaf [w_big_phrase])) = Some 65536.
Proof. vm_compute. reflexivity. Qed.

(* big_check = true says: write succeeds, open accepts the file, and the lookup of the
   inserted key returns the empty list *)
Lemma leaf_over_capacity_truncates :
  big_check = true /\
  option_map len_N (enc_phrases (sort_leaf [w_big_phrase])) = Some 65536 /\
  tlookup_len_one = true.
Proof. split; [exact big_check_true|]. split; [exact big_leaf_size|]. vm_compute. reflexivity. Qed.

(* (2) a leaf that mixes one-character and multi-character phrases of unusual byte
   lengths: the comparator of phrases.sort_by is not transitive there, so "the
   sorted leaf" is not defined by the comparator (Vec::sort_by may then return
   any order, or panic since Rust 1.81).  "a" (1 byte), U+20000 (4 bytes), "bc". *)
Definition w_p1 : phrase := mkPhrase [97] 0 None.
Definition w_p2 : phrase := mkPhrase [240; 160; 128; 128] 0 None.
Definition w_pm : phrase := mkPhrase [98; 99] 0 None.
Definition ple (a b : phrase) : bool := cmp_le (phrase_cmp a b).

Lemma mixed_leaf_comparator_not_transitive :
  ple w_p2 w_p1 = true /\ ple w_p1 w_pm = true /\ ple w_p2 w_pm = false.
Proof. repeat split; vm_compute; reflexivity. Qed.

(* the order of the written leaf then depends on the insertion order of the same set *)
Lemma mixed_leaf_order_depends_on_insertion :
  sort_leaf [w_p2; w_pm; w_p1] <> sort_leaf [w_p1; w_p2; w_pm] /\
  Permutation [w_p2; w_pm; w_p1] [w_p1; w_p2; w_pm].
Proof.
  split; [vm_compute; discriminate|].
  apply Permutation_sym.
  exact (Permutation_cons_append [w_p2; w_pm] w_p1).
Qed.
