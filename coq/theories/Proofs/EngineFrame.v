(* The conversion engine and the engine / lookup-strategy OPTIONS are never touched by a key event, a choice, a
   commit or a reset: only Editor::set_editor_options / set_conversion_engine write them.  Hence (Proofs/CapiEngine.v)
   after every sequence of C calls the engine chewing_config_get_int reports is the engine that converts - also after
   rejected values.  Stdlib only. *)
From Coq Require Import NArith List Bool Arith Lia.
From LC Require Import Base.Lib Gen.Editor_gen Model.Composition Model.Conversion Model.Editor Model.EditorRun
     Proofs.CompositionProofs Proofs.EditorInv.
Import ListNotations.
Open Scope nat_scope.

Section Frame.
Context {D SY : Type} (dops : dict_ops D) (sops : syl_ops SY) (conv : conv_fn D).
Notation shared' := (shared D SY).
Notation editor' := (editor D SY).

Implicit Types s : shared D SY.
Implicit Types e : editor D SY.

Ltac inv_ok H := inversion H; subst; clear H.
Ltac bind_ok H x Hx := apply obind_ok in H; destruct H as (x & Hx & H).
Ltac split_if H :=
  match type of H with
  | context[if ?c then _ else _] => let E := fresh "E" in destruct c eqn:E
  end.

(* the installed engine, the engine option, the lookup-strategy option *)
Definition ek s : engine_kind * engine_kind * bool := (engine s, o_engine (opts s), o_fuzzy (opts s)).

Lemma with_com_ek s r s' : with_com s r = Ok s' -> ek s' = ek s.
Proof. unfold with_com. intros H. bind_ok H c Hc. now inv_ok H. Qed.

Lemma switch_language_ek s : ek (switch_language s) = ek s.
Proof. reflexivity. Qed.
Lemma switch_form_ek s : ek (switch_form s) = ek s.
Proof. reflexivity. Qed.

Lemma commit_or_insert_ek s ch s' t : commit_or_insert s ch = Ok (s', t) -> ek s' = ek s.
Proof.
  unfold commit_or_insert. destruct (ce_is_empty (com s)); intros H; [now inv_ok H|].
  bind_ok H x Hx. inv_ok H. eapply with_com_ek; eassumption.
Qed.

Lemma entering_default_ek s ev s' t : entering_default sops s ev = Ok (s', t) -> ek s' = ek s.
Proof.
  intros H. unfold entering_default in H.
  destruct (negb (o_english (opts s))).
  - destruct (N.eqb (kcode ev) kc_Grave && mods_none ev); [now inv_ok H|].
    destruct (N.eqb (kcode ev) kc_Space).
    { destruct (negb (o_fullwidth (opts s))); [eapply commit_or_insert_ek; eassumption|].
      destruct (full_width_symbol_input (kunicode ev)); [eapply commit_or_insert_ek; eassumption | discriminate]. }
    destruct (o_easy_symbol (opts s)).
    { destruct (assoc (kunicode ev) (abbr s)).
      - bind_ok H c Hc. now inv_ok H.
      - destruct (special_symbol_input (kunicode ev)).
        + bind_ok H s1 H1. inv_ok H. eapply with_com_ek; eassumption.
        + destruct (mods_none ev).
          * destruct (so_key_press sops (syl s) ev) as [sy kb]. destruct kb; now inv_ok H.
          * now inv_ok H. }
    set (pressed := if mods_none ev then Some (so_key_press sops (syl s) ev) else None) in *.
    destruct pressed as [[sy kb]|].
    + destruct kb; try (now inv_ok H);
      (destruct (special_symbol_input (kunicode ev));
       [bind_ok H s1 H1; inv_ok H; change (ek s) with (ek (set_syl s sy)); eapply with_com_ek; eassumption|];
       destruct (is_printable ev); [|now inv_ok H];
       destruct (negb (o_fullwidth (opts s)));
       [change (ek s) with (ek (set_syl s sy)); eapply commit_or_insert_ek; eassumption|];
       destruct (full_width_symbol_input (kunicode ev)); [|discriminate];
       change (ek s) with (ek (set_syl s sy)); eapply commit_or_insert_ek; eassumption).
    + destruct (special_symbol_input (kunicode ev));
       [bind_ok H s1 H1; inv_ok H; eapply with_com_ek; eassumption|].
      destruct (is_printable ev); [|now inv_ok H].
      destruct (negb (o_fullwidth (opts s))); [eapply commit_or_insert_ek; eassumption|].
      destruct (full_width_symbol_input (kunicode ev)); [eapply commit_or_insert_ek; eassumption | discriminate].
  - destruct (negb (o_fullwidth (opts s))); [eapply commit_or_insert_ek; eassumption|].
    destruct (full_width_symbol_input (kunicode ev)); [eapply commit_or_insert_ek; eassumption | now inv_ok H].
Qed.

Lemma learn_phrase_ek s k t s' ok : learn_phrase dops s k t = Ok (s', ok) -> ek s' = ek s.
Proof.
  unfold learn_phrase. intros H. split_if H; [now inv_ok H|].
  destruct (do_lookup dops (dict s) false k) as [|p ps].
  - destruct (do_add dops (dict s) k t 1%N). now inv_ok H.
  - bind_ok H uf Hu. now inv_ok H.
Qed.

Lemma learn_in_range_ek s a b s' ok : learn_in_range dops conv s a b = Ok (s', ok) -> ek s' = ek s.
Proof.
  unfold learn_in_range. intros H.
  split_if H; [now inv_ok H|]. split_if H; [discriminate|]. split_if H; [now inv_ok H|]. split_if H; [now inv_ok H|].
  destruct (do_add dops (dict s) _ _ 100%N) as [d' okk]. destruct okk; now inv_ok H.
Qed.

Lemma new_selecting_ek s s' st' :
  (new_phrase_selecting dops s = Ok (s', st') \/ new_phrase_selecting_simple s = Ok (s', st') \/
   exists sym, new_special_selecting s sym = Ok (s', st')) -> ek s' = ek s.
Proof.
  intros [H|[H|(sym & H)]].
  - unfold new_phrase_selecting in H. bind_ok H p Hp. now inv_ok H.
  - unfold new_phrase_selecting_simple in H. bind_ok H p Hp. now inv_ok H.
  - unfold new_special_selecting in H. bind_ok H m Hm. destruct m; now inv_ok H.
Qed.

Lemma start_selecting_common_ek s f s' t : start_selecting_common dops s f = Ok (s', t) ->
  (s', t) = f s \/ ek s' = ek s.
Proof.
  unfold start_selecting_common. destruct (ce_symbol_for_select (com s)) as [sym|].
  - destruct (is_syllable sym); intros H; bind_ok H r Hr; destruct r as [s1 st1]; cbn [fst snd] in H; injection H as Hs Ht; subst s' t; right;
    eapply new_selecting_ek; eauto.
  - intros H. inv_ok H. now left.
Qed.

Lemma auto_learn_go_ek syms : forall ivs s pending psyl s',
  auto_learn_go dops s syms ivs pending psyl = Ok s' -> ek s' = ek s.
Proof.
  induction ivs as [|iv rest IH]; intros s pending psyl s' H; cbn [auto_learn_go] in H.
  - destruct pending; [now inv_ok H|]. bind_ok H r Hr. destruct r as [s1 ok]. inv_ok H. cbn [fst].
    eapply learn_phrase_ek; eassumption.
  - split_if H; [discriminate|]. split_if H; [discriminate|].
    split_if H; [eapply IH; eassumption|].
    bind_ok H s1 H1. bind_ok H s2 H2. rewrite (IH _ _ _ _ H).
    assert (C1 : ek s1 = ek s).
    { destruct pending; [now inv_ok H1|]. bind_ok H1 r Hr. destruct r as [sx ok]. inv_ok H1. cbn [fst]. eapply learn_phrase_ek; eassumption. }
    assert (C2 : ek s2 = ek s1).
    { destruct (iphrase iv); [|now inv_ok H2]. bind_ok H2 r Hr. destruct r as [sx ok]. inv_ok H2. cbn [fst]. eapply learn_phrase_ek; eassumption. }
    congruence.
Qed.

Lemma commit_ek s s' : commit dops conv s = Ok s' -> ek s' = ek s.
Proof.
  unfold commit. intros H. bind_ok H s1 H1. inv_ok H.
  assert (E : ek s1 = ek s).
  { destruct (o_no_learn (opts s)); [now inv_ok H1|]. unfold auto_learn in H1. eapply auto_learn_go_ek; eassumption. }
  rewrite <- E. reflexivity.
Qed.

Lemma entering_next_ek s ev s' t : entering_next dops sops conv s ev = Ok (s', t) -> ek s' = ek s.
Proof.
  intros H. unfold entering_next in H.
  split_if H.
  { split_if H; [now inv_ok H|]. bind_ok H s1 H1. inv_ok H. eapply with_com_ek; eassumption. }
  split_if H; [now inv_ok H|].
  split_if H.
  { split_if H; [now inv_ok H|].
    split_if H.
    - bind_ok H r Hr. destruct r as [s1 ok]. inv_ok H. cbn [fst]. eapply learn_in_range_ek; eassumption.
    - split_if H.
      + bind_ok H r Hr. destruct r as [s1 ok]. inv_ok H. cbn [fst]. eapply learn_in_range_ek; eassumption.
      + now inv_ok H. }
  split_if H; [now inv_ok H|].
  split_if H.
  { split_if H; [now inv_ok H|].
    split_if H; bind_ok H s1 H1; inv_ok H; eapply with_com_ek; eassumption. }
  split_if H.
  { split_if H; [now inv_ok H|]. bind_ok H s1 H1. inv_ok H. eapply with_com_ek; eassumption. }
  split_if H; [now inv_ok H|].
  split_if H; [split_if H; now inv_ok H|].
  split_if H; [split_if H; now inv_ok H|].
  split_if H; [now inv_ok H|].
  split_if H; [now inv_ok H|].
  split_if H; [now inv_ok H|].
  split_if H; [now inv_ok H|].
  split_if H.
  { destruct (start_selecting_common_ek _ _ _ _ H) as [K|K]; [|exact K]. cbv beta in K.
    destruct (ce_is_empty (com s)); now inv_ok K. }
  split_if H.
  { destruct (start_selecting_common_ek _ _ _ _ H) as [K|K]; [|exact K]. cbv beta in K. now inv_ok K. }
  split_if H; [now inv_ok H|].
  split_if H; [bind_ok H s1 H1; inv_ok H; eapply commit_ek; eassumption|].
  split_if H; [split_if H; now inv_ok H|].
  split_if H; [eapply commit_or_insert_ek; eassumption|].
  eapply entering_default_ek; eassumption.
Qed.

Lemma entering_syllable_next_ek s ev s' t : entering_syllable_next dops sops s ev = Ok (s', t) -> ek s' = ek s.
Proof.
  intros H. unfold entering_syllable_next in H.
  split_if H; [split_if H; now inv_ok H|].
  split_if H; [now inv_ok H|].
  split_if H; [split_if H; now inv_ok H|].
  destruct (if o_fuzzy (opts s) then so_fuzzy_key_press sops (syl s) ev else so_key_press sops (syl s) ev) as [sy kb].
  destruct kb as [| | | | | | |code]; try (now inv_ok H).
  - split_if H; [|now inv_ok H]. bind_ok H s2 H2.
    assert (S2 : ek s2 = ek s) by (change (ek s) with (ek (set_syl s sy)); eapply with_com_ek; eassumption).
    destruct (o_engine _).
    + bind_ok H r Hr. destruct r as [s3 st3]. cbn [fst snd] in H. injection H as Hs Ht. subst s' t.
      rewrite (new_selecting_ek _ s3 st3 (or_intror (or_introl Hr))). unfold ek in *. cbn [engine opts set_syl] in *. exact S2.
    + inv_ok H. unfold ek in *. cbn [engine opts set_syl] in *. exact S2.
    + inv_ok H. unfold ek in *. cbn [engine opts set_syl] in *. exact S2.
  - split_if H; [bind_ok H s2 H2|]; inv_ok H; [|reflexivity].
    change (ek s) with (ek (set_syl s sy)). eapply with_com_ek; eassumption.
Qed.

Lemma highlighting_next_ek s ev mv s' t mv' : highlighting_next dops conv s ev mv = Ok (s', t, mv') -> ek s' = ek s.
Proof.
  intros H. unfold highlighting_next in H.
  split_if H; [now inv_ok H|]. split_if H; [now inv_ok H|]. split_if H; [now inv_ok H|].
  split_if H; [|now inv_ok H].
  bind_ok H r Hr. destruct r as [s1 ok]. inv_ok H. cbn [fst]. now rewrite (learn_in_range_ek _ _ _ _ _ Hr).
Qed.

Lemma selecting_select_offset_ek s pg act sel n s' t pg' sel' :
  selecting_select_offset dops sops s pg act sel n = Ok (s', t, pg', sel') -> ek s' = ek s.
Proof.
  intros H. unfold selecting_select_offset in H. destruct sel as [p|y|sym0].
  - bind_ok H cands Hc. destruct (nth_error cands _); [bind_ok H c1 H1|]; now inv_ok H.
  - destruct (Nat.leb _ _); [now inv_ok H|].
    bind_ok H r Hr. destruct r as [y' res]. destruct res; [bind_ok H c1 H1|]; now inv_ok H.
  - bind_ok H m Hm. destruct (Nat.leb _ _); [now inv_ok H|].
    bind_ok H res Hr. destruct res; [bind_ok H c1 H1|]; now inv_ok H.
Qed.

Lemma selecting_next_ek s ev pg act sel s' t pg' sel' :
  selecting_next dops sops s ev pg act sel = Ok (s', t, pg', sel') -> ek s' = ek s.
Proof.
  intros H. unfold selecting_next in H. cbv zeta in H.
  split_if H; [now inv_ok H|].
  split_if H; [now inv_ok H|].
  split_if H; [now inv_ok H|].
  split_if H; [now inv_ok H|].
  split_if H.
  { bind_ok H tp Htp. split_if H; [now inv_ok H|].
    destruct sel as [p|y|sym0]; [bind_ok H p' Hp'|..]; now inv_ok H. }
  split_if H; [split_if H; [now inv_ok H|]; bind_ok H sel1 Hs1; now inv_ok H|].
  split_if H; [split_if H; [now inv_ok H|]; bind_ok H sel1 Hs1; now inv_ok H|].
  split_if H; [split_if H; [now inv_ok H|]; bind_ok H tp Htp; now inv_ok H|].
  split_if H; [bind_ok H tp Htp; split_if H; now inv_ok H|].
  split_if H; [eapply selecting_select_offset_ek; exact H|].
  split_if H; [now inv_ok H|].
  split_if H; now inv_ok H.
Qed.

Lemma try_auto_commit_ek s s' : try_auto_commit conv s = Ok s' -> ek s' = ek s.
Proof.
  unfold try_auto_commit. intros H. split_if H; [now inv_ok H|].
  bind_ok H r Hr. destruct r as [buf rm]. bind_ok H c Hc. now inv_ok H.
Qed.

Lemma flush_dirty_ek s : ek (flush_dirty s) = ek s.
Proof. unfold flush_dirty. destruct (N.ltb 0 (dirty s)); reflexivity. Qed.

Lemma apply_transition_ek s old t : ek (fst (apply_transition s old t)) = ek s.
Proof. destruct t; reflexivity. Qed.

(* a key event never touches the engine nor the engine / lookup-strategy options *)
Theorem process_keyevent_ek e ev e' b : process_keyevent dops sops conv e ev = Ok (e', b) -> ek (sh e') = ek (sh e).
Proof.
  intros H. unfold process_keyevent in H.
  set (s0 := set_notice (set_lifetime (sh e) (lifetime (sh e) + 1)%N) []) in *.
  set (s1 := set_commit s0 []) in *.
  assert (E1 : ek s1 = ek (sh e)) by reflexivity.
  bind_ok H r Hr. destruct r as [s2 st2]. bind_ok H s3 H3. injection H as He Hb. subst e'. cbn [sh].
  rewrite flush_dirty_ek.
  assert (K : ek s2 = ek (sh e)).
  { rewrite <- E1. destruct (st e) as [| |pg act sel|mv].
    - bind_ok Hr r Hr1. destruct r as [sa ta]. cbn [fst snd] in Hr. injection Hr as Hap.
      rewrite <- (entering_next_ek _ _ _ _ Hr1). rewrite <- (apply_transition_ek sa Entering ta). now rewrite Hap.
    - bind_ok Hr r Hr1. destruct r as [sa ta]. cbn [fst snd] in Hr. injection Hr as Hap.
      rewrite <- (entering_syllable_next_ek _ _ _ _ Hr1). rewrite <- (apply_transition_ek sa EnteringSyllable ta). now rewrite Hap.
    - bind_ok Hr r Hr1. destruct r as [[[sa ta] pg'] sel']. injection Hr as Hap.
      rewrite <- (selecting_next_ek _ _ _ _ _ _ _ _ _ Hr1). rewrite <- (apply_transition_ek sa (Selecting pg' act sel') ta). now rewrite Hap.
    - bind_ok Hr r Hr1. destruct r as [[sa ta] mv']. injection Hr as Hap.
      rewrite <- (highlighting_next_ek _ _ _ _ _ _ Hr1). rewrite <- (apply_transition_ek sa (Highlighting mv') ta). now rewrite Hap. }
  destruct (is_entering st2 && behavior_eqb (last s2) BAbsorb).
  - rewrite (try_auto_commit_ek _ _ H3). exact K.
  - inv_ok H3. exact K.
Qed.

Lemma fst_ok_inv' {A B} (r : outcome (A * B)) a : fst_ok r = Ok a -> exists b, r = Ok (a, b).
Proof. unfold fst_ok. destruct r as [[x y]| | |]; intros H; inv_ok H. eauto. Qed.

Lemma clamp_page_sh e e' : clamp_page dops sops e = Ok e' -> sh e' = sh e.
Proof.
  unfold clamp_page. intros H. destruct (st e) as [| |pg act sel|mv]; try (now inv_ok H).
  split_if H; [now inv_ok H|]. bind_ok H tp Htp. now inv_ok H.
Qed.

Definition writes_engine (o : op) : Prop := match o with OpSetOptions _ | OpSetEngine _ => True | _ => False end.

(* no public operation other than set_editor_options / set_conversion_engine touches them either *)
Theorem step_ek e o e' : ~ writes_engine o -> step dops sops conv e o = Ok e' -> ek (sh e') = ek (sh e).
Proof.
  intros Hw H. destruct o; cbn [step writes_engine] in *; try (exfalso; now apply Hw).
  - apply fst_ok_inv' in H as (b & H). eapply process_keyevent_ek; eassumption.
  - apply fst_ok_inv' in H as (b & H). unfold ed_select in H.
    destruct (st e) as [| |pg act sel|mv]; try (now inv_ok H).
    bind_ok H r Hr. destruct r as [[[s2 t] pg'] sel'].
    destruct (apply_transition s2 (Selecting pg' act sel') t) as [s3 st3] eqn:Ea.
    bind_ok H s4 H4. inv_ok H. cbn [sh].
    assert (K : ek s3 = ek (sh e)).
    { rewrite <- (selecting_select_offset_ek _ _ _ _ _ _ _ _ _ Hr). rewrite <- (apply_transition_ek s2 (Selecting pg' act sel') t). now rewrite Ea. }
    destruct (is_entering st3 && behavior_eqb (last s3) BAbsorb); [rewrite (try_auto_commit_ek _ _ H4); exact K | inv_ok H4; exact K].
  - inv_ok H. unfold ed_cancel_selecting. destruct (is_selecting (st e)); reflexivity.
  - apply fst_ok_inv' in H as (b & H). unfold ed_start_selecting in H. bind_ok H r Hr.
    destruct (apply_transition (fst r) (st e) (snd r)) as [s2 st2] eqn:Ea. inv_ok H. cbn [sh].
    assert (K : ek s2 = ek (fst r)) by (rewrite <- (apply_transition_ek (fst r) (st e) (snd r)); now rewrite Ea).
    rewrite K. destruct r as [sa ta]. cbn [fst]. destruct (st e).
    + destruct (start_selecting_common_ek _ _ _ _ Hr) as [K2|K2]; [now inv_ok K2 | exact K2].
    + destruct (start_selecting_common_ek _ _ _ _ Hr) as [K2|K2]; [now inv_ok K2 | exact K2].
    + now inv_ok Hr.
    + now inv_ok Hr.
  - apply fst_ok_inv' in H as (b & H). unfold ed_commit in H. split_if H; [now inv_ok H|].
    bind_ok H s1 H1. inv_ok H. cbn [sh]. eapply commit_ek; eassumption.
  - inv_ok H. reflexivity.
  - inv_ok H. reflexivity.
  - inv_ok H. reflexivity.
  - apply fst_ok_inv' in H as (b & H). unfold ed_jump_next, with_phrase_sel in H.
    destruct (st e) as [| |pg act [p|y|sy]|mv]; try (now inv_ok H). bind_ok H r Hr. destruct r; now inv_ok H.
  - apply fst_ok_inv' in H as (b & H). unfold ed_jump_prev, with_phrase_sel in H.
    destruct (st e) as [| |pg act [p|y|sy]|mv]; try (now inv_ok H). bind_ok H r Hr. destruct r; now inv_ok H.
  - apply fst_ok_inv' in H as (b & H). unfold ed_jump_first, with_phrase_sel in H.
    destruct (st e) as [| |pg act [p|y|sy]|mv]; try (now inv_ok H). bind_ok H r Hr. destruct r; now inv_ok H.
  - apply fst_ok_inv' in H as (b & H). unfold ed_jump_last, with_phrase_sel in H.
    destruct (st e) as [| |pg act [p|y|sy]|mv]; try (now inv_ok H). bind_ok H r Hr. destruct r; now inv_ok H.
  - apply fst_ok_inv' in H as (b & H). unfold ed_learn_c in H. bind_ok H r Hr. bind_ok H e1 H1. inv_ok H.
    rewrite (clamp_page_sh _ _ H1). unfold ed_learn in Hr. bind_ok Hr r1 Hr1. inv_ok Hr. destruct r1 as [s1 ok]. cbn [fst sh].
    eapply learn_phrase_ek; eassumption.
  - unfold ed_unlearn_c in H. rewrite (clamp_page_sh _ _ H). reflexivity.
  - unfold ed_set_layout in H. rewrite (clamp_page_sh _ _ H). reflexivity.
Qed.

End Frame.
