(* Base library: finite sweeps over N with proved specifications, small list
   helpers.  Stdlib only. *)
From Coq Require Import NArith List Bool Lia.
Import ListNotations.
Open Scope N_scope.

Arguments N.add : simpl never.
Arguments N.sub : simpl never.
Arguments N.mul : simpl never.
Arguments N.eqb : simpl never.
Arguments N.ltb : simpl never.
Arguments N.leb : simpl never.
Arguments N.land : simpl never.
Arguments N.lor : simpl never.
Arguments N.shiftl : simpl never.
Arguments N.shiftr : simpl never.

(* ------------------------------------------------------------------ *)
(* forall_below n p  =  p 0 && p 1 && ... && p (n-1), evaluated with an
   N counter (no nat of data-dependent size, no list materialised). *)

Definition fb_step (p : N -> bool) (st : N * bool) : N * bool :=
  let '(i, acc) := st in (N.succ i, acc && p i).

Definition forall_below (n : N) (p : N -> bool) : bool :=
  snd (N.iter n (fb_step p) (0, true)).

Lemma fb_iter_fst p n : fst (N.iter n (fb_step p) (0, true)) = n.
Proof.
  induction n using N.peano_ind.
  - reflexivity.
  - rewrite N.iter_succ. destruct (N.iter n (fb_step p) (0, true)) as [i acc].
    cbn [fb_step fst] in *. now subst.
Qed.

Lemma forall_below_spec n p :
  forall_below n p = true <-> (forall i, i < n -> p i = true).
Proof.
  unfold forall_below.
  induction n using N.peano_ind.
  - cbn. split; [intros _ i Hi; lia | reflexivity].
  - rewrite N.iter_succ.
    pose proof (fb_iter_fst p n) as Hf.
    destruct (N.iter n (fb_step p) (0, true)) as [i acc].
    cbn [fst snd fb_step] in *. subst i.
    rewrite andb_true_iff, IHn. split.
    + intros [Hall Hn] i Hi.
      destruct (N.eq_dec i n) as [->|Hne]; [exact Hn | apply Hall; lia].
    + intros H. split; [intros i Hi; apply H; lia | apply H; lia].
Qed.

Lemma forall_below_true n p :
  forall_below n p = true -> forall i, i < n -> p i = true.
Proof. apply forall_below_spec. Qed.

(* first counter-example below n, if any (the counter-example finder that
   accompanies every sweep theorem) *)
Definition fe_step (p : N -> bool) (st : N * option N) : N * option N :=
  let '(i, acc) := st in
  (N.succ i, match acc with Some _ => acc | None => if p i then None else Some i end).

Definition first_failure_below (n : N) (p : N -> bool) : option N :=
  snd (N.iter n (fe_step p) (0, None)).

(* ------------------------------------------------------------------ *)
(* list helpers *)

Fixpoint list_eqb {A} (eqb : A -> A -> bool) (l1 l2 : list A) : bool :=
  match l1, l2 with
  | [], [] => true
  | a :: l1', b :: l2' => eqb a b && list_eqb eqb l1' l2'
  | _, _ => false
  end.

Lemma list_eqb_N_spec (l1 l2 : list N) : list_eqb N.eqb l1 l2 = true <-> l1 = l2.
Proof.
  revert l2; induction l1 as [|a l1 IH]; intros [|b l2]; cbn [list_eqb]; split; intro H;
    try reflexivity; try discriminate.
  - apply andb_true_iff in H as [Hab Hl]. apply N.eqb_eq in Hab. apply IH in Hl. now subst.
  - inversion H; subst. apply andb_true_iff. split; [apply N.eqb_refl | now apply IH].
Qed.

Definition option_eqb {A} (eqb : A -> A -> bool) (o1 o2 : option A) : bool :=
  match o1, o2 with
  | None, None => true
  | Some a, Some b => eqb a b
  | _, _ => false
  end.

Lemma option_eqb_N_spec (o1 o2 : option N) : option_eqb N.eqb o1 o2 = true <-> o1 = o2.
Proof.
  destruct o1 as [a|], o2 as [b|]; cbn; split; intro H; try reflexivity; try discriminate.
  - apply N.eqb_eq in H. now subst.
  - inversion H. apply N.eqb_refl.
Qed.

(* association lists keyed by N *)
Fixpoint assoc {A} (k : N) (l : list (N * A)) : option A :=
  match l with
  | [] => None
  | (k', v) :: l' => if N.eqb k k' then Some v else assoc k l'
  end.

Definition nth_N {A} (l : list A) (i : N) : option A := nth_error l (N.to_nat i).

Definition len_N {A} (l : list A) : N := N.of_nat (length l).

Fixpoint index_of (x : N) (l : list N) (i : N) : option N :=
  match l with
  | [] => None
  | y :: l' => if N.eqb x y then Some i else index_of x l' (N.succ i)
  end.

Definition memN (x : N) (l : list N) : bool := existsb (N.eqb x) l.

Lemma memN_In x l : memN x l = true <-> In x l.
Proof.
  unfold memN. rewrite existsb_exists. split.
  - intros [y [Hy He]]. apply N.eqb_eq in He. now subst.
  - intros H. exists x. split; [assumption | apply N.eqb_refl].
Qed.

(* range 0 .. n-1 as a list (small n only) *)
Fixpoint range_nat (n : nat) : list N :=
  match n with
  | O => []
  | S k => range_nat k ++ [N.of_nat k]
  end.

Lemma range_nat_In n x : In x (range_nat n) <-> x < N.of_nat n.
Proof.
  induction n as [|k IH]; cbn [range_nat].
  - split; [intros [] | lia].
  - rewrite in_app_iff, IH. cbn [In]. split.
    + intros [H|[H|[]]]; lia.
    + intros H. destruct (N.eq_dec x (N.of_nat k)); [right; left; now subst | left; lia].
Qed.

(* outcome type shared by models of code that can panic or loop *)
Inductive outcome (A : Type) : Type :=
| Ok (a : A)
| Err (code : N)        (* an error value returned to the caller *)
| Panic (site : N)      (* a Rust panic / abort, numbered by site *)
| OutOfFuel.
Arguments Ok {A} a.
Arguments Err {A} code.
Arguments Panic {A} site.
Arguments OutOfFuel {A}.
