(* Text: strings as lists of Unicode scalar values (N) and their UTF-8 byte
   encoding.  Validity of a byte string is what Rust's str::from_utf8 accepts
   (Unicode table 3-7: no overlong forms, no surrogates, at most U+10FFFF),
   written as a deterministic automaton over bytes so that validity
   distributes over concatenation and over cuts at character boundaries.
   Executable definitions first, then their basic theory (this is a Base
   file: both live here).  Stdlib only. *)
From Coq Require Import NArith PeanoNat List Bool Lia.
From LC Require Import Base.Lib.
Import ListNotations.
Open Scope N_scope.

(* ------------------------------------------------------------------ *)
(* definitions *)

Inductive ustate : Type :=
| U0        (* between characters *)
| UT1       (* one continuation byte 80..BF missing *)
| UT2       (* two missing *)
| UT3       (* three missing *)
| UE0       (* after E0: next must be A0..BF, then one more *)
| UED       (* after ED: next must be 80..9F, then one more *)
| UF0       (* after F0: next must be 90..BF, then two more *)
| UF4       (* after F4: next must be 80..8F, then two more *)
| UBad.

Definition in_rng (lo hi b : N) : bool := (lo <=? b) && (b <=? hi).

Definition ustep (s : ustate) (b : N) : ustate :=
  match s with
  | U0 =>
      if b <? 128 then U0
      else if in_rng 194 223 b then UT1
      else if b =? 224 then UE0
      else if in_rng 225 236 b then UT2
      else if b =? 237 then UED
      else if in_rng 238 239 b then UT2
      else if b =? 240 then UF0
      else if in_rng 241 243 b then UT3
      else if b =? 244 then UF4
      else UBad
  | UT1 => if in_rng 128 191 b then U0 else UBad
  | UT2 => if in_rng 128 191 b then UT1 else UBad
  | UT3 => if in_rng 128 191 b then UT2 else UBad
  | UE0 => if in_rng 160 191 b then UT1 else UBad
  | UED => if in_rng 128 159 b then UT1 else UBad
  | UF0 => if in_rng 144 191 b then UT2 else UBad
  | UF4 => if in_rng 128 143 b then UT2 else UBad
  | UBad => UBad
  end.

Definition urun (s : ustate) (bs : list N) : ustate := fold_left ustep bs s.

Definition is_U0 (s : ustate) : bool := match s with U0 => true | _ => false end.

(* str::from_utf8(bs).is_ok() *)
Definition utf8_valid (bs : list N) : bool := is_U0 (urun U0 bs).

(* continuation byte 10xxxxxx *)
Definition is_cont (b : N) : bool := in_rng 128 191 b.

(* str::is_char_boundary(i) on the bytes of a str: i = 0, i = len, or the
   byte at i is not a continuation byte; false beyond the end *)
Definition is_char_boundary (bs : list N) (i : nat) : bool :=
  match i with
  | O => true
  | _ => match nth_error bs i with
         | Some b => negb (is_cont b)
         | None => Nat.eqb i (length bs)
         end
  end.

(* the largest char boundary <= i  (the loop `while !s.is_char_boundary(n) { n -= 1 }`) *)
Fixpoint floor_char_boundary (bs : list N) (i : nat) : nat :=
  if is_char_boundary bs i then i
  else match i with O => O | S k => floor_char_boundary bs k end.

(* char::encode_utf8 for a Unicode scalar value *)
Definition is_scalar (c : N) : bool := (c <? 55296) || ((57343 <? c) && (c <? 1114112)).

Definition utf8_encode_char (c : N) : list N :=
  if c <? 128 then [c]
  else if c <? 2048 then [192 + c / 64; 128 + c mod 64]
  else if c <? 65536 then [224 + c / 4096; 128 + (c / 64) mod 64; 128 + c mod 64]
  else [240 + c / 262144; 128 + (c / 4096) mod 64; 128 + (c / 64) mod 64; 128 + c mod 64].

Definition utf8_encode (cs : list N) : list N := flat_map utf8_encode_char cs.

(* C view of a byte buffer: the bytes before the first NUL; whether there is one *)
Fixpoint c_str (buf : list N) : list N :=
  match buf with
  | [] => []
  | b :: r => if b =? 0 then [] else b :: c_str r
  end.

Definition has_nul (buf : list N) : bool := existsb (N.eqb 0) buf.

Definition no_nul (bs : list N) : bool := forallb (fun b => negb (b =? 0)) bs.

(* ------------------------------------------------------------------ *)
(* theory *)

Lemma urun_app s a b : urun s (a ++ b) = urun (urun s a) b.
Proof. unfold urun. apply fold_left_app. Qed.

Lemma urun_bad bs : urun UBad bs = UBad.
Proof. induction bs as [|b r IH]; [reflexivity | exact IH]. Qed.

(* every state other than U0 sends a non-continuation byte to UBad *)
Lemma ustep_noncont s b : s <> U0 -> is_cont b = false -> ustep s b = UBad.
Proof.
  intros Hs Hc. unfold is_cont, in_rng in Hc.
  destruct s; try contradiction; cbn [ustep]; unfold in_rng; try reflexivity;
    repeat match goal with |- context [if ?c then _ else _] => destruct c eqn:? end;
    try reflexivity; exfalso;
    repeat match goal with
           | H : (_ && _) = true |- _ => apply andb_true_iff in H; destruct H
           | H : (_ && _) = false |- _ => apply andb_false_iff in H
           | H : (_ <=? _) = true |- _ => apply N.leb_le in H
           | H : (_ <=? _) = false |- _ => apply N.leb_gt in H
           end;
    repeat match goal with H : _ \/ _ |- _ => destruct H end;
    repeat match goal with
           | H : (_ <=? _) = true |- _ => apply N.leb_le in H
           | H : (_ <=? _) = false |- _ => apply N.leb_gt in H
           end; lia.
Qed.

(* In a valid string the automaton is between characters exactly at the char
   boundaries: cutting a valid string at a char boundary leaves a valid string. *)
Lemma skipn_nth_error {A} (l : list A) i b :
  nth_error l i = Some b -> skipn i l = b :: skipn (S i) l.
Proof.
  revert i; induction l as [|a l IH]; intros [|i] H; try discriminate.
  - cbn in H. inversion H; subst. reflexivity.
  - cbn [nth_error] in H. cbn [skipn]. rewrite (IH i H). reflexivity.
Qed.

Lemma valid_cut_boundary bs i :
  utf8_valid bs = true -> is_char_boundary bs i = true -> utf8_valid (firstn i bs) = true.
Proof.
  unfold utf8_valid. intros Hv Hb.
  destruct i as [|k]; [reflexivity|].
  cbn [is_char_boundary] in Hb.
  destruct (nth_error bs (S k)) as [b|] eqn:Hn.
  - (* byte at the cut is not a continuation byte *)
    apply negb_true_iff in Hb.
    rewrite <- (firstn_skipn (S k) bs) in Hv. rewrite urun_app in Hv.
    rewrite (skipn_nth_error _ _ _ Hn) in Hv.
    destruct (urun U0 (firstn (S k) bs)) eqn:Hq; try reflexivity; exfalso;
      unfold urun in Hv; cbn [fold_left] in Hv;
      (rewrite ustep_noncont in Hv by (assumption || discriminate));
      fold (urun UBad (skipn (S (S k)) bs)) in Hv; rewrite urun_bad in Hv; discriminate.
  - apply Nat.eqb_eq in Hb. rewrite Hb, firstn_all. exact Hv.
Qed.

Lemma floor_char_boundary_le bs i : (floor_char_boundary bs i <= i)%nat.
Proof.
  induction i as [|k IH]; cbn [floor_char_boundary].
  - destruct (is_char_boundary bs 0); lia.
  - destruct (is_char_boundary bs (S k)); lia.
Qed.

Lemma floor_char_boundary_is bs i : is_char_boundary bs (floor_char_boundary bs i) = true.
Proof.
  induction i as [|k IH]; cbn [floor_char_boundary].
  - reflexivity.
  - destruct (is_char_boundary bs (S k)) eqn:H; [exact H | exact IH].
Qed.

Lemma floor_char_boundary_id bs i : is_char_boundary bs i = true -> floor_char_boundary bs i = i.
Proof. intros H. destruct i; cbn [floor_char_boundary]; now rewrite H. Qed.

(* a char is at most 4 bytes, so the floor is less than 4 bytes below i on valid text;
   stated in the weak form the bounds need: it never drops below i-3 when i <= length *)

(* c_str / has_nul *)
Lemma c_str_app_nul a r : no_nul a = true -> c_str (a ++ 0 :: r) = a.
Proof.
  induction a as [|b a IH]; intros H; cbn [app c_str].
  - reflexivity.
  - cbn [no_nul forallb] in H. apply andb_true_iff in H as [Hb Ha].
    apply negb_true_iff in Hb. rewrite Hb. f_equal. now apply IH.
Qed.

Lemma c_str_no_nul a : no_nul a = true -> c_str a = a.
Proof.
  induction a as [|b a IH]; intros H; cbn [c_str]; [reflexivity|].
  cbn [no_nul forallb] in H. apply andb_true_iff in H as [Hb Ha].
  apply negb_true_iff in Hb. rewrite Hb. f_equal. now apply IH.
Qed.

Lemma has_nul_app a b : has_nul (a ++ b) = has_nul a || has_nul b.
Proof. unfold has_nul. apply existsb_app. Qed.

Lemma no_nul_has_nul a : no_nul a = true -> has_nul a = false.
Proof.
  induction a as [|b a IH]; intros H; [reflexivity|].
  cbn [no_nul forallb] in H. apply andb_true_iff in H as [Hb Ha].
  apply negb_true_iff in Hb. cbn [has_nul existsb].
  rewrite N.eqb_sym, Hb. now apply IH.
Qed.

Lemma no_nul_firstn n a : no_nul a = true -> no_nul (firstn n a) = true.
Proof.
  revert n; induction a as [|b a IH]; intros [|n] H; try reflexivity.
  cbn [no_nul forallb firstn] in *. apply andb_true_iff in H as [Hb Ha].
  rewrite Hb. now apply IH.
Qed.

(* encoding: every scalar value encodes to a valid 1..4 byte sequence without NUL
   (except U+0000 itself) - complete sweep of the 1114112 code points *)
Definition enc_ok (c : N) (e : list N) : bool :=
  utf8_valid e && (N.of_nat (length e) <=? 4) && (1 <=? N.of_nat (length e))
  && ((c =? 0) || no_nul e) && forallb (fun b => b <? 256) e.

Definition enc_char_ok (c : N) : bool :=
  if is_scalar c then enc_ok c (utf8_encode_char c) else true.

Lemma enc_char_sweep : forall_below 1114112 enc_char_ok = true.
Proof. vm_cast_no_check (eq_refl true). Qed.

Lemma is_scalar_lt c : is_scalar c = true -> c < 1114112.
Proof.
  unfold is_scalar. intros H. apply orb_true_iff in H as [H|H].
  - apply N.ltb_lt in H. lia.
  - apply andb_true_iff in H as [_ H]. now apply N.ltb_lt in H.
Qed.

Lemma enc_char_spec c : is_scalar c = true ->
  utf8_valid (utf8_encode_char c) = true /\
  (1 <= length (utf8_encode_char c) <= 4)%nat /\
  (c <> 0 -> no_nul (utf8_encode_char c) = true).
Proof.
  intros Hs. pose proof (forall_below_true _ _ enc_char_sweep c (is_scalar_lt c Hs)) as H.
  unfold enc_char_ok in H. rewrite Hs in H. unfold enc_ok in H.
  repeat (apply andb_true_iff in H as [H ?]).
  split; [assumption|]. split.
  - match goal with H1 : (_ <=? 4) = true, H2 : (1 <=? _) = true |- _ =>
      apply N.leb_le in H1; apply N.leb_le in H2; lia end.
  - intros Hne. match goal with H1 : (_ || _) = true |- _ => apply orb_true_iff in H1 as [H1|H1] end.
    + apply N.eqb_eq in H1. contradiction.
    + assumption.
Qed.

Lemma encode_valid cs : forallb is_scalar cs = true -> utf8_valid (utf8_encode cs) = true.
Proof.
  unfold utf8_valid. induction cs as [|c r IH]; intros H; [reflexivity|].
  cbn [forallb] in H. apply andb_true_iff in H as [Hc Hr].
  cbn [utf8_encode flat_map]. rewrite urun_app.
  destruct (enc_char_spec c Hc) as [Hv _]. unfold utf8_valid in Hv.
  destruct (urun U0 (utf8_encode_char c)); try discriminate. now apply IH.
Qed.

Lemma encode_length_le cs : forallb is_scalar cs = true ->
  (length (utf8_encode cs) <= 4 * length cs)%nat.
Proof.
  induction cs as [|c r IH]; intros H; [cbn; lia|].
  cbn [forallb] in H. apply andb_true_iff in H as [Hc Hr].
  cbn [utf8_encode flat_map length]. rewrite app_length.
  destruct (enc_char_spec c Hc) as [_ [[_ Hl] _]]. specialize (IH Hr).
  unfold utf8_encode in IH. lia.
Qed.

Lemma encode_no_nul cs : forallb is_scalar cs = true -> forallb (fun c => negb (c =? 0)) cs = true ->
  no_nul (utf8_encode cs) = true.
Proof.
  induction cs as [|c r IH]; intros H Hz; [reflexivity|].
  cbn [forallb] in H, Hz. apply andb_true_iff in H as [Hc Hr]. apply andb_true_iff in Hz as [Hz Hzr].
  cbn [utf8_encode flat_map]. unfold no_nul. rewrite forallb_app. apply andb_true_iff. split.
  - destruct (enc_char_spec c Hc) as [_ [_ Hn]]. apply Hn. apply negb_true_iff in Hz. now apply N.eqb_neq.
  - now apply IH.
Qed.
