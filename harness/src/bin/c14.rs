//! C14: phonetic layouts (soundness, completeness for word.src readings) and keyboard maps.
//!   c14 views   <tier> <pinyin-cases> <out>        implementation side of the correspondence views
//!   c14 oracle  <tier> <pinyin-cases> <out.json>   property oracles on the implementation alone
//!   c14 witness <witness-file> <out.json>          replay the model's completeness witnesses
//!   c14 replay  reach <layout> <code> | ascii <kb> <byte> | keys <kb> <layout> <byte>...
//!
//! Layout numbers: 0 standard 1 hsu 2 ibm 3 ginyieh 4 et 5 et26 6 dc26 7 hanyu 8 thl 9 mps2.
//! Keyboard numbers: AnyKeyboardLayout declaration order.
use chewing::editor::keyboard::{AnyKeyboardLayout, KeyCode, KeyEvent, KeyIndex, KeyboardLayout, Modifiers};
use chewing::editor::zhuyin_layout::{
    DaiChien26, Et, Et26, GinYieh, Hsu, Ibm, KeyBehavior, Pinyin, Standard, SyllableEditor,
};
use chewing::zhuyin::Syllable;
use std::collections::{BTreeMap, BTreeSet, HashMap, VecDeque};
use std::io::{BufRead, BufWriter, Write};
use std::panic::AssertUnwindSafe;
use vharness::util::{catch, json_str};

use KeyCode::*;
const KEYCODES: [KeyCode; 63] = [
    Unknown, N1, N2, N3, N4, N5, N6, N7, N8, N9, N0, Minus, Equal, BSlash, Grave, Q, W, E, R, T, Y, U, I, O, P,
    LBracket, RBracket, A, S, D, F, G, H, J, K, L, SColon, Quote, Z, X, C, V, B, N, M, Comma, Dot, Slash, Space,
    Esc, Enter, Del, Backspace, Tab, Left, Right, Up, Down, Home, End, PageUp, PageDown, NumLock,
];
use KeyIndex::*;
const KEYINDEXES: [KeyIndex; 63] = [
    K0, K1, K2, K3, K4, K5, K6, K7, K8, K9, K10, K11, K12, K13, K14, K15, K16, K17, K18, K19, K20, K21, K22, K23,
    K24, K25, K26, K27, K28, K29, K30, K31, K32, K33, K34, K35, K36, K37, K38, K39, K40, K41, K42, K43, K44, K45,
    K46, K47, K48, K49, K50, K51, K52, K53, K54, K55, K56, K57, K58, K59, K60, K61, K62,
];
const LAYOUTS: [&str; 10] = ["standard", "hsu", "ibm", "ginyieh", "et", "et26", "dc26", "hanyu", "thl", "mps2"];
const N_SYL_LAYOUTS: usize = 7;

fn check_enums() {
    for (i, k) in KEYCODES.iter().enumerate() {
        assert_eq!(*k as usize, i, "KeyCode discriminant order changed");
    }
    for (i, k) in KEYINDEXES.iter().enumerate() {
        assert_eq!(*k as usize, i, "KeyIndex discriminant order changed");
    }
}

fn keyboards() -> Vec<AnyKeyboardLayout> {
    vec![
        AnyKeyboardLayout::qwerty(),
        AnyKeyboardLayout::dvorak(),
        AnyKeyboardLayout::dvorak_on_qwerty(),
        AnyKeyboardLayout::qgmlwy(),
        AnyKeyboardLayout::colemak(),
        AnyKeyboardLayout::colemak_dh_ansi(),
        AnyKeyboardLayout::colemak_dh_orth(),
        AnyKeyboardLayout::workman(),
    ]
}
const REMAPPING_KB: usize = 2; // DvorakOnQwerty

fn new_layout(l: usize) -> Box<dyn SyllableEditor> {
    match l {
        0 => Box::new(Standard::new()),
        1 => Box::new(Hsu::new()),
        2 => Box::new(Ibm::new()),
        3 => Box::new(GinYieh::new()),
        4 => Box::new(Et::new()),
        5 => Box::new(Et26::new()),
        6 => Box::new(DaiChien26::new()),
        7 => Box::new(Pinyin::hanyu()),
        8 => Box::new(Pinyin::thl()),
        9 => Box::new(Pinyin::mps2()),
        _ => panic!("no such layout"),
    }
}

fn mods_of(mask: u32) -> Modifiers {
    Modifiers { shift: mask & 1 != 0, ctrl: mask & 2 != 0, capslock: mask & 4 != 0, numlock: mask & 8 != 0 }
}
fn mask_of(m: Modifiers) -> u32 {
    (m.shift as u32) | (m.ctrl as u32) << 1 | (m.capslock as u32) << 2 | (m.numlock as u32) << 3
}

/// the "diagonal" event of key class k: index = k-th KeyIndex, code = k-th KeyCode
fn class_event(k: usize) -> KeyEvent {
    KeyEvent { index: KEYINDEXES[k], code: KEYCODES[k], unicode: '\u{fffd}', modifiers: Modifiers::default() }
}
/// an event of the same class for layout l (index for index layouts, code for code layouts), all other fields different
fn class_event_alt(l: usize, k: usize) -> KeyEvent {
    let other = (k * 7 + 5) % 63;
    let by_code = l == 1 || l == 5;
    KeyEvent {
        index: if by_code { KEYINDEXES[other] } else { KEYINDEXES[k] },
        code: if by_code { KEYCODES[k] } else { KEYCODES[other] },
        unicode: 'x',
        modifiers: mods_of(13),
    }
}

fn beh(b: &KeyBehavior) -> String {
    match b {
        KeyBehavior::Ignore => "0".into(),
        KeyBehavior::Absorb => "1".into(),
        KeyBehavior::Commit => "2".into(),
        KeyBehavior::KeyError => "3".into(),
        KeyBehavior::Error => "4".into(),
        KeyBehavior::NoWord => "5".into(),
        KeyBehavior::OpenSymbolTable => "6".into(),
        KeyBehavior::Fuzzy(s) => format!("7:{}", s.to_u16()),
    }
}

fn event_view(r: Result<KeyEvent, String>) -> String {
    match r {
        Ok(ev) => format!("0 {} {} {} {}", ev.index as u32, ev.code as u32, ev.unicode as u32, mask_of(ev.modifiers)),
        Err(_) => "1".to_string(),
    }
}

pub fn composable(v: u16) -> bool {
    let Ok(s) = Syllable::try_from(v) else { return false };
    let mut b = Syllable::builder();
    for c in [s.initial(), s.medial(), s.rime(), s.tone()].into_iter().flatten() {
        b = match b.insert(c) {
            Ok(b) => b,
            Err(_) => return false,
        };
    }
    b.build().to_u16() == v
}

fn dup(e: &dyn SyllableEditor) -> Box<dyn SyllableEditor> {
    SyllableEditor::clone(e)
}

/// one operation on a clone of `ed`; None on panic
fn apply(ed: &dyn SyllableEditor, f: impl FnOnce(&mut dyn SyllableEditor) -> Option<KeyBehavior>)
-> Option<(Box<dyn SyllableEditor>, Option<KeyBehavior>)> {
    let mut c = dup(ed);
    let r = catch(AssertUnwindSafe(|| f(c.as_mut())));
    match r {
        Ok(b) => Some((c, b)),
        Err(_) => None,
    }
}

struct Table {
    /// state -> (editor in that state, line of the dump)
    states: BTreeMap<u16, (Box<dyn SyllableEditor>, String)>,
    transitions: u64,
}

/// Full transition table of a syllable-state layout over its reachable states (raw object
/// semantics: key_press, fuzzy_key_press and remove_last from every state; nothing cleared).
fn transition_table(l: usize) -> Table {
    let mut states: BTreeMap<u16, (Box<dyn SyllableEditor>, String)> = BTreeMap::new();
    let mut queue: VecDeque<u16> = VecDeque::new();
    let start = new_layout(l);
    let s0 = start.read().to_u16();
    states.insert(s0, (start, String::new()));
    queue.push_back(s0);
    let mut transitions = 0u64;
    while let Some(st) = queue.pop_front() {
        let ed = dup(states.get(&st).unwrap().0.as_ref());
        let mut line = format!("S {} {} {}", l, st, ed.is_empty() as u32);
        let mut next: Vec<Box<dyn SyllableEditor>> = vec![];
        for fuzzy in [false, true] {
            line.push_str(" |");
            for k in 0..63 {
                transitions += 1;
                let ev = class_event(k);
                match apply(ed.as_ref(), |e| Some(if fuzzy { e.fuzzy_key_press(ev) } else { e.key_press(ev) })) {
                    Some((c, b)) => {
                        line.push_str(&format!(" {}:{}", c.read().to_u16(), beh(&b.unwrap())));
                        next.push(c);
                    }
                    None => line.push_str(" P"),
                }
            }
        }
        transitions += 1;
        match apply(ed.as_ref(), |e| {
            e.remove_last();
            None
        }) {
            Some((c, _)) => {
                line.push_str(&format!(" | {}", c.read().to_u16()));
                next.push(c);
            }
            None => line.push_str(" | P"),
        }
        states.get_mut(&st).unwrap().1 = line;
        for c in next {
            let ns = c.read().to_u16();
            if !states.contains_key(&ns) {
                states.insert(ns, (c, String::new()));
                queue.push_back(ns);
            }
        }
    }
    Table { states, transitions }
}

fn read_cases(path: &str) -> Vec<Vec<u8>> {
    let f = std::fs::File::open(path).expect("open pinyin cases");
    std::io::BufReader::new(f)
        .lines()
        .map(|l| l.unwrap().split_whitespace().map(|x| x.parse::<u8>().unwrap()).collect())
        .collect()
}

/// One Pinyin case: bytes 32..=126 are typed through Qwerty::map_ascii, 8 = remove_last,
/// 27 = clear.  After every operation: behaviour, syllable, alt syllable, key string.
fn pinyin_case(variant: usize, case: &[u8]) -> String {
    let mut ed: Pinyin = match variant {
        0 => Pinyin::hanyu(),
        1 => Pinyin::thl(),
        _ => Pinyin::mps2(),
    };
    let kb = AnyKeyboardLayout::qwerty();
    let mut out = String::new();
    for &c in case {
        let b = match c {
            8 => {
                ed.remove_last();
                "1".to_string()
            }
            27 => {
                ed.clear();
                "1".to_string()
            }
            _ => {
                let ev = kb.map_ascii(c);
                match catch(AssertUnwindSafe(|| ed.key_press(ev))) {
                    Ok(b) => beh(&b),
                    Err(_) => {
                        out.push_str(" P");
                        break;
                    }
                }
            }
        };
        let ks: Vec<String> = ed.key_seq().chars().map(|c| (c as u32).to_string()).collect();
        out.push_str(&format!(" {}:{}:{}:[{}]", b, ed.read().to_u16(), ed.alt().to_u16(), ks.join(",")));
    }
    out
}

const TONE_BYTES: [u8; 6] = [b' ', b'1', b'2', b'3', b'4', b'5'];

fn views(_tier: &str, cases: &str, out: &str) -> i32 {
    check_enums();
    let f = std::fs::File::create(out).expect("create");
    let mut w = BufWriter::with_capacity(1 << 20, f);
    // keyboards: map_ascii / map_ascii_numlock over all bytes, map_with_mod over all keycodes x modifier masks
    for (kbi, kb) in keyboards().iter().enumerate() {
        for byte in 0u32..256 {
            let r = catch(AssertUnwindSafe(|| kb.map_ascii(byte as u8)));
            writeln!(w, "A {} {} {}", kbi, byte, event_view(r)).unwrap();
            let r = catch(AssertUnwindSafe(|| kb.map_ascii_numlock(byte as u8)));
            writeln!(w, "N {} {} {}", kbi, byte, event_view(r)).unwrap();
        }
        for (ci, code) in KEYCODES.iter().enumerate() {
            for mask in 0u32..16 {
                let r = catch(AssertUnwindSafe(|| kb.map_with_mod(*code, mods_of(mask))));
                writeln!(w, "M {} {} {} {}", kbi, ci, mask, event_view(r)).unwrap();
            }
        }
    }
    // syllable-state layouts: full transition table over the reachable states
    for l in 0..N_SYL_LAYOUTS {
        let t = transition_table(l);
        for (_, (_, line)) in t.states.iter() {
            writeln!(w, "{}", line).unwrap();
        }
        // alt_syllables over all composable codes
        let ed = new_layout(l);
        for v in 1u32..65536 {
            if !composable(v as u16) {
                continue;
            }
            let alts = ed.alt_syllables(Syllable::try_from(v as u16).unwrap());
            if !alts.is_empty() {
                let a: Vec<String> = alts.iter().map(|s| s.to_u16().to_string()).collect();
                writeln!(w, "L {} {} {}", l, v, a.join(" ")).unwrap();
            }
        }
    }
    // Pinyin: every case x tone key (appended) x variant
    let cases = read_cases(cases);
    for variant in 0..3 {
        for (i, case) in cases.iter().enumerate() {
            if case.iter().any(|c| TONE_BYTES.contains(c) || *c == 8 || *c == 27) {
                writeln!(w, "P {} {} -{}", variant, i, pinyin_case(variant, case)).unwrap();
            } else {
                for t in TONE_BYTES {
                    let mut c = case.clone();
                    c.push(t);
                    writeln!(w, "P {} {} {}{}", variant, i, t, pinyin_case(variant, &c)).unwrap();
                }
            }
        }
    }
    w.flush().unwrap();
    0
}

fn repo() -> String {
    std::env::var("VERIF_REPO").unwrap_or_else(|_| "/repo".to_string())
}

/// distinct readings of data/word.src in first-occurrence order
fn readings() -> Vec<Syllable> {
    let text = std::fs::read_to_string(format!("{}/data/word.src", repo())).expect("word.src");
    let mut seen = BTreeSet::new();
    let mut out = vec![];
    for line in text.lines() {
        let f: Vec<&str> = line.split_whitespace().collect();
        if f.len() != 3 || line.starts_with('#') {
            continue;
        }
        if let Ok(s) = f[2].parse::<Syllable>() {
            if seen.insert(s.to_u16()) {
                out.push(s);
            }
        }
    }
    out
}

struct Failures {
    list: Vec<String>,
    total: u64,
}
impl Failures {
    fn add(&mut self, oracle: &str, signature: &str, input: String, detail: String) {
        self.total += 1;
        if self.list.len() < 400 {
            self.list.push(format!(
                "{{\"oracle\":{},\"signature\":{},\"input\":{},\"detail\":{}}}",
                json_str(oracle),
                json_str(signature),
                json_str(&input),
                json_str(&detail)
            ));
        }
    }
}

fn keys_str(path: &[u8]) -> String {
    path.iter().map(|k| k.to_string()).collect::<Vec<_>>().join(",")
}

/// BFS under the editor's protocol (clear after Commit), key_press and fuzzy_key_press and remove_last.
/// Returns committed syllable -> shortest key-class path (key_press only paths are preferred: they are found first).
fn protocol_search(l: usize, fails: &mut Failures, evals: &mut u64) -> (BTreeMap<u16, Vec<u8>>, usize) {
    let name = LAYOUTS[l];
    let mut seen: BTreeMap<u16, (Box<dyn SyllableEditor>, Vec<u8>)> = BTreeMap::new();
    let mut queue = VecDeque::new();
    let start = new_layout(l);
    let s0 = start.read().to_u16();
    seen.insert(s0, (start, vec![]));
    queue.push_back(s0);
    let mut committed: BTreeMap<u16, Vec<u8>> = BTreeMap::new();
    while let Some(st) = queue.pop_front() {
        let (ed, path) = {
            let e = seen.get(&st).unwrap();
            (dup(e.0.as_ref()), e.1.clone())
        };
        if !(ed.is_empty() || composable(st)) || (ed.is_empty() != (st == 0x8000)) {
            fails.add("state-not-wellformed", &format!("state:{}", name), format!("{} keys {}", name, keys_str(&path)), format!("state {:#x}", st));
        }
        let mut next: Vec<(Box<dyn SyllableEditor>, Vec<u8>)> = vec![];
        for mode in 0..3 {
            for k in 0..63usize {
                if mode == 2 && k > 0 {
                    break;
                }
                *evals += 1;
                let ev = class_event(k);
                let r = apply(ed.as_ref(), |e| match mode {
                    0 => Some(e.key_press(ev)),
                    1 => Some(e.fuzzy_key_press(ev)),
                    _ => {
                        e.remove_last();
                        None
                    }
                });
                let mut p = path.clone();
                p.push(if mode == 2 { 255 } else { k as u8 + if mode == 1 { 100 } else { 0 } });
                let Some((mut c, b)) = r else {
                    fails.add("layout-panic", &format!("panic:{}", name), format!("{} keys {}", name, keys_str(&p)), "panic".into());
                    continue;
                };
                // event fields outside the key class must not matter
                if mode == 0 {
                    let ev2 = class_event_alt(l, k);
                    if let Some((c2, b2)) = apply(ed.as_ref(), |e| Some(e.key_press(ev2))) {
                        if c2.read() != c.read() || b2 != b {
                            fails.add("event-field-dependence", &format!("fields:{}", name), format!("{} keys {}", name, keys_str(&p)), "result depends on fields outside the key class".into());
                        }
                    }
                }
                let handed = match &b {
                    Some(KeyBehavior::Commit) => Some(c.read()),
                    Some(KeyBehavior::Fuzzy(s)) => Some(*s),
                    _ => None,
                };
                if let Some(s) = handed {
                    let v = s.to_u16();
                    if s.is_empty() || !composable(v) {
                        fails.add("handed-syllable-not-wellformed", &format!("handed:{}", name), format!("{} keys {}", name, keys_str(&p)), format!("syllable {:#x} {:?}", v, s.to_string()));
                    }
                }
                if let Some(KeyBehavior::Commit) = &b {
                    let v = c.read().to_u16();
                    if mode == 0 {
                        committed.entry(v).or_insert_with(|| p.clone());
                    }
                    c.clear();
                }
                next.push((c, p));
            }
        }
        for (c, p) in next {
            let ns = c.read().to_u16();
            if !seen.contains_key(&ns) {
                seen.insert(ns, (c, p));
                queue.push_back(ns);
            }
        }
    }
    (committed, seen.len())
}

fn reading_name(s: Syllable) -> String {
    s.to_string()
}

fn report_unreachable(l: usize, missing: &[Syllable], fails: &mut Failures) {
    if missing.is_empty() {
        return;
    }
    let mut names: Vec<String> = missing.iter().map(|s| reading_name(*s)).collect();
    names.sort();
    let sig = format!("unreachable:{}:{}", LAYOUTS[l], names.join(","));
    let codes: Vec<String> = missing.iter().map(|s| s.to_u16().to_string()).collect();
    fails.add(
        "unreachable-reading",
        &sig,
        format!("{} {}", l, codes.join(" ")),
        format!("{} of the word.src readings cannot be entered with layout {}: {}", missing.len(), LAYOUTS[l], names.join(" ")),
    );
}

fn pinyin_commits(variant: usize, cases: &[Vec<u8>], fails: &mut Failures, evals: &mut u64, empty_commits: &mut u64) -> BTreeMap<u16, Vec<u8>> {
    let kb = AnyKeyboardLayout::qwerty();
    let mut committed: BTreeMap<u16, Vec<u8>> = BTreeMap::new();
    for case in cases {
        if case.iter().any(|c| TONE_BYTES.contains(c) || *c == 8 || *c == 27 || !c.is_ascii_lowercase()) {
            continue;
        }
        for t in TONE_BYTES {
            *evals += 1;
            let mut ed: Box<dyn SyllableEditor> = new_layout(7 + variant);
            let mut ok = true;
            for &c in case.iter() {
                let ev = kb.map_ascii(c);
                match catch(AssertUnwindSafe(|| ed.key_press(ev))) {
                    Ok(KeyBehavior::Absorb) => {}
                    _ => {
                        ok = false;
                        break;
                    }
                }
            }
            if !ok {
                continue;
            }
            let ev = kb.map_ascii(t);
            let mut full = case.clone();
            full.push(t);
            match catch(AssertUnwindSafe(|| ed.key_press(ev))) {
                Ok(KeyBehavior::Commit) => {
                    let s = ed.read();
                    if s.is_empty() {
                        *empty_commits += 1;
                    } else if !composable(s.to_u16()) {
                        fails.add("handed-syllable-not-wellformed", &format!("handed:{}", LAYOUTS[7 + variant]), format!("{} bytes {}", LAYOUTS[7 + variant], keys_str(&full)), format!("syllable {:#x}", s.to_u16()));
                    }
                    if !s.is_empty() {
                        committed.entry(s.to_u16()).or_insert(full);
                    }
                }
                Ok(_) => {}
                Err(_) => fails.add("layout-panic", &format!("panic:{}", LAYOUTS[7 + variant]), format!("{} bytes {}", LAYOUTS[7 + variant], keys_str(&full)), "panic".into()),
            }
        }
    }
    committed
}

fn oracle(_tier: &str, cases: &str, out: &str) -> i32 {
    check_enums();
    let mut fails = Failures { list: vec![], total: 0 };
    let mut evals = 0u64;
    let rs = readings();
    let rset: BTreeSet<u16> = rs.iter().map(|s| s.to_u16()).collect();
    let mut stats: Vec<String> = vec![];
    // O1/O2: soundness and completeness of the syllable-state layouts on their own transition graph
    for l in 0..N_SYL_LAYOUTS {
        // raw object semantics: every reachable state decodable
        let t = transition_table(l);
        evals += t.transitions;
        for (st, (ed, _)) in t.states.iter() {
            if !(ed.is_empty() || composable(*st)) {
                fails.add("state-not-wellformed", &format!("state:{}", LAYOUTS[l]), format!("{} raw state {}", LAYOUTS[l], st), format!("state {:#x}", st));
            }
        }
        let (committed, n_states) = protocol_search(l, &mut fails, &mut evals);
        let ed = new_layout(l);
        let mut missing = vec![];
        for r in rs.iter() {
            let direct = committed.contains_key(&r.to_u16());
            let via_alt = committed.keys().any(|s| {
                rset.contains(s) && ed.alt_syllables(Syllable::try_from(*s).unwrap()).contains(r)
            });
            if !direct && !via_alt {
                missing.push(*r);
            }
        }
        report_unreachable(l, &missing, &mut fails);
        stats.push(format!("{{\"layout\":{},\"raw_states\":{},\"protocol_states\":{},\"committable\":{},\"unreachable\":{}}}",
            json_str(LAYOUTS[l]), t.states.len(), n_states, committed.len(), missing.len()));
    }
    // Pinyin: commits over the case strings (all strings <= 3, the table product, random strings)
    let cases = read_cases(cases);
    let mut empty_commits = 0u64;
    for variant in 0..3 {
        let committed = pinyin_commits(variant, &cases, &mut fails, &mut evals, &mut empty_commits);
        let missing: Vec<Syllable> = rs.iter().cloned().filter(|r| !committed.contains_key(&r.to_u16())).collect();
        report_unreachable(7 + variant, &missing, &mut fails);
        stats.push(format!("{{\"layout\":{},\"committable\":{},\"unreachable\":{}}}", json_str(LAYOUTS[7 + variant]), committed.len(), missing.len()));
    }
    // O3: ASCII identity on the keyboards that do not remap keys; map_ascii total on all bytes;
    // map_with_mod total on all key codes x modifiers
    for (kbi, kb) in keyboards().iter().enumerate() {
        for byte in 0u32..256 {
            evals += 1;
            match catch(AssertUnwindSafe(|| kb.map_ascii(byte as u8))) {
                Err(p) => fails.add("map-ascii-panic", &format!("map-ascii-panic:{}", kbi), format!("{} {}", kbi, byte), p),
                Ok(ev) => {
                    if kbi != REMAPPING_KB && (32..=126).contains(&byte) && ev.unicode as u32 != byte {
                        fails.add("ascii-identity", &format!("ascii-identity:{}:{}", kbi, byte), format!("{} {}", kbi, byte),
                            format!("keyboard {} maps {:?} to a key event with character {:?}", kbi, byte as u8 as char, ev.unicode));
                    }
                }
            }
            if let Err(p) = catch(AssertUnwindSafe(|| kb.map_ascii_numlock(byte as u8))) {
                fails.add("map-ascii-panic", &format!("map-ascii-panic:{}", kbi), format!("{} {}", kbi, byte), p);
            }
        }
        for code in KEYCODES.iter() {
            for mask in 0u32..16 {
                evals += 1;
                if let Err(p) = catch(AssertUnwindSafe(|| kb.map_with_mod(*code, mods_of(mask)))) {
                    fails.add("map-keycode-panic", &format!("map-keycode-panic:{}", kbi), format!("{} {} {}", kbi, *code as u32, mask), p);
                }
            }
        }
    }
    let json = format!(
        "{{\"evaluations\":{},\"readings\":{},\"pinyin_empty_commits\":{},\"layouts\":[{}],\"failure_count\":{},\"failures\":[{}]}}",
        evals, rs.len(), empty_commits, stats.join(","), fails.total, fails.list.join(",")
    );
    std::fs::write(out, json).unwrap();
    if fails.total == 0 { 0 } else { 1 }
}

/// type bytes on keyboard kb into a fresh layout l under the editor's protocol; returns the handed syllables
/// with the index of the key that produced them, and whether the layout is empty at the end
fn type_bytes(kbi: usize, l: usize, bytes: &[u8]) -> Result<(Vec<(usize, u16)>, bool), String> {
    let kbs = keyboards();
    let kb = &kbs[kbi];
    let mut ed = new_layout(l);
    let mut handed = vec![];
    for (i, &c) in bytes.iter().enumerate() {
        if c == 8 {
            // Backspace: the editor calls remove_last
            catch(AssertUnwindSafe(|| ed.remove_last()))?;
            continue;
        }
        let ev = catch(AssertUnwindSafe(|| kb.map_ascii(c)))?;
        let b = catch(AssertUnwindSafe(|| ed.key_press(ev)))?;
        match b {
            KeyBehavior::Commit => {
                handed.push((i, ed.read().to_u16()));
                ed.clear();
            }
            KeyBehavior::Fuzzy(s) => handed.push((i, s.to_u16())),
            _ => {}
        }
    }
    Ok((handed, ed.is_empty()))
}

fn enters(kbi: usize, l: usize, bytes: &[u8], r: u16, rset: &BTreeSet<u16>) -> Result<(), String> {
    if bytes.is_empty() || !bytes.iter().all(|c| (32..=126).contains(c) || *c == 8) {
        return Err("not printable ASCII / Backspace".into());
    }
    let (handed, empty) = type_bytes(kbi, l, bytes)?;
    if handed.len() != 1 || handed[0].0 != bytes.len() - 1 || !empty {
        return Err(format!("handed {:?}, empty at end {}", handed, empty));
    }
    let s = handed[0].1;
    if s == r {
        return Ok(());
    }
    let ed = new_layout(l);
    let rs = Syllable::try_from(r).map_err(|_| "zero reading".to_string())?;
    if rset.contains(&s) && ed.alt_syllables(Syllable::try_from(s).unwrap()).contains(&rs) {
        return Ok(());
    }
    Err(format!("commits {:#x}, wanted {:#x}", s, r))
}

fn witness(file: &str, out: &str) -> i32 {
    check_enums();
    let rset: BTreeSet<u16> = readings().iter().map(|s| s.to_u16()).collect();
    let f = std::fs::File::open(file).expect("open witness file");
    let mut n = 0u64;
    let mut none = 0u64;
    let mut fails = Failures { list: vec![], total: 0 };
    let mut per: HashMap<(usize, usize), u64> = HashMap::new();
    for line in std::io::BufReader::new(f).lines() {
        let line = line.unwrap();
        let t: Vec<&str> = line.split_whitespace().collect();
        if t.len() < 4 || t[0] != "W" {
            continue;
        }
        let (kbi, l, r) = (t[1].parse::<usize>().unwrap(), t[2].parse::<usize>().unwrap(), t[3].parse::<u16>().unwrap());
        if t.len() == 5 && t[4] == "NONE" {
            none += 1;
            continue;
        }
        let bytes: Vec<u8> = t[4..].iter().map(|x| x.parse::<u8>().unwrap()).collect();
        n += 1;
        match enters(kbi, l, &bytes, r, &rset) {
            Ok(()) => *per.entry((kbi, l)).or_insert(0) += 1,
            Err(e) => fails.add("witness-fails", &format!("witness:{}:{}", LAYOUTS[l], kbi), format!("{} {} {} {}", kbi, l, r, keys_str(&bytes)), e),
        }
    }
    let json = format!(
        "{{\"witnesses\":{},\"model_unreachable\":{},\"validated\":{},\"failure_count\":{},\"failures\":[{}]}}",
        n, none, per.values().sum::<u64>(), fails.total, fails.list.join(",")
    );
    std::fs::write(out, json).unwrap();
    if fails.total == 0 { 0 } else { 1 }
}

fn replay(args: &[String]) -> i32 {
    check_enums();
    match args.first().map(|s| s.as_str()) {
        Some("reach") => {
            // reach <layout> <code>...: is each reading enterable (search on the implementation)?
            let l: usize = args[1].parse().unwrap();
            let mut fails = Failures { list: vec![], total: 0 };
            let mut evals = 0;
            let rset: BTreeSet<u16> = readings().iter().map(|s| s.to_u16()).collect();
            let mut bad = 0;
            if l < N_SYL_LAYOUTS {
                let (committed, _) = protocol_search(l, &mut fails, &mut evals);
                let ed = new_layout(l);
                for a in &args[2..] {
                    let r: u16 = a.parse().unwrap();
                    let rs = Syllable::try_from(r).unwrap();
                    let direct = committed.get(&r);
                    let alt = committed.iter().find(|(s, _)| rset.contains(s) && ed.alt_syllables(Syllable::try_from(**s).unwrap()).contains(&rs));
                    match (direct, alt) {
                        (Some(p), _) => println!("{} {} ({}) reachable by key classes {}", LAYOUTS[l], r, rs, keys_str(p)),
                        (None, Some((s, p))) => println!("{} {} ({}) reachable through {} by key classes {}", LAYOUTS[l], r, rs, s, keys_str(p)),
                        _ => {
                            bad += 1;
                            println!("{} {} ({}) UNREACHABLE: no key sequence of the implementation's own transition graph commits it", LAYOUTS[l], r, rs)
                        }
                    }
                }
            } else {
                println!("pinyin readings are replayed through `c14 oracle` (case-file search)");
                return 2;
            }
            if bad > 0 { 1 } else { 0 }
        }
        Some("ascii") => {
            let kbi: usize = args[1].parse().unwrap();
            let byte: u8 = args[2].parse().unwrap();
            let kbs = keyboards();
            match catch(AssertUnwindSafe(|| kbs[kbi].map_ascii(byte))) {
                Ok(ev) => {
                    println!("keyboard {} byte {} -> {}", kbi, byte, ev);
                    if kbi != REMAPPING_KB && (32..=126).contains(&byte) && ev.unicode as u32 != byte as u32 { 1 } else { 0 }
                }
                Err(p) => {
                    println!("keyboard {} byte {} -> panic {}", kbi, byte, p);
                    1
                }
            }
        }
        Some("keys") => {
            let kbi: usize = args[1].parse().unwrap();
            let l: usize = args[2].parse().unwrap();
            let bytes: Vec<u8> = args[3..].iter().map(|x| x.parse().unwrap()).collect();
            match type_bytes(kbi, l, &bytes) {
                Ok((handed, empty)) => {
                    println!("handed {:?} empty {}", handed, empty);
                    // Pinyin may hand the EMPTY syllable (C14_pinyin_commit_nonempty_refuted); the editor's dictionary guard drops it
                    let bad = handed.iter().any(|(_, v)| if *v == 0x8000 { l < N_SYL_LAYOUTS } else { !composable(*v) });
                    if bad { 1 } else { 0 }
                }
                Err(p) => {
                    println!("panic {}", p);
                    1
                }
            }
        }
        Some("classes") => {
            // classes <layout> <k>...: key classes under the editor's protocol; k = class (key_press),
            // 100 + class (fuzzy_key_press), 255 (remove_last)
            let l: usize = args[1].parse().unwrap();
            let mut ed = new_layout(l);
            let mut bad = false;
            for a in &args[2..] {
                let k: usize = a.parse().unwrap();
                let r = catch(AssertUnwindSafe(|| match k {
                    255 => {
                        ed.remove_last();
                        None
                    }
                    k if k >= 100 => Some(ed.fuzzy_key_press(class_event(k - 100))),
                    k => Some(ed.key_press(class_event(k))),
                }));
                match r {
                    Err(p) => {
                        println!("key {} -> panic {}", k, p);
                        return 1;
                    }
                    Ok(b) => {
                        let handed = match &b {
                            Some(KeyBehavior::Commit) => Some(ed.read()),
                            Some(KeyBehavior::Fuzzy(s)) => Some(*s),
                            _ => None,
                        };
                        println!("key {} -> {:?}, syllable {:#x} {:?}", k, b, ed.read().to_u16(), ed.read().to_string());
                        if let Some(s) = handed {
                            if s.is_empty() || !composable(s.to_u16()) {
                                println!("  handed syllable {:#x} is not a composable syllable", s.to_u16());
                                bad = true;
                            }
                        }
                        if let Some(KeyBehavior::Commit) = &b {
                            ed.clear();
                        }
                        let v = ed.read().to_u16();
                        if !(ed.is_empty() || composable(v)) {
                            println!("  state {:#x} is not well formed", v);
                            bad = true;
                        }
                    }
                }
            }
            if bad { 1 } else { 0 }
        }
        _ => {
            eprintln!("usage: c14 replay reach|ascii|keys|classes ...");
            2
        }
    }
}

fn main() {
    let args: Vec<String> = std::env::args().skip(1).collect();
    let rc = match args.first().map(|s| s.as_str()) {
        Some("views") => views(&args[1], &args[2], &args[3]),
        Some("oracle") => oracle(&args[1], &args[2], &args[3]),
        Some("witness") => witness(&args[1], &args[2]),
        Some("replay") => replay(&args[1..]),
        _ => {
            eprintln!("usage: c14 views|oracle|witness|replay ...");
            2
        }
    };
    std::process::exit(rc);
}
