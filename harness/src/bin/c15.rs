//! C15: C-API memory safety and string well-formedness.
//!   c15 mkdata <dir>                         build the small system dictionaries used by the runs
//!   c15 gen <tier> <sysdir> <workdir> <out-prefix> <caps>
//!         seeded call sequences, executed on the implementation; writes
//!         <out>.trace (abstract ops for the model), <out>.impl (observed results, one per op),
//!         <out>.seqs (the concrete calls), <out>.json (oracle failures, statistics)
//!   c15 run <seqfile> <sysdir> <workdir> <out-prefix> <caps>
//!         execute concrete sequences from a file (corpus, model-derived witnesses);
//!         this is what runs under valgrind
//!   c15 witness <file>                       write the concrete witness sequences (interruptions of
//!         the user-phrase protocol that the pinned-tree model sends to Dangling)
//! All randomness from util::Rng seeded by VERIF_SEED.
#![allow(clippy::all)]
#![allow(static_mut_refs)]
use std::alloc::{GlobalAlloc, Layout, System};
use std::ffi::{CStr, CString, c_char, c_int, c_uint, c_void};
use std::fmt::Write as _;
use std::io::Write;
use std::path::{Path, PathBuf};
use std::ptr::{null, null_mut};
use std::sync::atomic::{AtomicBool, AtomicUsize, Ordering};

use chewing::dictionary::{DictionaryBuilder, DictionaryInfo, Phrase, TrieBuilder};
use chewing::zhuyin::Syllable;
use chewing_capi::candidates::*;
use chewing_capi::globals::*;
use chewing_capi::input::*;
use chewing_capi::layout::*;
use chewing_capi::output::*;
use chewing_capi::setup::*;
use chewing_capi::userphrase::*;
use vharness::util::{Rng, json_str, seed_from_env};

// ------------------------------------------------------------------------------------------
// Layout-checking allocator: remembers the Layout of every live block and compares it with the Layout
// passed to dealloc.  A mismatching or dead dealloc is recorded and NOT forwarded as given (the block is
// released with its own layout / the dead release is dropped), so that such histories can be executed.

#[derive(Clone, Copy)]
struct Slot {
    ptr: usize, // 0 = empty, 1 = tombstone
    size: usize,
    align: usize,
}
const TAB_BITS: usize = 20;
const TAB_SIZE: usize = 1 << TAB_BITS;
static mut TABLE: [Slot; TAB_SIZE] = [Slot { ptr: 0, size: 0, align: 0 }; TAB_SIZE];
static LOCK: AtomicBool = AtomicBool::new(false);
static MISMATCH: AtomicUsize = AtomicUsize::new(0);
static NOTLIVE: AtomicUsize = AtomicUsize::new(0);
static TRACKING: AtomicBool = AtomicBool::new(false);

#[derive(Clone, Copy, Debug)]
struct DeallocEvent {
    ptr: usize,
    size: usize,
    align: usize,
    live: bool,
    asize: usize,
    aalign: usize,
}
const EV_MAX: usize = 64;
static mut EVENTS: [DeallocEvent; EV_MAX] = [DeallocEvent { ptr: 0, size: 0, align: 0, live: false, asize: 0, aalign: 0 }; EV_MAX];
static EV_N: AtomicUsize = AtomicUsize::new(0);
static WATCH: AtomicUsize = AtomicUsize::new(0); // address whose deallocs are recorded

struct Tracker;

fn lock() {
    while LOCK.compare_exchange_weak(false, true, Ordering::Acquire, Ordering::Relaxed).is_err() {
        std::hint::spin_loop();
    }
}
fn unlock() {
    LOCK.store(false, Ordering::Release);
}
fn hash(p: usize) -> usize {
    ((p >> 3).wrapping_mul(0x9E3779B97F4A7C15)) >> (64 - TAB_BITS)
}

unsafe fn tab_insert(p: usize, size: usize, align: usize) {
    let mut i = hash(p);
    unsafe {
        loop {
            let s = TABLE[i].ptr;
            if s == 0 || s == 1 || s == p {
                TABLE[i] = Slot { ptr: p, size, align };
                return;
            }
            i = (i + 1) & (TAB_SIZE - 1);
        }
    }
}
unsafe fn tab_remove(p: usize) -> Option<(usize, usize)> {
    let mut i = hash(p);
    unsafe {
        loop {
            let s = TABLE[i].ptr;
            if s == 0 {
                return None;
            }
            if s == p {
                let r = (TABLE[i].size, TABLE[i].align);
                TABLE[i].ptr = 1;
                return Some(r);
            }
            i = (i + 1) & (TAB_SIZE - 1);
        }
    }
}

unsafe impl GlobalAlloc for Tracker {
    unsafe fn alloc(&self, layout: Layout) -> *mut u8 {
        let p = unsafe { System.alloc(layout) };
        if !p.is_null() && TRACKING.load(Ordering::Relaxed) {
            lock();
            unsafe { tab_insert(p as usize, layout.size(), layout.align()) };
            unlock();
        }
        p
    }
    unsafe fn dealloc(&self, ptr: *mut u8, layout: Layout) {
        if !TRACKING.load(Ordering::Relaxed) {
            unsafe { System.dealloc(ptr, layout) };
            return;
        }
        lock();
        let found = unsafe { tab_remove(ptr as usize) };
        let watched = WATCH.load(Ordering::Relaxed) == ptr as usize;
        let (live, asize, aalign) = match found {
            Some((s, a)) => (true, s, a),
            None => (false, 0, 0),
        };
        if watched {
            let n = EV_N.load(Ordering::Relaxed);
            if n < EV_MAX {
                unsafe {
                    EVENTS[n] = DeallocEvent { ptr: ptr as usize, size: layout.size(), align: layout.align(), live, asize, aalign };
                }
                EV_N.store(n + 1, Ordering::Relaxed);
            }
        }
        unlock();
        match found {
            Some((s, a)) => {
                if s != layout.size() || a != layout.align() {
                    MISMATCH.fetch_add(1, Ordering::Relaxed);
                }
                unsafe { System.dealloc(ptr, Layout::from_size_align_unchecked(s, a)) };
            }
            None => {
                // block allocated before tracking started, or a dead release
                if watched {
                    NOTLIVE.fetch_add(1, Ordering::Relaxed);
                    // dropped: forwarding it would be a real double free
                } else {
                    unsafe { System.dealloc(ptr, layout) };
                }
            }
        }
    }
}

#[global_allocator]
static GLOBAL: Tracker = Tracker;

// ------------------------------------------------------------------------------------------
// data

const READINGS: &[(&str, &str, &str)] = &[
    // keys on the default layout, reading, a character with that reading
    ("hk4", "ㄘㄜˋ", "測"),
    ("g4", "ㄕˋ", "試"),
    ("su3", "ㄋㄧˇ", "你"),
    ("cl3", "ㄏㄠˇ", "好"),
    ("5j/ ", "ㄓㄨㄥ", "中"),
    ("jp6", "ㄨㄣˊ", "文"),
    ("ji3", "ㄨㄛˇ", "我"),
    ("2k7", "ㄉㄜ˙", "的"),
    ("u ", "ㄧ", "一"),
    ("284", "ㄉㄚˋ", "大"),
];

const PHRASES: &[(&str, &str)] = &[
    ("測試", "ㄘㄜˋ ㄕˋ"),
    ("你好", "ㄋㄧˇ ㄏㄠˇ"),
    ("中文", "ㄓㄨㄥ ㄨㄣˊ"),
    ("我的", "ㄨㄛˇ ㄉㄜ˙"),
    ("大中", "ㄉㄚˋ ㄓㄨㄥ"),
    ("測試中文", "ㄘㄜˋ ㄕˋ ㄓㄨㄥ ㄨㄣˊ"),
];

/// stands for a NULL pointer argument of the user-phrase calls in the call notation
const NULL_ARG: &str = "<null>";

// phrases that exist in no dictionary layer: chewing_userphrase_add takes the add branch the first time
const FRESH: &[(&str, &str)] = &[
    ("試測", "ㄕˋ ㄘㄜˋ"),
    ("好你", "ㄏㄠˇ ㄋㄧˇ"),
    ("文中", "ㄨㄣˊ ㄓㄨㄥ"),
    ("的我", "ㄉㄜ˙ ㄨㄛˇ"),
    ("一大", "ㄧ ㄉㄚˋ"),
    ("大一好", "ㄉㄚˋ ㄧ ㄏㄠˇ"),
    ("𠀀𠀁", "ㄧ ㄧ"),
];

fn syls(s: &str) -> Vec<Syllable> {
    s.split_whitespace().map(|x| x.parse::<Syllable>().expect("syllable")).collect()
}

fn info(name: &str) -> DictionaryInfo {
    DictionaryInfo {
        name: name.to_string(),
        copyright: "verif".to_string(),
        license: "verif".to_string(),
        version: "1".to_string(),
        software: "vharness c15".to_string(),
    }
}

/// LONG_CAND: one candidate of reading ㄘㄜˋ that is longer than every static buffer (100 x 3 bytes):
/// the only way to drive copy_cstr's |s| >= cap branch through the exported functions.
fn long_cand() -> String {
    // 1 + 3*100 bytes: the cut at 255 falls inside a character
    format!("x{}", "冊".repeat(100))
}

fn mkdata(dir: &str) -> i32 {
    let d = Path::new(dir);
    std::fs::create_dir_all(d).expect("mkdir");
    let repo = std::env::var("VERIF_REPO").unwrap_or("/repo".to_string());
    // word.dat: every single character of data/word.src
    let mut b = TrieBuilder::new();
    b.set_info(info("c15 word")).unwrap();
    let src = std::fs::read_to_string(format!("{repo}/data/word.src")).expect("word.src");
    let mut n = 0;
    for line in src.lines() {
        let p: Vec<&str> = line.split_whitespace().collect();
        if p.len() < 3 || line.starts_with('#') {
            continue;
        }
        let Ok(freq) = p[1].parse::<u32>() else { continue };
        let Ok(sy) = p[2].parse::<Syllable>() else { continue };
        if b.insert(&[sy], Phrase::new(p[0], freq + 1)).is_ok() {
            n += 1;
        }
    }
    for (_, r, c) in READINGS {
        let _ = b.insert(&syls(r), Phrase::new(*c, 1000));
    }
    b.build(&d.join("word.dat")).expect("build word.dat");
    let mut t = TrieBuilder::new();
    t.set_info(info("c15 tsi")).unwrap();
    for (p, r) in PHRASES {
        t.insert(&syls(r), Phrase::new(*p, 500)).unwrap();
    }
    t.insert(&syls("ㄘㄜˋ"), Phrase::new(long_cand(), 0)).unwrap();
    t.build(&d.join("tsi.dat")).expect("build tsi.dat");
    std::fs::copy(format!("{repo}/data/symbols.dat"), d.join("symbols.dat")).expect("symbols.dat");
    std::fs::copy(format!("{repo}/data/swkb.dat"), d.join("swkb.dat")).expect("swkb.dat");
    println!("mkdata: {} single characters, {} phrases", n, PHRASES.len() + 1);
    0
}

// ------------------------------------------------------------------------------------------
// concrete calls

#[derive(Clone, Debug, PartialEq)]
enum Call {
    Key(u8),
    Named(&'static str), // enter space esc left right up down tab bksp del home end pgup pgdn shiftleft shiftright shiftspace capslock dbltab
    CtrlNum(u8),
    Simple(&'static str), // reset ack commit_preedit clean_preedit clean_bopomofo cand_open cand_close cand_list_next cand_list_prev cand_list_first cand_list_last
    CandChoose(i32),
    CandEnum,
    CandHasNext,
    CandString,
    CandStringStatic,
    CandByIndex(i32),
    CandByIndexStatic(i32),
    IntEnum,
    IntHasNext,
    IntGet,
    KbEnum,
    KbHasNext,
    KbString,
    KbStringStatic,
    UpEnum,
    UpHasNext,
    UpGet(i32, i32), // -1 NULL, -2 the size has_next reports, n >= 0 that many bytes
    SelKey(i32),     // chewing_set_selKey with a table of exactly that many entries (-1: NULL)
    UpAdd(String, String),
    UpRemove(String, String),
    UpLookup(String, String),
    Get(&'static str), // heap + static pair: commit buffer bopomofo aux ; heap only: kbstring zuin selkeys kbtype_str
    PhoneSeq,
    Free(usize),      // k-th outstanding heap result (mod count)
    FreeAgain(usize), // a pointer already released (double free)
    FreeForeign,
    SetInt(&'static str, i32),
    SetKb(i32),
}

const NAMED: &[&str] = &[
    "enter", "space", "esc", "left", "right", "up", "down", "tab", "bksp", "del", "home", "end", "pgup", "pgdn", "shiftleft",
    "shiftright", "shiftspace", "capslock", "dbltab",
];
const SIMPLE: &[&str] = &[
    "reset", "ack", "commit_preedit", "clean_preedit", "clean_bopomofo", "cand_open", "cand_close", "cand_list_next",
    "cand_list_prev", "cand_list_first", "cand_list_last",
];
const GETS: &[&str] = &["commit", "buffer", "bopomofo", "aux", "kbstring", "zuin", "selkeys", "kbtype_str"];
const INT_OPTS: &[&str] = &[
    "chewing.candidates_per_page",
    "chewing.auto_commit_threshold",
    "chewing.disable_auto_learn_phrase",
    "chewing.phrase_choice_rearward",
    "chewing.easy_symbol_input",
    "chewing.space_is_select_key",
    "chewing.conversion_engine",
    "chewing.language_mode",
    "chewing.character_form",
    "chewing.user_phrase_add_direction",
    "chewing.auto_shift_cursor",
    "chewing.esc_clear_all_buffer",
];

fn intern(list: &[&'static str], s: &str) -> Option<&'static str> {
    list.iter().find(|x| **x == s).copied()
}

fn esc(s: &str) -> String {
    if s.is_empty() { "~".to_string() } else { s.replace(' ', "_") }
}
fn unesc(s: &str) -> String {
    if s == "~" { String::new() } else { s.replace('_', " ") }
}

impl Call {
    fn print(&self) -> String {
        match self {
            Call::Key(k) => format!("key {}", k),
            Call::Named(n) => n.to_string(),
            Call::CtrlNum(k) => format!("ctrlnum {}", k),
            Call::Simple(n) => n.to_string(),
            Call::CandChoose(i) => format!("cand_choose {}", i),
            Call::CandEnum => "cand_enum".into(),
            Call::CandHasNext => "cand_has_next".into(),
            Call::CandString => "cand_string".into(),
            Call::CandStringStatic => "cand_string_static".into(),
            Call::CandByIndex(i) => format!("cand_by_index {}", i),
            Call::CandByIndexStatic(i) => format!("cand_by_index_static {}", i),
            Call::IntEnum => "int_enum".into(),
            Call::IntHasNext => "int_has_next".into(),
            Call::IntGet => "int_get".into(),
            Call::KbEnum => "kb_enum".into(),
            Call::KbHasNext => "kb_has_next".into(),
            Call::KbString => "kb_string".into(),
            Call::KbStringStatic => "kb_string_static".into(),
            Call::UpEnum => "up_enum".into(),
            Call::UpHasNext => "up_has_next".into(),
            Call::UpGet(a, b) => format!("up_get {} {}", a, b),
            Call::UpAdd(p, b) => format!("up_add {} {}", esc(p), esc(b)),
            Call::UpRemove(p, b) => format!("up_remove {} {}", esc(p), esc(b)),
            Call::UpLookup(p, b) => format!("up_lookup {} {}", esc(p), esc(b)),
            Call::Get(g) => format!("get {}", g),
            Call::PhoneSeq => "phoneseq".into(),
            Call::Free(k) => format!("free {}", k),
            Call::FreeAgain(k) => format!("free_again {}", k),
            Call::FreeForeign => "free_foreign".into(),
            Call::SetInt(n, v) => format!("set_int {} {}", n, v),
            Call::SetKb(n) => format!("set_kb {}", n),
            Call::SelKey(n) => format!("sel_key {}", n),
        }
    }
    fn parse(line: &str) -> Option<Call> {
        let p: Vec<&str> = line.split_whitespace().collect();
        if p.is_empty() {
            return None;
        }
        let i = |k: usize| p.get(k).and_then(|x| x.parse::<i32>().ok());
        Some(match p[0] {
            "key" => Call::Key(i(1)? as u8),
            "ctrlnum" => Call::CtrlNum(i(1)? as u8),
            "cand_choose" => Call::CandChoose(i(1)?),
            "cand_enum" => Call::CandEnum,
            "cand_has_next" => Call::CandHasNext,
            "cand_string" => Call::CandString,
            "cand_string_static" => Call::CandStringStatic,
            "cand_by_index" => Call::CandByIndex(i(1)?),
            "cand_by_index_static" => Call::CandByIndexStatic(i(1)?),
            "int_enum" => Call::IntEnum,
            "int_has_next" => Call::IntHasNext,
            "int_get" => Call::IntGet,
            "kb_enum" => Call::KbEnum,
            "kb_has_next" => Call::KbHasNext,
            "sel_key" => Call::SelKey(i(1)?),
            "kb_string" => Call::KbString,
            "kb_string_static" => Call::KbStringStatic,
            "up_enum" => Call::UpEnum,
            "up_has_next" => Call::UpHasNext,
            "up_get" => Call::UpGet(i(1)?, i(2)?),
            "up_add" => Call::UpAdd(unesc(p.get(1)?), unesc(p.get(2)?)),
            "up_remove" => Call::UpRemove(unesc(p.get(1)?), unesc(p.get(2)?)),
            "up_lookup" => Call::UpLookup(unesc(p.get(1)?), unesc(p.get(2)?)),
            "get" => Call::Get(intern(GETS, p.get(1)?)?),
            "phoneseq" => Call::PhoneSeq,
            "free" => Call::Free(i(1)? as usize),
            "free_again" => Call::FreeAgain(i(1)? as usize),
            "free_foreign" => Call::FreeForeign,
            "set_int" => Call::SetInt(intern(INT_OPTS, p.get(1)?)?, i(2)?),
            "set_kb" => Call::SetKb(i(1)?),
            x => {
                if let Some(n) = intern(NAMED, x) {
                    Call::Named(n)
                } else if let Some(n) = intern(SIMPLE, x) {
                    Call::Simple(n)
                } else {
                    return None;
                }
            }
        })
    }
}

/// one sequence: how the user dictionary starts, then the calls
#[derive(Clone, Debug)]
struct Seq {
    preload: bool, // start from a chewing.dat that already holds PHRASES[0..3] (>= 2 leaves)
    calls: Vec<Call>,
}

// ------------------------------------------------------------------------------------------
// executor

struct Out {
    trace: Vec<String>,
    obs: Vec<String>,
    failures: Vec<String>,
    stats: std::collections::BTreeMap<String, u64>,
}

impl Out {
    fn bump(&mut self, k: &str) {
        *self.stats.entry(k.to_string()).or_insert(0) += 1;
    }
}

fn bytes_str(b: &[u8]) -> String {
    let mut s = format!("{}", b.len());
    for x in b {
        let _ = write!(s, " {}", x);
    }
    s
}

struct Exec<'a> {
    ctx: *mut ChewingContext,
    caps: [usize; 6],
    global_empty: *const c_char,
    outstanding: Vec<usize>, // heap results not yet released
    released: Vec<usize>,
    out: &'a mut Out,
    seq_id: usize,
    call_no: usize,
    last_sizes: (u32, u32),
    foreign: Box<[u8; 16]>,
    kb_names: Vec<Vec<u8>>, // by id, read through chewing_set_KBType + chewing_get_KBString on a scratch context
    kb_pos: Option<usize>,
}

const B_COMMIT: usize = 0;
const B_PREEDIT: usize = 1;
const B_BOPOMOFO: usize = 2;
const B_CAND: usize = 3;
const B_AUX: usize = 4;
const B_KBTYPE: usize = 5;

impl<'a> Exec<'a> {
    fn fail(&mut self, oracle: &str, detail: String) {
        if self.out.failures.len() < 50 {
            self.out.failures.push(format!(
                "{{\"oracle\":{},\"seq\":{},\"call\":{},\"detail\":{}}}",
                json_str(oracle),
                self.seq_id,
                self.call_no,
                json_str(&detail)
            ));
        }
    }
    fn emit(&mut self, op: String, res: String) {
        self.out.trace.push(op);
        self.out.obs.push(res);
    }

    /// read a heap C string result; oracle: valid UTF-8
    fn heap_text(&mut self, p: *mut c_char, what: &str) -> Option<Vec<u8>> {
        if p.is_null() {
            return None;
        }
        let b = unsafe { CStr::from_ptr(p) }.to_bytes().to_vec();
        if std::str::from_utf8(&b).is_err() {
            self.fail("heap-string-not-utf8", format!("{}: {:?}", what, b));
        }
        self.outstanding.push(p as usize);
        Some(b)
    }

    fn op_heap(&mut self, pol: u8, p: *mut c_char, what: &str) -> Option<Vec<u8>> {
        match self.heap_text(p, what) {
            Some(b) => {
                let mut c = b.clone();
                c.push(0);
                self.emit(format!("0 {} {} {}", pol, bytes_str(&b), p as usize), format!("H {} {}", p as usize, bytes_str(&c)));
                self.out.bump("heap_strings");
                Some(b)
            }
            None => {
                // CString::new failed inside the library; the text is not observable: nothing to compare
                self.fail("heap-getter-null", what.to_string());
                None
            }
        }
    }

    /// observe a *_static result: the whole buffer when it points into the context
    fn static_res(&mut self, buf: usize, p: *const c_char, expect: Option<&[u8]>, what: &str) -> String {
        if p == self.global_empty {
            return "G".to_string();
        }
        let cap = self.caps[buf];
        let b = unsafe { std::slice::from_raw_parts(p as *const u8, cap) }.to_vec();
        // oracles on the implementation alone
        match b.iter().position(|x| *x == 0) {
            None => self.fail("static-no-terminator", format!("{}: {} bytes without NUL in a {}-byte buffer", what, cap, cap)),
            Some(n) => {
                if std::str::from_utf8(&b[..n]).is_err() {
                    self.fail("static-not-utf8", format!("{}: {:?}", what, &b[..n]));
                }
                if let Some(e) = expect {
                    if e.len() < cap && &b[..n] != e {
                        self.fail("static-differs-from-heap", format!("{}: static {:?} heap {:?}", what, &b[..n], e));
                    }
                    if e.len() >= cap {
                        self.out.bump("static_truncated");
                        if e != long_cand().as_bytes() {
                            self.fail("static-truncated", format!("{}: a reachable text of {} bytes does not fit the {}-byte buffer", what, e.len(), cap));
                        }
                    }
                }
            }
        }
        self.out.bump("static_strings");
        // canonical view: what a C caller can see - the bytes up to the first NUL inside the buffer
        // (bytes after the terminator are not constrained by the property)
        match b.iter().position(|x| *x == 0) {
            Some(n) => format!("B {} 1 {}", buf, bytes_str(&b[..n])),
            None => format!("B {} 0 {}", buf, bytes_str(&b)),
        }
    }

    fn cstr(s: &str) -> CString {
        CString::new(s).unwrap()
    }

    /// a string argument of a user-phrase call; NULL_ARG stands for a NULL pointer (chewing_userphrase_lookup
    /// documents NULL phrase as "any phrase"; the other NULL arguments are refused with 0 / -1)
    fn opt_cstr(s: &str) -> Option<CString> {
        if s == NULL_ARG { None } else { Some(CString::new(s).unwrap()) }
    }

    fn selecting(&self) -> bool {
        unsafe { chewing_cand_CheckDone(self.ctx) == 0 }
    }

    /// all remaining candidates from the current page on, read through by_index (emitted as heap ops)
    fn cand_oracle(&mut self) -> Option<Vec<Vec<u8>>> {
        if !self.selecting() {
            return None;
        }
        let total = unsafe { chewing_cand_TotalChoice(self.ctx) };
        let per = unsafe { chewing_cand_ChoicePerPage(self.ctx) };
        let page = unsafe { chewing_cand_CurrentPage(self.ctx) };
        let mut v = vec![];
        for i in (page * per)..total {
            let p = unsafe { chewing_cand_string_by_index(self.ctx, i) };
            let b = self.op_heap(2, p, "cand_string_by_index").unwrap_or_default();
            self.free_ptr(p as usize);
            v.push(b);
        }
        Some(v)
    }

    fn free_ptr(&mut self, p: usize) {
        WATCH.store(p, Ordering::SeqCst);
        EV_N.store(0, Ordering::SeqCst);
        unsafe { chewing_free(p as *mut c_void) };
        WATCH.store(0, Ordering::SeqCst);
        let n = EV_N.load(Ordering::SeqCst);
        let res = if n == 0 {
            "N".to_string()
        } else {
            let e = unsafe { EVENTS[0] };
            if !e.live {
                self.fail("free-dead-block", format!("chewing_free released a block that is not live (size {} align {})", e.size, e.align));
                format!("F 2 {}", p)
            } else if e.size != e.asize || e.align != e.aalign {
                self.fail(
                    "free-layout-mismatch",
                    format!("allocated size {} align {}, released size {} align {}", e.asize, e.aalign, e.size, e.align),
                );
                format!("F 1 {} {} {} {}", e.asize, e.aalign, e.size, e.align)
            } else {
                format!("D {} {} {}", p, e.size, e.align)
            }
        };
        if let Some(i) = self.outstanding.iter().position(|x| *x == p) {
            self.outstanding.remove(i);
            self.released.push(p);
        }
        self.emit(format!("3 {}", p), res);
        self.out.bump("frees");
    }

    fn call_generic(&mut self, muts: &[(u8, bool)], eok: bool) {
        let mut s = format!("18 {}", muts.len());
        for (k, b) in muts {
            let _ = write!(s, " {} {}", k, *b as u8);
        }
        let _ = write!(s, " {} 0 1", eok as u8);
        self.emit(s, "N".to_string());
    }

    fn user_lookup(&mut self, phrase: &str, bopo: &str) -> bool {
        let p = Self::opt_cstr(phrase);
        let b = Self::opt_cstr(bopo);
        let pp = p.as_ref().map_or(std::ptr::null(), |c| c.as_ptr());
        let bp = b.as_ref().map_or(std::ptr::null(), |c| c.as_ptr());
        unsafe { chewing_userphrase_lookup(self.ctx, pp, bp) == 1 }
    }

    fn exec(&mut self, c: &Call) {
        let ctx = self.ctx;
        self.call_no += 1;
        match c {
            Call::Key(k) => {
                unsafe { chewing_handle_Default(ctx, *k as c_int) };
                self.call_generic(&[], true);
            }
            Call::Named(n) => {
                unsafe {
                    match *n {
                        "enter" => chewing_handle_Enter(ctx),
                        "space" => chewing_handle_Space(ctx),
                        "esc" => chewing_handle_Esc(ctx),
                        "left" => chewing_handle_Left(ctx),
                        "right" => chewing_handle_Right(ctx),
                        "up" => chewing_handle_Up(ctx),
                        "down" => chewing_handle_Down(ctx),
                        "tab" => chewing_handle_Tab(ctx),
                        "bksp" => chewing_handle_Backspace(ctx),
                        "del" => chewing_handle_Del(ctx),
                        "home" => chewing_handle_Home(ctx),
                        "end" => chewing_handle_End(ctx),
                        "pgup" => chewing_handle_PageUp(ctx),
                        "pgdn" => chewing_handle_PageDown(ctx),
                        "shiftleft" => chewing_handle_ShiftLeft(ctx),
                        "shiftright" => chewing_handle_ShiftRight(ctx),
                        "shiftspace" => chewing_handle_ShiftSpace(ctx),
                        "capslock" => chewing_handle_Capslock(ctx),
                        _ => chewing_handle_DblTab(ctx),
                    }
                };
                // a commit may learn (update or add); over-approximated for the borrowing model
                if *n == "enter" {
                    self.call_generic(&[(1, true)], true);
                } else {
                    self.call_generic(&[], true);
                }
            }
            Call::CtrlNum(k) => {
                unsafe { chewing_handle_CtrlNum(ctx, *k as c_int) };
                self.call_generic(&[(0, true)], true);
            }
            Call::Simple(n) => {
                unsafe {
                    match *n {
                        "reset" => chewing_Reset(ctx),
                        "ack" => chewing_ack(ctx),
                        "commit_preedit" => chewing_commit_preedit_buf(ctx),
                        "clean_preedit" => chewing_clean_preedit_buf(ctx),
                        "clean_bopomofo" => chewing_clean_bopomofo_buf(ctx),
                        "cand_open" => chewing_cand_open(ctx),
                        "cand_close" => chewing_cand_close(ctx),
                        "cand_list_next" => chewing_cand_list_next(ctx),
                        "cand_list_prev" => chewing_cand_list_prev(ctx),
                        "cand_list_first" => chewing_cand_list_first(ctx),
                        _ => chewing_cand_list_last(ctx),
                    }
                };
                if *n == "commit_preedit" {
                    self.call_generic(&[(1, true)], false);
                } else {
                    self.call_generic(&[], false);
                }
            }
            Call::CandChoose(i) => {
                unsafe { chewing_cand_choose_by_index(ctx, *i) };
                self.call_generic(&[], false);
            }
            Call::SetInt(n, v) => {
                let name = Self::cstr(n);
                unsafe { chewing_config_set_int(ctx, name.as_ptr(), *v) };
                self.call_generic(&[], false);
            }
            Call::SetKb(n) => {
                unsafe { chewing_set_KBType(ctx, *n) };
                self.call_generic(&[], false);
            }
            Call::CandEnum => {
                let o = self.cand_oracle();
                unsafe { chewing_cand_Enumerate(ctx) };
                let mut s = String::from("4 ");
                match &o {
                    None => s.push('0'),
                    Some(v) => {
                        let _ = write!(s, "1 {}", v.len());
                        for b in v {
                            let _ = write!(s, " {}", bytes_str(b));
                        }
                    }
                }
                self.emit(s, "N".to_string());
                self.out.bump("cand_enum");
            }
            Call::CandHasNext => {
                let sel = self.selecting();
                let r = unsafe { chewing_cand_hasNext(ctx) };
                self.emit(format!("5 {}", sel as u8), format!("I {}", r));
            }
            Call::CandString => {
                let p = unsafe { chewing_cand_String(ctx) };
                match self.heap_text(p, "cand_String") {
                    Some(b) => {
                        let mut c = b.clone();
                        c.push(0);
                        self.emit(format!("6 {}", p as usize), format!("H {} {}", p as usize, bytes_str(&c)));
                    }
                    None => self.emit("6 0".to_string(), "U".to_string()),
                }
            }
            Call::CandStringStatic => {
                let p = unsafe { chewing_cand_String_static(ctx) };
                let r = self.static_res(B_CAND, p, None, "cand_String_static");
                self.emit("7".to_string(), r);
            }
            Call::CandByIndex(i) => {
                let p = unsafe { chewing_cand_string_by_index(ctx, *i) };
                self.op_heap(2, p, "cand_string_by_index");
            }
            Call::CandByIndexStatic(i) => {
                // heap variant first (the text), then the static variant must agree
                let p = unsafe { chewing_cand_string_by_index(ctx, *i) };
                let text = self.op_heap(2, p, "cand_string_by_index").unwrap_or_default();
                let total = if self.selecting() { unsafe { chewing_cand_TotalChoice(ctx) } } else { 0 };
                let q = unsafe { chewing_cand_string_by_index_static(ctx, *i) };
                let r = self.static_res(B_CAND, q, Some(&text), "cand_string_by_index_static");
                if *i >= 0 && *i < total {
                    self.emit(format!("1 {} 1 {}", B_CAND, bytes_str(&text)), r);
                } else {
                    self.emit(format!("1 {} 0", B_CAND), r);
                }
            }
            Call::IntEnum => {
                // oracle: drain once, then the real call
                unsafe { chewing_interval_Enumerate(ctx) };
                let mut v = vec![];
                while unsafe { chewing_interval_hasNext(ctx) } == 1 {
                    let mut it = IntervalType { from: -1, to: -1 };
                    unsafe { chewing_interval_Get(ctx, &mut it) };
                    v.push((it.from, it.to));
                    if v.len() > 200 {
                        break;
                    }
                }
                unsafe { chewing_interval_Enumerate(ctx) };
                let mut s = format!("8 {}", v.len());
                for (a, b) in &v {
                    let _ = write!(s, " {} {}", a, b);
                }
                self.emit(s, "N".to_string());
                self.out.bump("int_enum");
            }
            Call::IntHasNext => {
                let r = unsafe { chewing_interval_hasNext(ctx) };
                self.emit("9".to_string(), format!("I {}", r));
            }
            Call::IntGet => {
                let mut it = IntervalType { from: -7, to: -7 };
                unsafe { chewing_interval_Get(ctx, &mut it) };
                let r = if it.from == -7 && it.to == -7 { "V 0".to_string() } else { format!("V 1 {} {}", it.from, it.to) };
                self.emit("10".to_string(), r);
            }
            Call::KbEnum => {
                self.kb_pos = Some(0);
                unsafe { chewing_kbtype_Enumerate(ctx) };
                self.emit("11".to_string(), "N".to_string());
                self.out.bump("kb_enum");
            }
            Call::KbHasNext => {
                let r = unsafe { chewing_kbtype_hasNext(ctx) };
                self.emit("12".to_string(), format!("I {}", r));
            }
            Call::KbString => {
                if let Some(k) = self.kb_pos.as_mut() {
                    *k += 1;
                }
                let p = unsafe { chewing_kbtype_String(ctx) };
                match self.heap_text(p, "kbtype_String") {
                    Some(b) => {
                        let mut c = b.clone();
                        c.push(0);
                        self.emit(format!("13 {}", p as usize), format!("H {} {}", p as usize, bytes_str(&c)));
                    }
                    None => self.emit("13 0".to_string(), "U".to_string()),
                }
            }
            Call::KbStringStatic => {
                let expect: Option<Vec<u8>> = self.kb_pos.and_then(|k| self.kb_names.get(k).cloned());
                if let Some(k) = self.kb_pos.as_mut() {
                    *k += 1;
                }
                let p = unsafe { chewing_kbtype_String_static(ctx) };
                let r = self.static_res(B_KBTYPE, p, expect.as_deref(), "kbtype_String_static");
                self.emit("14".to_string(), r);
            }
            Call::UpEnum => {
                // oracle: drain once with exact sizes, then the real call
                let mut v: Vec<(Vec<u8>, Vec<u8>)> = vec![];
                unsafe { chewing_userphrase_enumerate(ctx) };
                loop {
                    let (mut pl, mut bl) = (0 as c_uint, 0 as c_uint);
                    if unsafe { chewing_userphrase_has_next(ctx, &mut pl, &mut bl) } != 1 {
                        break;
                    }
                    let mut pb = vec![0u8; pl as usize];
                    let mut bb = vec![0u8; bl as usize];
                    let r = unsafe { chewing_userphrase_get(ctx, pb.as_mut_ptr().cast(), pl, bb.as_mut_ptr().cast(), bl) };
                    if r != 0 || v.len() > 5000 {
                        break;
                    }
                    pb.pop();
                    bb.pop();
                    v.push((pb, bb));
                }
                let r = unsafe { chewing_userphrase_enumerate(ctx) };
                let mut s = format!("15 {}", v.len());
                for (p, b) in &v {
                    let _ = write!(s, " {} {}", bytes_str(p), bytes_str(b));
                }
                self.emit(s, format!("I {}", r));
                self.out.bump("up_enum");
                *self.out.stats.entry("up_entries_max".into()).or_insert(0) =
                    (*self.out.stats.get("up_entries_max").unwrap_or(&0)).max(v.len() as u64);
            }
            Call::UpHasNext => {
                let (mut pl, mut bl) = (0 as c_uint, 0 as c_uint);
                let r = unsafe { chewing_userphrase_has_next(ctx, &mut pl, &mut bl) };
                if r == 1 {
                    self.last_sizes = (pl, bl);
                    self.emit("16".to_string(), format!("X {} {}", pl, bl));
                } else {
                    self.emit("16".to_string(), format!("I {}", r));
                }
            }
            Call::UpGet(a, b) => {
                let size = |x: i32, dflt: u32| -> Option<usize> {
                    match x {
                        -1 => None,
                        -2 => Some(dflt as usize),
                        n => Some(n as usize),
                    }
                };
                let mut pl = size(*a, self.last_sizes.0);
                let mut bl = size(*b, self.last_sizes.1);
                if !SAFE_SMALL_BUF.load(Ordering::SeqCst) {
                    // the pinned code indexes past a short buffer and aborts: never pass one
                    pl = pl.map(|x| x.max(64));
                    bl = bl.map(|x| x.max(128));
                }
                // guard bytes after the caller's buffers detect writes past the stated length
                let mut pb = vec![0xAAu8; pl.unwrap_or(0) + 8];
                let mut bb = vec![0xAAu8; bl.unwrap_or(0) + 8];
                let r = unsafe {
                    chewing_userphrase_get(
                        ctx,
                        if pl.is_some() { pb.as_mut_ptr().cast() } else { null_mut() },
                        pl.unwrap_or(0) as c_uint,
                        if bl.is_some() { bb.as_mut_ptr().cast() } else { null_mut() },
                        bl.unwrap_or(0) as c_uint,
                    )
                };
                for (nm, buf, l) in [("phrase", &pb, pl), ("bopomofo", &bb, bl)] {
                    if buf[l.unwrap_or(0)..].iter().any(|x| *x != 0xAA) {
                        self.fail("userphrase-get-overrun", format!("{} buffer of {} bytes overrun", nm, l.unwrap_or(0)));
                    }
                }
                let op = format!("17 {} {}", pl.map_or(-1, |x| x as i64), bl.map_or(-1, |x| x as i64));
                if r == 0 {
                    let mut s = String::from("W");
                    for (nm, buf, l) in [("phrase", &pb, pl), ("bopomofo", &bb, bl)] {
                        match l {
                            None => s.push_str(" 0"),
                            Some(n) => match buf[..n].iter().position(|x| *x == 0) {
                                Some(z) => {
                                    if std::str::from_utf8(&buf[..z]).is_err() {
                                        self.fail("userphrase-get-not-utf8", format!("{}: {:?}", nm, &buf[..z]));
                                    }
                                    let _ = write!(s, " 1 {}", bytes_str(&buf[..z + 1]));
                                }
                                None => {
                                    self.fail("userphrase-get-no-terminator", format!("{} buffer of {} bytes", nm, n));
                                    let _ = write!(s, " 1 {}", bytes_str(&buf[..n]));
                                }
                            },
                        }
                    }
                    self.emit(op, s);
                } else {
                    self.emit(op, format!("I {}", r));
                }
                self.out.bump("up_get");
            }
            Call::UpAdd(p, b) => {
                let exists_user = p != NULL_ARG && b != NULL_ARG && self.user_lookup(p, b);
                let pc = Self::opt_cstr(p);
                let bc = Self::opt_cstr(b);
                let r = unsafe {
                    chewing_userphrase_add(ctx, pc.as_ref().map_or(std::ptr::null(), |c| c.as_ptr()), bc.as_ref().map_or(std::ptr::null(), |c| c.as_ptr()))
                };
                if (p == NULL_ARG || b == NULL_ARG) && r == 1 {
                    self.fail("userphrase-null-argument-accepted", format!("chewing_userphrase_add({:?}, {:?}) = 1", p, b));
                }
                // which branch of learn_phrase: update when some layer already has the reading, else add
                if r == 1 {
                    let known = exists_user || PHRASES.iter().any(|(_, rr)| rr == b) || syls(b).len() == 1;
                    if known {
                        self.call_generic(&[(1, true)], false);
                        self.out.bump("up_add_update");
                    } else {
                        self.call_generic(&[(0, false)], false);
                        self.out.bump("up_add_new");
                    }
                } else {
                    self.call_generic(&[], false);
                }
            }
            Call::UpRemove(p, b) => {
                let pc = Self::opt_cstr(p);
                let bc = Self::opt_cstr(b);
                let r = unsafe {
                    chewing_userphrase_remove(ctx, pc.as_ref().map_or(std::ptr::null(), |c| c.as_ptr()), bc.as_ref().map_or(std::ptr::null(), |c| c.as_ptr()))
                };
                if (p == NULL_ARG || b == NULL_ARG) && r == 1 {
                    self.fail("userphrase-null-argument-accepted", format!("chewing_userphrase_remove({:?}, {:?}) = 1", p, b));
                }
                if r == 1 {
                    // whether the key sits in the pending map is not observable: assume it does (frees)
                    self.call_generic(&[(2, true)], false);
                    self.out.bump("up_remove");
                } else {
                    self.call_generic(&[], false);
                }
            }
            Call::UpLookup(p, b) => {
                let found = self.user_lookup(p, b);
                if b == NULL_ARG && found {
                    self.fail("userphrase-null-argument-accepted", format!("chewing_userphrase_lookup({:?}, NULL) = 1", p));
                }
                // a NULL phrase asks "is there any phrase for this reading": at least as often true as the exact question
                if p != NULL_ARG && b != NULL_ARG && found && !self.user_lookup(NULL_ARG, b) {
                    self.fail("userphrase-lookup-wildcard", format!("({:?}, {:?}) is found but (NULL, {:?}) is not", p, b, b));
                }
                self.call_generic(&[], false);
            }
            Call::Get(g) => {
                let (heap, stat): (*mut c_char, Option<(usize, *const c_char)>) = unsafe {
                    match *g {
                        "commit" => (chewing_commit_String(ctx), Some((B_COMMIT, chewing_commit_String_static(ctx)))),
                        "buffer" => (chewing_buffer_String(ctx), Some((B_PREEDIT, chewing_buffer_String_static(ctx)))),
                        "bopomofo" => (chewing_bopomofo_String(ctx), Some((B_BOPOMOFO, chewing_bopomofo_String_static(ctx)))),
                        "aux" => (chewing_aux_String(ctx), Some((B_AUX, chewing_aux_String_static(ctx)))),
                        "kbstring" => (chewing_get_KBString(ctx), None),
                        "zuin" => {
                            let mut n: c_int = 0;
                            (chewing_zuin_String(ctx, &mut n), None)
                        }
                        "selkeys" | _ => {
                            let mut v: *mut c_char = null_mut();
                            let name = if *g == "selkeys" { c"chewing.selection_keys" } else { c"chewing.keyboard_type" };
                            chewing_config_get_str(ctx, name.as_ptr(), &mut v);
                            (v, None)
                        }
                    }
                };
                let pol = match *g {
                    "aux" | "selkeys" | "kbtype_str" => 2,
                    _ => 0,
                };
                let text = self.op_heap(pol, heap, g);
                if let (Some(text), Some((buf, p))) = (text, stat) {
                    let r = self.static_res(buf, p, Some(&text), g);
                    self.emit(format!("1 {} 1 {}", buf, bytes_str(&text)), r);
                }
            }
            Call::SelKey(n) => {
                // the caller's table has exactly n entries; behind it lie poisoned ints: a reader that takes more than
                // n entries carries the poison into the selection keys (an over-read that no allocator notices)
                const POISON: c_int = 0x5eed_c15;
                let before: Vec<c_int> = unsafe { std::slice::from_raw_parts(chewing_get_selKey(ctx), 10).to_vec() };
                let mut table: Vec<c_int> = (0..(*n).max(0)).map(|i| b'a' as c_int + (i % 26)).collect();
                table.extend(std::iter::repeat(POISON).take(16));
                unsafe { chewing_set_selKey(ctx, if *n < 0 { std::ptr::null() } else { table.as_ptr() }, *n) };
                let after: Vec<c_int> = unsafe { std::slice::from_raw_parts(chewing_get_selKey(ctx), 10).to_vec() };
                if after.iter().any(|x| *x == POISON) {
                    self.fail("selkey-read-past-len", format!("chewing_set_selKey(len = {}) read past the end of the caller's table: {:x?}", n, after));
                } else if *n != 10 && after != before {
                    self.fail("selkey-bad-count-accepted", format!("chewing_set_selKey(len = {}) changed the keys to {:?}", n, after));
                } else if *n == 10 && after != table[..10] {
                    self.fail("selkey-not-stored", format!("{:?}", after));
                }
                if *n == 10 {
                    // back to the keys the rest of the sequence (and the model's candidate choices) count on
                    unsafe { chewing_set_selKey(ctx, before.as_ptr(), 10) };
                }
                self.call_generic(&[], false);
            }
            Call::PhoneSeq => {
                let len = unsafe { chewing_get_phoneSeqLen(ctx) };
                let p = unsafe { chewing_get_phoneSeq(ctx) };
                if len > 0 {
                    self.outstanding.push(p as usize);
                }
                self.emit(format!("2 {} {}", len, p as usize), format!("S {} {}", p as usize, len));
                if len == 0 {
                    // the empty slice is released right away (its pointer is not a block)
                    self.free_ptr(p as usize);
                }
                self.out.bump("phoneseq");
            }
            Call::Free(k) => {
                if !self.outstanding.is_empty() {
                    let p = self.outstanding[*k % self.outstanding.len()];
                    self.free_ptr(p);
                }
            }
            Call::FreeAgain(k) => {
                // only pointers that were not handed out again since
                let cands: Vec<usize> = self.released.iter().copied().filter(|p| !self.outstanding.contains(p)).collect();
                if !cands.is_empty() && SAFE_DOUBLE_FREE.load(Ordering::SeqCst) {
                    let p = cands[*k % cands.len()];
                    self.free_ptr(p);
                    self.out.bump("double_free");
                }
            }
            Call::FreeForeign => {
                // with stale registry entries (entry kept after a free) a pointer the library never returned
                // may alias a dead entry and would be released: only executed when entries are removed
                if SAFE_DOUBLE_FREE.load(Ordering::SeqCst) {
                    let p = self.foreign.as_ptr() as usize;
                    self.free_ptr(p);
                }
                self.free_ptr(0);
            }
        }
    }
}

fn prepare_user_file(sysdir: &str, path: &Path) {
    let sys = CString::new(sysdir).unwrap();
    let up = CString::new(path.to_str().unwrap()).unwrap();
    let ctx = unsafe { chewing_new2(sys.as_ptr(), up.as_ptr(), None, null_mut()) };
    assert!(!ctx.is_null(), "chewing_new2 failed");
    for (p, b) in &PHRASES[0..3] {
        let pc = CString::new(*p).unwrap();
        let bc = CString::new(*b).unwrap();
        unsafe { chewing_userphrase_add(ctx, pc.as_ptr(), bc.as_ptr()) };
    }
    // a key event flushes (dirty_level > 0); delete joins the writer
    unsafe { chewing_handle_Esc(ctx) };
    unsafe { chewing_delete(ctx) };
}

fn read_kb_names(sysdir: &str, path: &Path) -> Vec<Vec<u8>> {
    let sys = CString::new(sysdir).unwrap();
    let up = CString::new(path.to_str().unwrap()).unwrap();
    let ctx = unsafe { chewing_new2(sys.as_ptr(), up.as_ptr(), None, null_mut()) };
    assert!(!ctx.is_null(), "chewing_new2 failed");
    let total = unsafe { chewing_kbtype_Total(ctx) };
    let mut v = vec![];
    for i in 0..total {
        unsafe { chewing_set_KBType(ctx, i) };
        let p = unsafe { chewing_get_KBString(ctx) };
        v.push(unsafe { CStr::from_ptr(p) }.to_bytes().to_vec());
        unsafe { chewing_free(p.cast()) };
    }
    unsafe { chewing_delete(ctx) };
    v
}

fn run_seq(seq: &Seq, seq_id: usize, sysdir: &str, workdir: &Path, preload: &Path, caps: [usize; 6], kb_names: &[Vec<u8>], out: &mut Out, seqlog: &mut Vec<String>) {
    let dir = workdir.join(format!("u{}", seq_id));
    let _ = std::fs::remove_dir_all(&dir);
    std::fs::create_dir_all(&dir).unwrap();
    let upath = dir.join("chewing.dat");
    if seq.preload {
        std::fs::copy(preload, &upath).expect("copy preload");
    }
    let sys = CString::new(sysdir).unwrap();
    let up = CString::new(upath.to_str().unwrap()).unwrap();
    let ctx = unsafe { chewing_new2(sys.as_ptr(), up.as_ptr(), None, null_mut()) };
    assert!(!ctx.is_null(), "chewing_new2 failed");
    out.trace.push(format!("-1 1"));
    out.obs.push("C".to_string());
    seqlog.push(format!("# seq {} preload {}", seq_id, seq.preload as u8));
    let global_empty = unsafe { chewing_cand_String_static(ctx) }; // no iterator yet: the global empty string
    let mut ex = Exec {
        ctx,
        caps,
        global_empty,
        outstanding: vec![],
        released: vec![],
        out,
        seq_id,
        call_no: 0,
        last_sizes: (0, 0),
        foreign: Box::new([0x41; 16]),
        kb_names: kb_names.to_vec(),
        kb_pos: None,
    };
    for c in &seq.calls {
        seqlog.push(c.print());
        ex.exec(c);
    }
    // release everything that is still outstanding (every heap result can be released)
    while let Some(p) = ex.outstanding.first().copied() {
        ex.free_ptr(p);
    }
    let m0 = MISMATCH.load(Ordering::SeqCst);
    unsafe { chewing_delete(ctx) };
    let _ = m0;
    let _ = std::fs::remove_dir_all(&dir);
}

// ------------------------------------------------------------------------------------------
// generator

fn type_reading(rng: &mut Rng, calls: &mut Vec<Call>) {
    let (keys, _, _) = rng.pick(READINGS);
    for k in keys.bytes() {
        calls.push(Call::Key(k));
    }
}

fn mutator(rng: &mut Rng, calls: &mut Vec<Call>) {
    match rng.below(16) {
        0 | 1 => type_reading(rng, calls),
        2 => {
            type_reading(rng, calls);
            calls.push(Call::Named("enter"));
        }
        3 => {
            let (p, b) = rng.pick(PHRASES);
            calls.push(Call::UpAdd(p.to_string(), b.to_string()));
        }
        4 => {
            let (p, b) = rng.pick(FRESH);
            calls.push(Call::UpAdd(p.to_string(), b.to_string()));
        }
        5 => {
            let (p, b) = if rng.chance(1, 2) { *rng.pick(PHRASES) } else { *rng.pick(FRESH) };
            calls.push(Call::UpRemove(p.to_string(), b.to_string()));
        }
        6 => calls.push(Call::Named(*rng.pick(&["enter", "esc", "left", "right", "home", "end", "bksp", "del", "tab", "space", "down", "up", "pgdn", "capslock", "shiftleft"]))),
        7 => {
            let o = *rng.pick(INT_OPTS);
            let v = match o {
                "chewing.candidates_per_page" => rng.range(0, 11) as i32,
                "chewing.auto_commit_threshold" => rng.range(-1, 40) as i32,
                "chewing.conversion_engine" => rng.range(0, 3) as i32,
                _ => rng.range(0, 2) as i32,
            };
            // English / full-width modes make printable keys commit directly; keep Chinese mostly
            if (o == "chewing.language_mode" || o == "chewing.character_form") && rng.chance(2, 3) {
                calls.push(Call::SetInt(o, if o == "chewing.language_mode" { 1 } else { 0 }));
            } else {
                calls.push(Call::SetInt(o, v));
            }
        }
        8 => calls.push(Call::SetKb(rng.range(0, 17) as i32)),
        9 => calls.push(Call::Simple(*rng.pick(&["reset", "ack", "commit_preedit", "clean_preedit", "clean_bopomofo"]))),
        10 => calls.push(Call::Simple(*rng.pick(&["cand_open", "cand_close", "cand_list_next", "cand_list_prev", "cand_list_first", "cand_list_last"]))),
        // negative indices overflow `page_no * per_page + n` in debug builds (a DebugOnly panic that belongs to C01/C07)
        11 => calls.push(Call::CandChoose(rng.range(0, 6) as i32)),
        12 => calls.push(Call::CtrlNum(b'2' + rng.below(3) as u8)),
        13 => {
            // open a candidate list on a fresh syllable
            type_reading(rng, calls);
            calls.push(Call::Simple("cand_open"));
        }
        14 => calls.push(Call::Key(b'`')),
        _ => calls.push(Call::SetKb(0)),
    }
}

fn observer(rng: &mut Rng, calls: &mut Vec<Call>) {
    match rng.below(8) {
        0..=3 => calls.push(Call::Get(*rng.pick(GETS))),
        4 => calls.push(Call::PhoneSeq),
        5 => calls.push(Call::Free(rng.below(8) as usize)),
        6 => calls.push(Call::CandByIndexStatic(rng.range(-1, 12) as i32)),
        _ => calls.push(if rng.chance(1, 2) { Call::FreeAgain(rng.below(4) as usize) } else { Call::FreeForeign }),
    }
}

fn protocol_step(rng: &mut Rng, kind: u64, calls: &mut Vec<Call>) {
    let r = rng.below(10);
    match kind {
        0 => calls.push(match r {
            0 => Call::CandEnum,
            1..=4 => Call::CandHasNext,
            5..=6 => Call::CandString,
            _ => Call::CandStringStatic,
        }),
        1 => calls.push(match r {
            0 => Call::IntEnum,
            1..=4 => Call::IntHasNext,
            _ => Call::IntGet,
        }),
        2 => calls.push(match r {
            0 => Call::KbEnum,
            1..=4 => Call::KbHasNext,
            5..=6 => Call::KbString,
            _ => Call::KbStringStatic,
        }),
        _ => calls.push(match r {
            0 => Call::UpEnum,
            1..=5 => Call::UpHasNext,
            6 => Call::UpGet(-2, -2),
            7 => Call::UpGet(rng.range(0, 8) as i32, rng.range(0, 16) as i32),
            8 => Call::UpGet(-1, -2),
            _ => Call::UpGet(-2, -1),
        }),
    }
}

fn gen_seq(rng: &mut Rng, max_calls: usize) -> Seq {
    let mut calls = vec![];
    let preload = rng.chance(2, 3);
    // setup: some text in the buffer, some pending user phrases
    for _ in 0..rng.below(4) {
        type_reading(rng, &mut calls);
    }
    for _ in 0..rng.below(3) {
        let (p, b) = if rng.chance(1, 2) { *rng.pick(PHRASES) } else { *rng.pick(FRESH) };
        calls.push(Call::UpAdd(p.to_string(), b.to_string()));
    }
    if rng.chance(1, 3) {
        type_reading(rng, &mut calls);
        calls.push(Call::Simple("cand_open"));
    }
    let mut kind = rng.below(4);
    // protocol, interrupted at every step with probability 1/2
    calls.push(match kind {
        0 => Call::CandEnum,
        1 => Call::IntEnum,
        2 => Call::KbEnum,
        _ => Call::UpEnum,
    });
    while calls.len() < max_calls {
        match rng.below(10) {
            0..=4 => protocol_step(rng, kind, &mut calls),
            5..=7 => mutator(rng, &mut calls),
            8 => observer(rng, &mut calls),
            _ => {
                kind = rng.below(4);
                calls.push(match kind {
                    0 => Call::CandEnum,
                    1 => Call::IntEnum,
                    2 => Call::KbEnum,
                    _ => Call::UpEnum,
                });
            }
        }
    }
    calls.truncate(max_calls);
    Seq { preload, calls }
}

/// the fixed regression sequences: every iterator protocol interrupted by every class of mutator, plus the
/// string cases (long candidate, every getter pair, phone sequence release, double / foreign free)
fn fixed_seqs() -> Vec<Seq> {
    let mut v = vec![];
    let t = |s: &str| -> Vec<Call> { s.bytes().map(Call::Key).collect() };
    // long candidate through both static paths
    let mut c = t("hk4");
    c.push(Call::Simple("cand_open"));
    c.push(Call::CandEnum);
    for _ in 0..70 {
        c.push(Call::CandHasNext);
        c.push(Call::CandStringStatic);
    }
    for i in 0..70 {
        c.push(Call::CandByIndexStatic(i));
    }
    c.push(Call::CandEnum);
    for _ in 0..4 {
        c.push(Call::CandString);
    }
    v.push(Seq { preload: false, calls: c });
    // every getter pair in a few editor states
    let mut c = vec![];
    for g in GETS {
        c.push(Call::Get(g));
    }
    c.extend(t("hk4g4su3"));
    c.extend(t("cl"));
    for g in GETS {
        c.push(Call::Get(g));
    }
    c.push(Call::PhoneSeq);
    c.push(Call::CtrlNum(b'2'));
    c.push(Call::Get("aux"));
    c.push(Call::Named("enter"));
    c.push(Call::Get("commit"));
    c.push(Call::PhoneSeq);
    c.push(Call::Free(0));
    c.push(Call::FreeAgain(0));
    c.push(Call::FreeForeign);
    c.push(Call::SetKb(9));
    c.extend(t("zhongguoren"));
    c.push(Call::Get("bopomofo"));
    c.push(Call::Get("kbstring"));
    v.push(Seq { preload: true, calls: c });
    // keyboard type enumeration drained through both variants
    let mut c = vec![Call::KbEnum];
    for i in 0..19 {
        c.push(Call::KbHasNext);
        c.push(if i % 2 == 0 { Call::KbString } else { Call::KbStringStatic });
        if i == 5 {
            c.push(Call::SetKb(3));
            c.extend(t("hk4"));
            c.push(Call::Simple("reset"));
        }
    }
    v.push(Seq { preload: false, calls: c });
    // NULL string arguments of the user-phrase calls, alone and in the middle of an enumeration / an open list
    {
        let (p0, b0) = PHRASES[0];
        let (f0, g0) = FRESH[0];
        let mut c = vec![
            Call::UpLookup(NULL_ARG.into(), b0.into()),
            Call::UpLookup(p0.into(), NULL_ARG.into()),
            Call::UpLookup(NULL_ARG.into(), NULL_ARG.into()),
            Call::UpAdd(f0.into(), g0.into()),
            Call::UpLookup(f0.into(), g0.into()),
            Call::UpLookup(NULL_ARG.into(), g0.into()),
            Call::UpEnum,
            Call::UpHasNext,
            Call::UpAdd(NULL_ARG.into(), g0.into()),
            Call::UpAdd(f0.into(), NULL_ARG.into()),
            Call::UpRemove(NULL_ARG.into(), g0.into()),
            Call::UpRemove(f0.into(), NULL_ARG.into()),
            Call::UpGet(-1, -1),
            Call::UpLookup(f0.into(), g0.into()),
        ];
        c.extend("hk4".bytes().map(Call::Key));
        c.push(Call::Named("down"));
        c.push(Call::UpLookup(NULL_ARG.into(), b0.into()));
        c.push(Call::UpRemove(NULL_ARG.into(), NULL_ARG.into()));
        c.push(Call::Named("esc"));
        // chewing_set_selKey with tables of every length around the one it takes
        for n in [-1, 0, 1, 5, 9, 10, 11, 40] {
            c.push(Call::SelKey(n));
        }
        c.extend("hk4".bytes().map(Call::Key));
        c.push(Call::Named("down"));
        c.push(Call::SelKey(7));
        c.push(Call::Named("esc"));
        v.push(Seq { preload: true, calls: c });
    }
    v
}

/// interruptions of the user-phrase protocol (numbering = Model/CapiMem.v `interrupters`)
fn interrupter(i: usize) -> Vec<Call> {
    let (p0, b0) = PHRASES[0];
    let (p1, b1) = PHRASES[1];
    let (f0, g0) = FRESH[0];
    match i {
        0 => vec![Call::UpAdd(p0.into(), b0.into()), Call::Named("esc")],
        1 => vec![Call::UpRemove(f0.into(), g0.into())], // FRESH[0] was added in the setup: it is pending
        2 => vec![Call::UpRemove(p1.into(), b1.into()), Call::Named("esc")],
        3 => vec![Call::UpAdd(FRESH[1].0.into(), FRESH[1].1.into())],
        4 => {
            let mut c: Vec<Call> = "hk4g4".bytes().map(Call::Key).collect();
            c.push(Call::Named("enter"));
            c
        }
        _ => vec![Call::SetInt("chewing.candidates_per_page", 5), Call::Simple("reset")],
    }
}

fn witness_seqs() -> Vec<Seq> {
    let mut v = vec![];
    for k in 0..2 {
        for i in 0..6 {
            let mut c = vec![Call::UpAdd(FRESH[0].0.into(), FRESH[0].1.into()), Call::UpEnum];
            for _ in 0..k {
                c.push(Call::UpHasNext);
            }
            c.extend(interrupter(i));
            c.extend([Call::UpGet(-1, -1), Call::UpHasNext, Call::UpGet(-2, -2), Call::UpHasNext, Call::UpGet(-2, -2), Call::UpHasNext]);
            v.push(Seq { preload: true, calls: c });
        }
    }
    // the other three iterators interrupted the same way (they own their data: must stay clean)
    for (en, hn, get) in [
        (Call::CandEnum, Call::CandHasNext, Call::CandString),
        (Call::IntEnum, Call::IntHasNext, Call::IntGet),
        (Call::KbEnum, Call::KbHasNext, Call::KbStringStatic),
    ] {
        let mut c: Vec<Call> = "hk4g4hk4".bytes().map(Call::Key).collect();
        c.push(Call::Simple("cand_open"));
        c.push(en.clone());
        c.push(hn.clone());
        c.push(get.clone());
        for i in [0usize, 4, 5] {
            c.extend(interrupter(i));
            c.push(hn.clone());
            c.push(get.clone());
        }
        c.push(Call::Simple("cand_close"));
        c.push(Call::Named("esc"));
        c.push(hn.clone());
        c.push(get.clone());
        c.push(get.clone());
        v.push(Seq { preload: true, calls: c });
    }
    v
}

fn parse_seqs(text: &str) -> Vec<Seq> {
    let mut v: Vec<Seq> = vec![];
    for line in text.lines() {
        let line = line.trim();
        if line.is_empty() {
            continue;
        }
        if let Some(rest) = line.strip_prefix("# seq") {
            let p: Vec<&str> = rest.split_whitespace().collect();
            let preload = p.get(2).map_or(false, |x| *x == "1");
            v.push(Seq { preload, calls: vec![] });
            continue;
        }
        if line.starts_with('#') {
            continue;
        }
        match Call::parse(line) {
            Some(c) => {
                if v.is_empty() {
                    v.push(Seq { preload: true, calls: vec![] });
                }
                v.last_mut().unwrap().calls.push(c);
            }
            None => panic!("cannot parse call {:?}", line),
        }
    }
    v
}

fn print_seqs(seqs: &[Seq]) -> String {
    let mut s = String::new();
    for (i, q) in seqs.iter().enumerate() {
        let _ = writeln!(s, "# seq {} preload {}", i, q.preload as u8);
        for c in &q.calls {
            let _ = writeln!(s, "{}", c.print());
        }
    }
    s
}

/// caps: commit,preedit,bopomofo,cand,aux,kbtype,free_removes,up_get_checks  (the last two are the facts
/// tablegen read from the source: a double free / a too-small buffer is only executed when the code
/// handles it - on the pinned tree the first corrupts the heap and the second aborts the process)
fn parse_caps(s: &str) -> [usize; 6] {
    let v: Vec<usize> = s.split(',').map(|x| x.parse().expect("caps")).collect();
    assert_eq!(v.len(), 8, "caps: commit,preedit,bopomofo,cand,aux,kbtype,free_removes,up_get_checks");
    SAFE_DOUBLE_FREE.store(v[6] != 0, Ordering::SeqCst);
    SAFE_SMALL_BUF.store(v[7] != 0, Ordering::SeqCst);
    [v[0], v[1], v[2], v[3], v[4], v[5]]
}
static SAFE_DOUBLE_FREE: AtomicBool = AtomicBool::new(false);
static SAFE_SMALL_BUF: AtomicBool = AtomicBool::new(false);

/// chewing_phone_to_bopomofo over every u16 and four buffer lengths around the needed size: the return
/// value is the needed size, nothing is written unless the buffer is large enough, nothing is written
/// past the stated length, and what is written is NUL-terminated valid UTF-8 (implementation-side oracle)
fn phone_sweep(out: &mut Out) -> u64 {
    let mut n = 0u64;
    for phone in 0u32..65536 {
        let need = unsafe { chewing_phone_to_bopomofo(phone as u16, null_mut(), 0) };
        if need < 0 {
            continue;
        }
        let need = need as usize;
        for len in [0usize, need.saturating_sub(1), need, need + 3] {
            let mut buf = vec![0xAAu8; len + 8];
            let r = unsafe { chewing_phone_to_bopomofo(phone as u16, buf.as_mut_ptr().cast(), len as u16) };
            n += 1;
            let mut bad = None;
            if r as usize != need {
                bad = Some(format!("returns {} then {}", need, r));
            } else if buf[len..].iter().any(|x| *x != 0xAA) {
                bad = Some("wrote past the stated length".to_string());
            } else if len < need && buf[..len].iter().any(|x| *x != 0xAA) {
                bad = Some("wrote into a buffer that is too small".to_string());
            } else if len >= need {
                match buf[..len].iter().position(|x| *x == 0) {
                    Some(z) if z + 1 == need && std::str::from_utf8(&buf[..z]).is_ok() => {}
                    _ => bad = Some("not a NUL-terminated UTF-8 string of the announced size".to_string()),
                }
            }
            if let Some(d) = bad {
                if out.failures.len() < 50 {
                    out.failures.push(format!(
                        "{{\"oracle\":\"phone-to-bopomofo\",\"seq\":0,\"call\":0,\"detail\":{}}}",
                        json_str(&format!("phone {} len {}: {}", phone, len, d))
                    ));
                }
            }
        }
    }
    n
}

fn execute(seqs: &[Seq], sysdir: &str, workdir: &str, prefix: &str, caps: [usize; 6]) -> i32 {
    let work = PathBuf::from(workdir).join(format!("p{}", std::process::id()));
    let _ = std::fs::remove_dir_all(&work);
    std::fs::create_dir_all(&work).unwrap();
    let preload = work.join("preload.dat");
    prepare_user_file(sysdir, &preload);
    let kb_names = read_kb_names(sysdir, &work.join("kbnames.dat"));
    TRACKING.store(true, Ordering::SeqCst);
    let mut out = Out { trace: vec![], obs: vec![], failures: vec![], stats: Default::default() };
    let mut seqlog = vec![];
    let mut tf = std::io::BufWriter::new(std::fs::File::create(format!("{prefix}.trace")).unwrap());
    let mut of = std::io::BufWriter::new(std::fs::File::create(format!("{prefix}.impl")).unwrap());
    let mut sf = std::io::BufWriter::new(std::fs::File::create(format!("{prefix}.seqs")).unwrap());
    let mut total_calls = 0;
    let mut distinct = std::collections::BTreeSet::new();
    if std::env::var("VERIF_C15_PHONE_SWEEP").is_ok() {
        let n = phone_sweep(&mut out);
        out.stats.insert("phone_to_bopomofo_calls".to_string(), n);
    }
    for (i, q) in seqs.iter().enumerate() {
        let m0 = MISMATCH.load(Ordering::SeqCst);
        let f0 = out.failures.len();
        run_seq(q, i, sysdir, &work, &preload, caps, &kb_names, &mut out, &mut seqlog);
        let m1 = MISMATCH.load(Ordering::SeqCst);
        if m1 != m0 && out.failures.len() == f0 {
            out.failures.push(format!(
                "{{\"oracle\":\"dealloc-layout-mismatch-anywhere\",\"seq\":{},\"call\":0,\"detail\":\"{} deallocations with a layout other than the allocation's\"}}",
                i,
                m1 - m0
            ));
        }
        total_calls += q.calls.len();
        // non-trivial: an enumeration protocol interrupted by a mutating call before it is drained
        let mut open = false;
        let mut interrupted = false;
        for c in &q.calls {
            match c {
                Call::CandEnum | Call::IntEnum | Call::KbEnum | Call::UpEnum => open = true,
                Call::Key(_) | Call::Named(_) | Call::UpAdd(..) | Call::UpRemove(..) | Call::SetInt(..) | Call::SetKb(_) | Call::Simple(_) | Call::CtrlNum(_) | Call::CandChoose(_) if open => interrupted = true,
                _ => {}
            }
        }
        if interrupted {
            distinct.insert(print_seqs(std::slice::from_ref(q)));
        }
        for l in out.trace.drain(..) {
            writeln!(tf, "{}", l).unwrap();
        }
        for l in out.obs.drain(..) {
            writeln!(of, "{}", l).unwrap();
        }
        for l in seqlog.drain(..) {
            writeln!(sf, "{}", l).unwrap();
        }
        tf.flush().unwrap();
        of.flush().unwrap();
        sf.flush().unwrap();
    }
    TRACKING.store(false, Ordering::SeqCst);
    let _ = std::fs::remove_dir_all(&work);
    let mut js = String::from("{");
    let _ = write!(js, "\"sequences\":{},\"calls\":{},\"interrupted_protocols\":{},", seqs.len(), total_calls, distinct.len());
    let _ = write!(js, "\"layout_mismatches\":{},\"dead_releases\":{},", MISMATCH.load(Ordering::SeqCst), NOTLIVE.load(Ordering::SeqCst));
    js.push_str("\"stats\":{");
    let mut first = true;
    for (k, v) in &out.stats {
        if !first {
            js.push(',');
        }
        first = false;
        let _ = write!(js, "{}:{}", json_str(k), v);
    }
    js.push_str("},\"failures\":[");
    js.push_str(&out.failures.join(","));
    js.push_str("]}");
    std::fs::write(format!("{prefix}.json"), js).unwrap();
    0
}

fn main() {
    let args: Vec<String> = std::env::args().collect();
    let code = match args.get(1).map(|s| s.as_str()) {
        Some("mkdata") => mkdata(&args[2]),
        Some("gen") => {
            let tier = &args[2];
            let seed = seed_from_env();
            let (n, maxc) = if tier == "thorough" { (4000, 120) } else { (160, 60) };
            let mut seqs = fixed_seqs();
            seqs.extend(witness_seqs());
            for i in 0..n {
                let mut rng = Rng::new(seed.wrapping_mul(1_000_003).wrapping_add(i as u64));
                let m = 10 + rng.below(maxc as u64 - 10) as usize;
                seqs.push(gen_seq(&mut rng, m));
            }
            execute(&seqs, &args[3], &args[4], &args[5], parse_caps(&args[6]))
        }
        Some("run") => {
            let text = std::fs::read_to_string(&args[2]).expect("seq file");
            let seqs = parse_seqs(&text);
            execute(&seqs, &args[3], &args[4], &args[5], parse_caps(&args[6]))
        }
        Some("witness") => {
            let tier = args.get(3).map(|s| s.as_str()).unwrap_or("quick");
            let mut seqs = witness_seqs();
            if tier == "thorough" {
                let seed = seed_from_env();
                for i in 0..600 {
                    let mut rng = Rng::new(seed.wrapping_mul(7_000_003).wrapping_add(i as u64));
                    let m = 10 + rng.below(20) as usize;
                    seqs.push(gen_seq(&mut rng, m));
                }
            }
            std::fs::write(&args[2], print_seqs(&seqs)).unwrap();
            0
        }
        _ => {
            eprintln!("usage: c15 mkdata|gen|run|witness ...");
            2
        }
    };
    let _ = null::<u8>();
    std::process::exit(code);
}
