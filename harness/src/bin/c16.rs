//! C16: configuration round-trips, rejects bad values, aliases agree; layout by number = by name;
//! the layout reported is the one in effect.
//!   c16 views  <quick|thorough> <out.impl> <out.cases> <oracle.json>
//!        supervisor: runs `c16 worker` children (a panic inside an extern "C" function aborts the
//!        process), splits their stream into the case file (read by the OCaml model driver), the
//!        implementation-side observations and the property-oracle failures
//!   c16 worker <tier> <first-case>     (internal) executes the cases from <first-case> on
//!   c16 replay <replay.json>           re-executes the "ops" of a replay in a child; exit 1 if the property fails
//!   c16 mkdata                         (re)build the small system dictionaries under _build/data/c16
//!
//! Case stream (one token list per line, both sides print one observation after every op):
//!   CASE id pending0 | I name v | L alias v | S name n cp.. | K v | E null len n k.. |
//!   C cand maxlen k*10 addfw space esc autoshift easy rearward | A tl tf pending | F | ABORTED
//! Observations:
//!   R id idx ret I <13 named + 11 legacy getters> K <KBType> <KBString> <rc>:<get_str keyboard_type> S <10 keys> P <pending>
//!   G id idx OK n cp.. | ERR | PANIC           (config_get_str selection_keys)
//!   F id idx <keyboard> <syllable editor> <=row by number of the reported layout> <=row by name>
//!   T k <keyboard by number> <syl by number> <keyboard by name> <syl by name>
//!   H name <has_option>  |  N total name..  |  Z name <KBStr2Num>
#![allow(deprecated)]
use chewing::conversion::ChewingEngine;
use chewing::dictionary::{DictionaryBuilder, Layered, SystemDictionaryLoader, TrieBuilder, UserDictionaryLoader};
use chewing::editor::keyboard::{AnyKeyboardLayout, KeyboardLayout};
use chewing::editor::zhuyin_layout::{DaiChien26, Et, Et26, GinYieh, Hsu, Ibm, Pinyin, Standard, SyllableEditor};
use chewing::editor::{BasicEditor, Editor, LaxUserFreqEstimate};
use chewing::zhuyin::Syllable;
use chewing_capi::candidates::*;
use chewing_capi::globals::*;
use chewing_capi::input::*;
use chewing_capi::layout::*;
use chewing_capi::modes::*;
use chewing_capi::output::*;
use chewing_capi::setup::*;
use std::collections::HashMap;
use std::ffi::{CStr, CString, c_char, c_int};
use std::io::{BufRead, BufReader, Write};
use std::process::{Command, Stdio};
use std::ptr::null_mut;
use vharness::util::{Rng, json_str, seed_from_env};

// ------------------------------------------------------------------ names (specification side)

const IOPTS: [&str; 13] = [
    "chewing.user_phrase_add_direction",
    "chewing.disable_auto_learn_phrase",
    "chewing.auto_shift_cursor",
    "chewing.candidates_per_page",
    "chewing.language_mode",
    "chewing.easy_symbol_input",
    "chewing.esc_clear_all_buffer",
    "chewing.auto_commit_threshold",
    "chewing.phrase_choice_rearward",
    "chewing.character_form",
    "chewing.space_is_select_key",
    "chewing.conversion_engine",
    "chewing.enable_fullwidth_toggle_key",
];
/// documented range of each integer option (doc/libchewing.texi, public.rs constants, tests/test-config.c)
const RANGE: [(i32, i32); 13] =
    [(0, 1), (0, 1), (0, 1), (1, 10), (0, 1), (0, 1), (0, 1), (0, 39), (0, 1), (0, 1), (0, 1), (0, 2), (0, 1)];
/// EditorOptions::default as seen through the getters (asserted on a fresh context by the worker)
const DEFAULTS: [i32; 13] = [0, 0, 0, 10, 1, 0, 0, 39, 0, 0, 0, 1, 1];
const LEGACY: [&str; 11] = [
    "ChiEngMode",
    "ShapeMode",
    "candPerPage",
    "maxChiSymbolLen",
    "addPhraseDirection",
    "spaceAsSelection",
    "escCleanAllBuf",
    "autoShiftCur",
    "easySymbolInput",
    "phraseChoiceRearward",
    "autoLearn",
];
/// index into IOPTS of the named option each alias stands for
const LEGACY_OPT: [usize; 11] = [4, 9, 3, 7, 0, 10, 6, 2, 5, 8, 1];
const KB_NAMES: [&str; 17] = [
    "KB_DEFAULT",
    "KB_HSU",
    "KB_IBM",
    "KB_GIN_YIEH",
    "KB_ET",
    "KB_ET26",
    "KB_DVORAK",
    "KB_DVORAK_HSU",
    "KB_DACHEN_CP26",
    "KB_HANYU_PINYIN",
    "KB_THL_PINYIN",
    "KB_MPS2_PINYIN",
    "KB_CARPALX",
    "KB_COLEMAK_DH_ANSI",
    "KB_COLEMAK_DH_ORTH",
    "KB_WORKMAN",
    "KB_COLEMAK",
];
const STR_KB: &str = "chewing.keyboard_type";
const STR_SEL: &str = "chewing.selection_keys";

// ------------------------------------------------------------------ data

fn data_dir() -> String {
    std::env::var("VERIF_C16_DATA").unwrap_or_else(|_| "/verif/_build/data/c16".to_string())
}
fn repo_dir() -> String {
    std::env::var("VERIF_REPO").unwrap_or_else(|_| "/repo".to_string())
}

/// a few phrases on top of the single characters of mini.src: without any phrase the three conversion engines cannot
/// be told apart by what they display (the configuration probe needs them to differ)
const EXTRA_PHRASES: &str = "測試 100 ㄘㄜˋ ㄕˋ\n策士 90 ㄘㄜˋ ㄕˋ\n你好 200 ㄋㄧˇ ㄏㄠˇ\n我們 300 ㄨㄛˇ ㄇㄣ˙\n測試一下 50 ㄘㄜˋ ㄕˋ ㄧ ㄒㄧㄚˋ\n";

fn build_trie(src: &str, out: &str) {
    let mut text = std::fs::read_to_string(src).expect("read dictionary source");
    if src.ends_with("mini.src") {
        text.push_str(EXTRA_PHRASES);
    }
    let mut b = TrieBuilder::new();
    for line in text.lines() {
        let line = line.split('#').next().unwrap_or("");
        let toks: Vec<&str> = line.split_whitespace().collect();
        if toks.len() < 3 {
            continue;
        }
        let freq: u32 = toks[1].parse().unwrap_or(0);
        let mut syls = vec![];
        let mut ok = true;
        for t in &toks[2..] {
            match t.parse::<Syllable>() {
                Ok(sy) => syls.push(sy),
                Err(_) => {
                    ok = false;
                    break;
                }
            }
        }
        if ok && !syls.is_empty() {
            let _ = b.insert(&syls, (toks[0], freq).into());
        }
    }
    let tmp = format!("{}.tmp{}", out, std::process::id());
    let _ = std::fs::remove_file(&tmp);
    b.build(std::path::Path::new(&tmp)).expect("build trie");
    std::fs::rename(&tmp, out).expect("rename");
}

fn ensure_data(force: bool) {
    let d = data_dir();
    std::fs::create_dir_all(&d).expect("mkdir data");
    let r = repo_dir();
    // data of an earlier layout (no phrases in tsi.dat) is rebuilt
    let stamp = format!("{d}/with-phrases-v1");
    let force = force || !std::path::Path::new(&stamp).exists();
    if force || !std::path::Path::new(&format!("{d}/word.dat")).exists() {
        build_trie(&format!("{r}/data/word.src"), &format!("{d}/word.dat"));
    }
    if force || !std::path::Path::new(&format!("{d}/tsi.dat")).exists() {
        build_trie(&format!("{r}/data/mini.src"), &format!("{d}/tsi.dat"));
    }
    for f in ["swkb.dat", "symbols.dat"] {
        if force || !std::path::Path::new(&format!("{d}/{f}")).exists() {
            std::fs::copy(format!("{r}/data/{f}"), format!("{d}/{f}")).expect("copy data");
        }
    }
    let _ = std::fs::write(&stamp, "tsi.dat = mini.src + EXTRA_PHRASES\n");
}

// ------------------------------------------------------------------ context wrapper

struct Ctx(*mut ChewingContext);
impl Drop for Ctx {
    fn drop(&mut self) {
        unsafe { chewing_delete(self.0) }
    }
}

fn cs(s: &str) -> CString {
    CString::new(s).unwrap()
}

fn new_ctx() -> Ctx {
    let sys = cs(&data_dir());
    let user = cs(":memory:");
    let p = unsafe { chewing_new2(sys.as_ptr(), user.as_ptr(), None, null_mut()) };
    assert!(!p.is_null(), "chewing_new2 failed");
    Ctx(p)
}

fn take_string(p: *mut c_char) -> String {
    if p.is_null() {
        return "<null>".to_string();
    }
    let s = unsafe { CStr::from_ptr(p) }.to_string_lossy().into_owned();
    unsafe { chewing_free(p.cast()) };
    s
}

impl Ctx {
    fn get_int(&self, name: &str) -> i32 {
        let n = cs(name);
        unsafe { chewing_config_get_int(self.0, n.as_ptr()) }
    }
    fn set_int(&self, name: &str, v: i32) -> i32 {
        let n = cs(name);
        unsafe { chewing_config_set_int(self.0, n.as_ptr(), v) }
    }
    fn set_str_bytes(&self, name: &str, v: &[u8]) -> i32 {
        let n = cs(name);
        let v = CString::new(v.to_vec()).unwrap();
        unsafe { chewing_config_set_str(self.0, n.as_ptr(), v.as_ptr()) }
    }
    fn get_str(&self, name: &str) -> (i32, String) {
        let n = cs(name);
        let mut out: *mut c_char = null_mut();
        let rc = unsafe { chewing_config_get_str(self.0, n.as_ptr(), &mut out) };
        if rc != 0 { (rc, String::new()) } else { (rc, take_string(out)) }
    }
    fn legacy_get(&self, i: usize) -> i32 {
        unsafe {
            match i {
                0 => chewing_get_ChiEngMode(self.0),
                1 => chewing_get_ShapeMode(self.0),
                2 => chewing_get_candPerPage(self.0),
                3 => chewing_get_maxChiSymbolLen(self.0),
                4 => chewing_get_addPhraseDirection(self.0),
                5 => chewing_get_spaceAsSelection(self.0),
                6 => chewing_get_escCleanAllBuf(self.0),
                7 => chewing_get_autoShiftCur(self.0),
                8 => chewing_get_easySymbolInput(self.0),
                9 => chewing_get_phraseChoiceRearward(self.0),
                _ => chewing_get_autoLearn(self.0),
            }
        }
    }
    fn legacy_set(&self, i: usize, v: i32) {
        unsafe {
            match i {
                0 => chewing_set_ChiEngMode(self.0, v),
                1 => chewing_set_ShapeMode(self.0, v),
                2 => chewing_set_candPerPage(self.0, v),
                3 => chewing_set_maxChiSymbolLen(self.0, v),
                4 => chewing_set_addPhraseDirection(self.0, v),
                5 => chewing_set_spaceAsSelection(self.0, v),
                6 => chewing_set_escCleanAllBuf(self.0, v),
                7 => chewing_set_autoShiftCur(self.0, v),
                8 => chewing_set_easySymbolInput(self.0, v),
                9 => chewing_set_phraseChoiceRearward(self.0, v),
                _ => chewing_set_autoLearn(self.0, v),
            }
        }
    }
    fn ints(&self) -> Vec<i32> {
        let mut v: Vec<i32> = IOPTS.iter().map(|n| self.get_int(n)).collect();
        for i in 0..LEGACY.len() {
            v.push(self.legacy_get(i));
        }
        v
    }
    fn kbtype(&self) -> i32 {
        unsafe { chewing_get_KBType(self.0) }
    }
    fn kbstring(&self) -> String {
        take_string(unsafe { chewing_get_KBString(self.0) })
    }
    fn selkeys(&self) -> Vec<i32> {
        let p = unsafe { chewing_get_selKey(self.0) };
        (0..10).map(|i| unsafe { *p.add(i) }).collect()
    }
    fn pending(&self) -> i32 {
        unsafe { chewing_bopomofo_Check(self.0) }
    }
    fn key(&self, k: u8) {
        unsafe { chewing_handle_Default(self.0, k as c_int) };
    }
    fn triple(&self) -> String {
        let b = take_string(unsafe { chewing_bopomofo_String(self.0) });
        let p = take_string(unsafe { chewing_buffer_String(self.0) });
        let c = if unsafe { chewing_commit_Check(self.0) } == 1 {
            take_string(unsafe { chewing_commit_String(self.0) })
        } else {
            String::new()
        };
        format!("{b}/{p}/{c}")
    }
}

// ------------------------------------------------------------------ observations

#[derive(Clone, PartialEq, Debug)]
struct Obs {
    ints: Vec<i32>,
    kbtype: i32,
    kbstring: String,
    kbstr_rc: i32,
    kbstr: String,
    sel: Vec<i32>,
    pending: i32,
}

fn observe(c: &Ctx) -> Obs {
    let (rc, s) = c.get_str(STR_KB);
    Obs { ints: c.ints(), kbtype: c.kbtype(), kbstring: c.kbstring(), kbstr_rc: rc, kbstr: s, sel: c.selkeys(), pending: c.pending() }
}

fn tok(s: &str) -> String {
    if s.is_empty() { "-".to_string() } else { s.replace(' ', "_") }
}

fn fmt_obs(o: &Obs) -> String {
    format!(
        "I {} K {} {} {}:{} S {} P {}",
        o.ints.iter().map(|x| x.to_string()).collect::<Vec<_>>().join(" "),
        o.kbtype,
        tok(&o.kbstring),
        o.kbstr_rc,
        tok(&o.kbstr),
        o.sel.iter().map(|x| x.to_string()).collect::<Vec<_>>().join(" "),
        o.pending
    )
}

// ------------------------------------------------------------------ behavioural fingerprint of the layout in effect

const FP_SEQS: [&str; 22] = [
    "qi ", "ci ", "chi ", "zi ", "si ", "jyu ", "syu ", "shih ", "jhih ", "tsz ", "zhi ", "xi ", "cih ", "rih ", "su3cl3", "hk4g4",
    "niu3", "liu2", "ju4", "tzu4", "jiu3", "juan3",
];

/// what each printable key, typed alone into an empty editor, and a few fixed key sequences produce:
/// (bopomofo buffer / pre-edit / commit string) per probe
fn fingerprint_with(mut reset: impl FnMut(), mut key: impl FnMut(u8), mut read: impl FnMut() -> String) -> Vec<String> {
    let mut out = Vec::with_capacity(95 + FP_SEQS.len());
    for k in 32u8..=126 {
        reset();
        key(k);
        out.push(read());
    }
    for s in FP_SEQS {
        reset();
        for k in s.bytes() {
            key(k);
        }
        out.push(read());
    }
    reset();
    out
}

fn fingerprint_ctx(c: &Ctx) -> Vec<String> {
    fingerprint_with(|| unsafe { chewing_Reset(c.0); }, |k| c.key(k), || c.triple())
}

/// key sequences whose result depends on the options and on the conversion engine in effect (partial syllables:
/// the fuzzy engine; a two-syllable phrase vs its single words: the simple engine; Space, symbols, letters: the
/// boolean options, language mode, character form)
const CONFIG_PROBE: [&str; 19] = [
    "hk4g4", "hg", "hk4g", "su3cl3", "su3cl", "h", "hk4g4hk4g4", "ji3g4", "su3 ", "hk4g4 ", "5j/ jp6", "a,1", "hk4g4\x1b", "Q<",
    // two syllables with the list the simple engine opens dismissed after each: which engine converts shows
    "hk4\x1bg4\x1b", "su3\x1bcl3\x1b",
    // partial syllables ended with Space: only the fuzzy engine finds words for them
    "h ", "h g ", "s c ",
];

fn config_fingerprint(c: &Ctx) -> Vec<String> {
    let mut out = vec![];
    for s in CONFIG_PROBE {
        unsafe { chewing_Reset(c.0) };
        for k in s.bytes() {
            if k == 0x1b {
                unsafe { chewing_handle_Esc(c.0) };
            } else {
                c.key(k);
            }
        }
        out.push(format!("{} cursor={} cand={}", c.triple(), unsafe { chewing_cursor_Current(c.0) }, unsafe { chewing_cand_TotalChoice(c.0) }));
    }
    unsafe { chewing_Reset(c.0) };
    out
}

/// "the configuration that is reported is the configuration in effect": a fresh context given every REPORTED value
/// (the 13 integer options, the keyboard type, the selection keys) must handle the probe sequences exactly like this
/// one.  Only called while nothing has been typed into `c` since its creation except uncommitted keys (no learning).
fn reported_configuration_in_effect(c: &Ctx) -> Option<String> {
    let r = new_ctx();
    for n in IOPTS {
        let v = c.get_int(n);
        if r.set_int(n, v) != 0 {
            return Some(format!("the reported value {} of {} is rejected by a fresh context", v, n));
        }
    }
    unsafe { chewing_set_KBType(r.0, c.kbtype()) };
    let sk = c.selkeys();
    unsafe { chewing_set_selKey(r.0, sk.as_ptr(), 10) };
    let a = config_fingerprint(c);
    let b = config_fingerprint(&r);
    if std::env::var("VERIF_C16_DEBUG").is_ok() {
        eprintln!("probe this: {:?}\nprobe ref:  {:?}", a, b);
    }
    for (i, (x, y)) in a.iter().zip(b.iter()).enumerate() {
        if x != y {
            return Some(format!("keys {:?} give (bopomofo/pre-edit/commit) {} on this context but {} on a fresh context configured with the values it reports: {}",
                CONFIG_PROBE[i], x, y, IOPTS.iter().map(|n| format!("{}={}", n.trim_start_matches("chewing."), c.get_int(n))).collect::<Vec<_>>().join(" ")));
        }
    }
    None
}

const KEYBOARDS: [&str; 8] = ["Qwerty", "Dvorak", "DvorakOnQwerty", "Qgmlwy", "Colemak", "ColemakDhAnsi", "ColemakDhOrth", "Workman"];
const SYLS: [&str; 10] = [
    "Standard::new",
    "Hsu::new",
    "Ibm::new",
    "GinYieh::new",
    "Et::new",
    "Et26::new",
    "DaiChien26::new",
    "Pinyin::hanyu",
    "Pinyin::thl",
    "Pinyin::mps2",
];

fn keyboard_by_name(n: &str) -> AnyKeyboardLayout {
    match n {
        "Qwerty" => AnyKeyboardLayout::qwerty(),
        "Dvorak" => AnyKeyboardLayout::dvorak(),
        "DvorakOnQwerty" => AnyKeyboardLayout::dvorak_on_qwerty(),
        "Qgmlwy" => AnyKeyboardLayout::qgmlwy(),
        "Colemak" => AnyKeyboardLayout::colemak(),
        "ColemakDhAnsi" => AnyKeyboardLayout::colemak_dh_ansi(),
        "ColemakDhOrth" => AnyKeyboardLayout::colemak_dh_orth(),
        _ => AnyKeyboardLayout::workman(),
    }
}
fn syl_by_name(n: &str) -> Box<dyn SyllableEditor> {
    match n {
        "Standard::new" => Box::new(Standard::new()),
        "Hsu::new" => Box::new(Hsu::new()),
        "Ibm::new" => Box::new(Ibm::new()),
        "GinYieh::new" => Box::new(GinYieh::new()),
        "Et::new" => Box::new(Et::new()),
        "Et26::new" => Box::new(Et26::new()),
        "DaiChien26::new" => Box::new(DaiChien26::new()),
        "Pinyin::hanyu" => Box::new(Pinyin::hanyu()),
        "Pinyin::thl" => Box::new(Pinyin::thl()),
        _ => Box::new(Pinyin::mps2()),
    }
}

/// an editor built through the library API exactly as chewing_new2 builds it, with the given
/// keyboard and syllable editor: the reference behaviour of a (keyboard, syllable editor) pair
fn reference_fingerprint(kb: &str, syl: &str) -> Vec<String> {
    let loader = SystemDictionaryLoader::new().sys_path(data_dir());
    let dicts = loader.load().expect("system dictionaries");
    let abbrev = loader.load_abbrev().expect("abbrev");
    let sym = loader.load_symbol_selector().expect("symbols");
    let user = UserDictionaryLoader::new().userphrase_path(":memory:").load().expect("user dict");
    let est = LaxUserFreqEstimate::max_from(user.as_ref());
    let mut ed = Editor::new(Box::new(ChewingEngine::new()), Layered::new(dicts, user), est, abbrev, sym);
    ed.set_syllable_editor(syl_by_name(syl));
    let keyboard = keyboard_by_name(kb);
    let ed = std::cell::RefCell::new(ed);
    fingerprint_with(
        || ed.borrow_mut().clear(),
        |k| {
            let ev = keyboard.map_ascii(k);
            ed.borrow_mut().process_keyevent(ev);
        },
        || {
            let e = ed.borrow();
            format!("{}/{}/{}", e.syllable_buffer_display(), e.display(), e.display_commit())
        },
    )
}

struct Refs {
    by_fp: HashMap<Vec<String>, Vec<(String, String)>>,
}

fn build_refs() -> Refs {
    let mut by_fp: HashMap<Vec<String>, Vec<(String, String)>> = HashMap::new();
    for kb in KEYBOARDS {
        for syl in SYLS {
            by_fp.entry(reference_fingerprint(kb, syl)).or_default().push((kb.to_string(), syl.to_string()));
        }
    }
    Refs { by_fp }
}

impl Refs {
    /// the (keyboard, syllable editor) pairs that behave like this fingerprint: "Kb:Syl,Kb:Syl,.."
    /// (several pairs are behaviourally identical: the layouts that read the key's character are the
    /// same under every keyboard whose map_ascii keeps the character)
    fn classify(&self, fp: &Vec<String>) -> String {
        match self.by_fp.get(fp) {
            None => "?".to_string(),
            Some(v) => {
                let mut p: Vec<String> = v.iter().map(|p| format!("{}:{}", p.0, p.1)).collect();
                p.sort();
                p.join(",")
            }
        }
    }
}

// ------------------------------------------------------------------ ops

#[derive(Clone, Debug)]
enum Op {
    I(String, i32),
    L(usize, i32),
    S(String, Vec<u8>),
    K(i32),
    E(bool, i32, Vec<i32>),
    C(Vec<i32>),          // cand, maxlen, 10 keys, addfw, space, esc, autoshift, easy, rearward
    Act(String),          // editor activity: keys:<ascii> | caps | shiftspace | esc | enter | reset | space
    F,
}

#[repr(C)]
struct ConfigData {
    cand_per_page: c_int,
    max_chi_symbol_len: c_int,
    sel_key: [c_int; 10],
    b_add_phrase_forward: c_int,
    b_space_as_selection: c_int,
    b_esc_clean_all_buf: c_int,
    b_auto_shift_cur: c_int,
    b_easy_symbol_input: c_int,
    b_phrase_choice_rearward: c_int,
    hsu_sel_key_type: c_int,
}

fn lossy_cps(b: &[u8]) -> Vec<u32> {
    String::from_utf8_lossy(b).chars().map(|c| c as u32).collect()
}

fn hex(b: &[u8]) -> String {
    if b.is_empty() { "-".to_string() } else { b.iter().map(|x| format!("{:02x}", x)).collect() }
}
fn unhex(s: &str) -> Vec<u8> {
    if s == "-" {
        return vec![];
    }
    (0..s.len() / 2).map(|i| u8::from_str_radix(&s[2 * i..2 * i + 2], 16).unwrap()).collect()
}

/// the line of the case file (what the model reads); Act is written after execution (observed flags)
fn op_line(op: &Op) -> String {
    match op {
        Op::I(n, v) => format!("I {} {}", tok(n), v),
        Op::L(a, v) => format!("L {} {}", a, v),
        Op::S(n, b) => {
            let cps = lossy_cps(b);
            format!("S {} {} {}", tok(n), cps.len(), cps.iter().map(|x| x.to_string()).collect::<Vec<_>>().join(" ")).trim_end().to_string()
        }
        Op::K(v) => format!("K {}", v),
        Op::E(null, len, keys) => {
            format!("E {} {} {} {}", *null as i32, len, keys.len(), keys.iter().map(|x| x.to_string()).collect::<Vec<_>>().join(" ")).trim_end().to_string()
        }
        Op::C(v) => format!("C {}", v.iter().map(|x| x.to_string()).collect::<Vec<_>>().join(" ")),
        Op::Act(_) => unreachable!(),
        Op::F => "F".to_string(),
    }
}

/// replay form (keeps the raw bytes of strings and the concrete editor action)
fn op_replay(op: &Op) -> String {
    match op {
        Op::S(n, b) => format!("S {} {}", tok(n), hex(b)),
        Op::Act(a) => format!("A {}", a),
        o => op_line(o),
    }
}

fn parse_replay_op(line: &str) -> Option<Op> {
    let t: Vec<&str> = line.split_whitespace().collect();
    let untok = |s: &str| if s == "-" { String::new() } else { s.to_string() };
    Some(match *t.first()? {
        "I" => Op::I(untok(t[1]), t[2].parse().ok()?),
        "L" => Op::L(t[1].parse().ok()?, t[2].parse().ok()?),
        "S" => Op::S(untok(t[1]), unhex(t.get(2).copied().unwrap_or("-"))),
        "K" => Op::K(t[1].parse().ok()?),
        "E" => Op::E(t[1] == "1", t[2].parse().ok()?, t[4..].iter().map(|x| x.parse().unwrap()).collect()),
        "C" => Op::C(t[1..].iter().map(|x| x.parse().unwrap()).collect()),
        "A" => Op::Act(t[1].to_string()),
        "F" => Op::F,
        _ => return None,
    })
}

// ------------------------------------------------------------------ property oracle (implementation alone)

fn opt_index(name: &str) -> Option<usize> {
    IOPTS.iter().position(|n| *n == name)
}

/// the property evaluated on one executed op; `b` / `a` are the observations before / after
fn check_op(op: &Op, rc: i32, b: &Obs, a: &Obs) -> Option<String> {
    let int_rule = |oi: Option<usize>, v: i32, rc: Option<i32>| -> Option<String> {
        match oi {
            None => {
                if rc.map_or(false, |r| r != -1) || a != b {
                    return Some(format!("unknown option name: rc {:?}, configuration changed: {}", rc, a != b));
                }
            }
            Some(oi) => {
                let (lo, hi) = RANGE[oi];
                let li = LEGACY_OPT.iter().position(|x| *x == oi);
                if lo <= v && v <= hi {
                    if rc.map_or(false, |r| r != 0) {
                        return Some(format!("{} := {} is in the documented range {}..{} but was rejected (rc {:?})", IOPTS[oi], v, lo, hi, rc));
                    }
                    if a.ints[oi] != v {
                        return Some(format!("{} := {} accepted but reads back {}", IOPTS[oi], v, a.ints[oi]));
                    }
                    if let Some(li) = li {
                        if a.ints[13 + li] != v {
                            return Some(format!("{} := {} but chewing_get_{} reads {}", IOPTS[oi], v, LEGACY[li], a.ints[13 + li]));
                        }
                    }
                    for j in 0..24 {
                        if j != oi && Some(j) != li.map(|l| 13 + l) && a.ints[j] != b.ints[j] {
                            return Some(format!("{} := {} changed another getter (#{}: {} -> {})", IOPTS[oi], v, j, b.ints[j], a.ints[j]));
                        }
                    }
                    if (a.kbtype, &a.kbstring, &a.kbstr, &a.sel) != (b.kbtype, &b.kbstring, &b.kbstr, &b.sel) {
                        return Some(format!("{} := {} changed the layout or the selection keys", IOPTS[oi], v));
                    }
                } else {
                    if rc.map_or(false, |r| r != -1) {
                        return Some(format!("{} := {} is outside the documented range {}..{} but rc = {:?}", IOPTS[oi], v, lo, hi, rc));
                    }
                    if a != b {
                        return Some(format!("{} := {} (out of range) changed the configuration: {} -> {}", IOPTS[oi], v, fmt_obs(b), fmt_obs(a)));
                    }
                }
            }
        }
        None
    };
    match op {
        Op::I(name, v) => int_rule(opt_index(name), *v, Some(rc)),
        Op::L(ai, v) => int_rule(Some(LEGACY_OPT[*ai]), *v, None),
        Op::K(v) => {
            let known = 0 <= *v && *v < 17;
            let want = if known { *v } else { 0 };
            if rc != if known { 0 } else { -1 } {
                return Some(format!("chewing_set_KBType({}) returned {}", v, rc));
            }
            if a.kbtype != want || a.kbstring != KB_NAMES[want as usize] || a.kbstr != KB_NAMES[want as usize] {
                return Some(format!("chewing_set_KBType({}): reported layout {} {} {}", v, a.kbtype, a.kbstring, a.kbstr));
            }
            if a.ints != b.ints || a.sel != b.sel {
                return Some(format!("chewing_set_KBType({}) changed another option", v));
            }
            None
        }
        Op::S(name, bytes) if name == STR_KB => {
            let s = String::from_utf8_lossy(bytes);
            match KB_NAMES.iter().position(|n| *n == s) {
                Some(k) => {
                    if rc != 0 || a.kbtype != k as i32 || a.kbstring != s || a.kbstr != s {
                        return Some(format!("keyboard_type := {} rc {} reported {} {} {}", s, rc, a.kbtype, a.kbstring, a.kbstr));
                    }
                    if a.ints != b.ints || a.sel != b.sel {
                        return Some(format!("keyboard_type := {} changed another option", s));
                    }
                }
                None => {
                    if rc != -1 || a != b {
                        return Some(format!("keyboard_type := {:?} (unknown) rc {} changed {}", s, rc, a != b));
                    }
                }
            }
            None
        }
        Op::S(name, _) if name == STR_SEL => {
            // the read-back through config_get_str is checked on the G observation
            if rc == 0 {
                if (&a.ints, a.kbtype, &a.kbstring, a.pending) != (&b.ints, b.kbtype, &b.kbstring, b.pending) {
                    return Some("selection_keys changed another option".to_string());
                }
            } else if rc != -1 || a != b {
                return Some(format!("selection_keys rejected with rc {} changed {}", rc, a != b));
            }
            None
        }
        Op::S(_, _) => {
            if rc != -1 || a != b {
                Some(format!("unknown string option: rc {} changed {}", rc, a != b))
            } else {
                None
            }
        }
        Op::E(null, len, keys) => {
            if !*null && *len == 10 && keys.len() >= 10 {
                if a.sel[..] != keys[..10] {
                    return Some(format!("chewing_set_selKey: keys read back {:?}", a.sel));
                }
            } else if a.sel != b.sel {
                return Some("chewing_set_selKey with a bad length / null changed the keys".to_string());
            }
            if (&a.ints, a.kbtype, &a.kbstring) != (&b.ints, b.kbtype, &b.kbstring) {
                return Some("chewing_set_selKey changed another option".to_string());
            }
            None
        }
        Op::C(_) | Op::Act(_) | Op::F => {
            // frame: layout untouched
            if (a.kbtype, &a.kbstring, &a.kbstr) != (b.kbtype, &b.kbstring, &b.kbstr) {
                return Some("the reported layout changed without a layout call".to_string());
            }
            None
        }
    }
}

// ------------------------------------------------------------------ case generation

fn values(tier: &str) -> Vec<i32> {
    let mut v: Vec<i32> = (-3..=45).collect();
    v.extend_from_slice(&[i32::MIN, -1, 0, 1, i32::MAX, 100, 1000]);
    if tier == "thorough" {
        v.extend((46..=300).step_by(1));
        v.extend_from_slice(&[-100, 65536, 65537, 1 << 24, i32::MIN + 1, i32::MAX - 1]);
        let mut d: Vec<i32> = (-3..=45).rev().collect();
        v.append(&mut d);
    }
    v
}

fn kb_values(tier: &str) -> Vec<i32> {
    let mut v = values(tier);
    v.extend_from_slice(&[255, 256, 257, 262, 263, 272, 273, 511, 512, 513, -255, -250, -240, 65536, 65536 + 6, 65536 * 256 + 7, 16, 17, 0]);
    v
}

struct Case {
    mid: bool,
    ops: Vec<Op>,
}

fn sel_strings() -> Vec<Vec<u8>> {
    let mut v: Vec<Vec<u8>> = vec![];
    let digits = b"1234567890123";
    for n in 0..=12 {
        v.push(digits[..n].to_vec());
    }
    for s in ["asdfghjkl;", "1111111111", "aaaaabbbbb", "ASDFGHJKL:", "          ", "~!@#$%^&*(", "asdfghjkl;1234", "\t234567890", "\u{7f}234567890"] {
        v.push(s.as_bytes().to_vec());
    }
    // multi-byte: 10 bytes / fewer characters; 10 characters / more bytes
    for s in [
        "ééééé",
        "éééééééééé",
        "一二三1",
        "1一二三",
        "12345678é",
        "é12345678",
        "1234567é9",
        "😀😀12",
        "12😀😀",
        "\u{80}\u{80}\u{80}\u{80}\u{80}",
        "ĀĀĀĀĀ",
        "ÿÿÿÿÿ",
        "１２３４５６７８９０",
        "123456789é",
        "é234567890",
        "ㄅㄆㄇ1",
        "12345é789",
        "\u{100}234567890",
    ] {
        v.push(s.as_bytes().to_vec());
    }
    // high bytes / invalid UTF-8
    v.push(vec![0xff, 0xfe, b'1', b'2', b'3', b'4', b'5', b'6', b'7', b'8']);
    v.push(vec![0xc3; 10]);
    v.push(vec![b'1', b'2', b'3', b'4', b'5', b'6', b'7', b'8', b'9', 0xc3]);
    v.push(vec![0x80; 10]);
    v.push(vec![0xe4, 0xb8, b'1', b'2', b'3', b'4', b'5', b'6', b'7', b'8']);
    v.push(vec![0xff]);
    v.push(vec![0xf0, 0x9f, 0x98, b'1', b'2', b'3', b'4', b'5', b'6', b'7']);
    v.push(vec![0xed, 0xa0, 0x80, b'1', b'2', b'3', b'4', b'5', b'6', b'7']);
    v.push(vec![0xc0, 0xaf, b'1', b'2', b'3', b'4', b'5', b'6', b'7', b'8']);
    v.push(vec![b'a', 0xff, b'c', b'd', b'e', b'f', b'g', b'h']);
    v
}

fn kb_strings() -> Vec<Vec<u8>> {
    let mut v: Vec<Vec<u8>> = KB_NAMES.iter().map(|s| s.as_bytes().to_vec()).collect();
    for s in ["", "KB_", "kb_default", "KB_DEFAULT ", " KB_HSU", "KB_DVORAK_CP26", "KB_HSUx", "KB_TYPE_NUM", "KB_COLEMAK_DH", "Default", "6", "KB_DVORAK\t", "ＫＢ＿ＨＳＵ"] {
        v.push(s.as_bytes().to_vec());
    }
    v.push(vec![b'K', b'B', b'_', 0xff]);
    v.push(vec![0xc3, 0x28]);
    v
}

fn random_case(rng: &mut Rng, tier: &str) -> Case {
    let n = rng.range(6, if tier == "thorough" { 40 } else { 24 });
    let mut ops = vec![];
    let sels = sel_strings();
    let kbs = kb_strings();
    let small = |rng: &mut Rng| -> i32 {
        match rng.below(10) {
            0 => *rng.pick(&[-1, i32::MIN, i32::MAX, 100, 256, 257, 1000]),
            1 | 2 => rng.range(-3, 45) as i32,
            _ => rng.range(0, 3) as i32,
        }
    };
    for _ in 0..n {
        let op = match rng.below(100) {
            0..=19 => {
                let o = rng.below(13) as usize;
                let v = if rng.chance(3, 4) { rng.range(RANGE[o].0 as i64, RANGE[o].1 as i64) as i32 } else { small(rng) };
                Op::I(IOPTS[o].to_string(), v)
            }
            20..=31 => {
                let a = rng.below(11) as usize;
                let o = LEGACY_OPT[a];
                let v = if rng.chance(3, 4) { rng.range(RANGE[o].0 as i64, RANGE[o].1 as i64) as i32 } else { small(rng) };
                Op::L(a, v)
            }
            32..=44 => Op::K(if rng.chance(4, 5) { rng.range(0, 16) as i32 } else { *rng.pick(&[-1, 17, 255, 256, 257, 262, 263, 1000, i32::MAX, i32::MIN, -250]) }),
            45..=57 => Op::S(STR_KB.to_string(), if rng.chance(4, 5) { kbs[rng.below(17) as usize].clone() } else { rng.pick(&kbs).clone() }),
            58..=63 => Op::S(STR_SEL.to_string(), if rng.chance(1, 2) { b"asdfghjkl;".to_vec() } else { rng.pick(&sels).clone() }),
            64..=67 => {
                let keys: Vec<i32> = if rng.chance(3, 4) { b"qwertyuiop".iter().map(|x| *x as i32).collect() } else { (0..10).map(|_| rng.range(1, 126) as i32).collect() };
                Op::E(rng.chance(1, 10), if rng.chance(4, 5) { 10 } else { rng.range(-1, 12) as i32 }, keys)
            }
            68..=70 => {
                let mut v = vec![small(rng), if rng.chance(1, 2) { rng.range(0, 39) as i32 } else { small(rng) }];
                v.extend(b"1234567890".iter().map(|x| *x as i32));
                for _ in 0..6 {
                    v.push(small(rng));
                }
                Op::C(v)
            }
            71..=84 => {
                let ks: String = (0..rng.range(1, 5)).map(|_| *rng.pick(b"hk4g4su3cl3ji3x ,.1qazAB<") as char).collect();
                Op::Act(format!("keys:{}", hex(ks.as_bytes())))
            }
            85..=88 => Op::Act("caps".to_string()),
            89..=91 => Op::Act("shiftspace".to_string()),
            92..=93 => Op::Act("esc".to_string()),
            94..=95 => Op::Act("enter".to_string()),
            96..=97 => Op::Act("reset".to_string()),
            _ => Op::Act("space".to_string()),
        };
        let layout_op = matches!(op, Op::K(_)) || matches!(&op, Op::S(n, _) if n == STR_KB);
        ops.push(op);
        if layout_op && rng.chance(1, 2) {
            ops.push(Op::F);
        }
    }
    ops.push(Op::F);
    Case { mid: rng.chance(1, 2), ops }
}

fn gen_cases(tier: &str) -> Vec<Case> {
    let mut cases = vec![];
    let vals = values(tier);
    // A. every integer option x every value, by name and through its alias, fresh and mid-composition
    for (oi, name) in IOPTS.iter().enumerate() {
        for mid in [false, true] {
            cases.push(Case { mid, ops: vals.iter().map(|v| Op::I(name.to_string(), *v)).collect() });
            if let Some(ai) = LEGACY_OPT.iter().position(|x| *x == oi) {
                cases.push(Case { mid, ops: vals.iter().map(|v| Op::L(ai, *v)).collect() });
                // alternate alias / named so that each is read back through the other
                let mut ops = vec![];
                for (k, v) in vals.iter().enumerate() {
                    ops.push(if k % 2 == 0 { Op::L(ai, *v) } else { Op::I(name.to_string(), *v) });
                }
                cases.push(Case { mid, ops });
            }
        }
    }
    // names that are not integer options
    for mid in [false, true] {
        let mut ops = vec![];
        for n in ["chewing.nope", "", "chewing.keyboard_type", "chewing.selection_keys", "chewing.candidates_per_page ", "candidates_per_page", "CHEWING.LANGUAGE_MODE", "chewing.auto_commit_threshol"] {
            for v in [0, 1, 5, -1] {
                ops.push(Op::I(n.to_string(), v));
            }
            ops.push(Op::S(n.to_string(), b"1".to_vec()));
        }
        cases.push(Case { mid, ops });
    }
    // B. chewing_set_KBType over the window and the outliers, layout fingerprinted after every call
    for mid in [false, true] {
        let mut ops = vec![];
        for v in kb_values(tier) {
            ops.push(Op::K(v));
            ops.push(Op::F);
        }
        cases.push(Case { mid, ops });
    }
    // C. keyboard_type by name (valid and invalid), fingerprinted; then pairs number/name
    for mid in [false, true] {
        let mut ops = vec![];
        for s in kb_strings() {
            ops.push(Op::S(STR_KB.to_string(), s));
            ops.push(Op::F);
        }
        cases.push(Case { mid, ops });
    }
    for i in 0..17 {
        let mut ops = vec![];
        for j in 0..17 {
            ops.push(Op::K(i));
            ops.push(Op::S(STR_KB.to_string(), KB_NAMES[j].as_bytes().to_vec()));
            ops.push(Op::F);
            ops.push(Op::K(j as i32));
            ops.push(Op::F);
        }
        cases.push(Case { mid: i % 2 == 1, ops });
    }
    // D. selection keys: every test string in its own context (config_get_str may abort)
    for s in sel_strings() {
        cases.push(Case { mid: false, ops: vec![Op::S(STR_SEL.to_string(), s.clone()), Op::S(STR_SEL.to_string(), b"asdfghjkl;".to_vec()), Op::S(STR_SEL.to_string(), s)] });
    }
    let qw: Vec<i32> = b"qwertyuiop".iter().map(|x| *x as i32).collect();
    for (null, len, keys) in [
        (false, 10, qw.clone()),
        (false, 0, qw.clone()),
        (false, 11, { let mut k = qw.clone(); k.push(65); k }),
        (false, 9, qw.clone()),
        (false, -1, qw.clone()),
        (true, 10, qw.clone()),
        (false, 10, vec![49; 10]),
        (false, 10, vec![0; 10]),
        (false, 10, vec![256 + 49, 50, 51, 52, 53, 54, 55, 56, 57, 48]),
        (false, 10, vec![-1, 50, 51, 52, 53, 54, 55, 56, 57, 48]),
        (false, 10, vec![233, 50, 51, 52, 53, 54, 55, 56, 57, 48]),
        (false, 10, vec![256, 50, 51, 52, 53, 54, 55, 56, 57, 48]),
    ] {
        cases.push(Case { mid: false, ops: vec![Op::E(null, len, keys.clone()), Op::S(STR_SEL.to_string(), b"asdfghjkl;".to_vec()), Op::E(null, len, keys)] });
    }
    // E. deprecated chewing_Configure
    for (cand, maxlen, flags) in [(5, 20, [1, 1, 1, 1, 1, 1]), (0, 40, [2, 0, -1, 0, 1, 0]), (10, 0, [0, 0, 0, 0, 0, 0]), (11, -1, [1, 2, 3, 4, 5, 6])] {
        let mut v = vec![cand, maxlen];
        v.extend(b"asdfghjkl;".iter().map(|x| *x as i32));
        v.extend_from_slice(&flags);
        cases.push(Case { mid: false, ops: vec![Op::C(v.clone()), Op::F] });
        cases.push(Case { mid: true, ops: vec![Op::C(v)] });
    }
    // F. seeded histories mixing everything, with editor activity in between
    let mut rng = Rng::new(seed_from_env() ^ 0xC16);
    let n = if tier == "thorough" { 1500 } else { 150 };
    for _ in 0..n {
        cases.push(random_case(&mut rng, tier));
    }
    cases
}

// ------------------------------------------------------------------ worker

fn emit(line: &str) {
    let out = std::io::stdout();
    let mut o = out.lock();
    writeln!(o, "{}", line).unwrap();
    o.flush().unwrap();
}

fn do_action(c: &Ctx, a: &str) {
    unsafe {
        if let Some(h) = a.strip_prefix("keys:") {
            for k in unhex(h) {
                c.key(k);
            }
        } else {
            match a {
                "caps" => { chewing_handle_Capslock(c.0); }
                "shiftspace" => { chewing_handle_ShiftSpace(c.0); }
                "esc" => { chewing_handle_Esc(c.0); }
                "enter" => { chewing_handle_Enter(c.0); }
                "reset" => { chewing_Reset(c.0); }
                _ => { chewing_handle_Space(c.0); }
            }
        }
    }
}

/// executes one op; returns rc.  Everything written to the case file is emitted BEFORE the call that
/// may abort, so that the supervisor knows what was in flight.
fn exec_op(c: &Ctx, op: &Op) -> i32 {
    match op {
        Op::I(n, v) => c.set_int(n, *v),
        Op::L(a, v) => {
            c.legacy_set(*a, *v);
            0
        }
        Op::S(n, b) => c.set_str_bytes(n, b),
        Op::K(v) => unsafe { chewing_set_KBType(c.0, *v) },
        Op::E(null, len, keys) => {
            unsafe { chewing_set_selKey(c.0, if *null { std::ptr::null() } else { keys.as_ptr() }, *len) };
            0
        }
        Op::C(v) => {
            let mut cd = ConfigData {
                cand_per_page: v[0],
                max_chi_symbol_len: v[1],
                sel_key: [0; 10],
                b_add_phrase_forward: v[12],
                b_space_as_selection: v[13],
                b_esc_clean_all_buf: v[14],
                b_auto_shift_cur: v[15],
                b_easy_symbol_input: v[16],
                b_phrase_choice_rearward: v[17],
                hsu_sel_key_type: 0,
            };
            cd.sel_key.copy_from_slice(&v[2..12]);
            unsafe { chewing_Configure(c.0, (&mut cd as *mut ConfigData).cast()) };
            0
        }
        Op::Act(a) => {
            do_action(c, a);
            0
        }
        Op::F => 0,
    }
}

struct Run<'a> {
    refs: &'a Refs,
    by_number: &'a [Vec<String>],
    by_name: &'a [Vec<String>],
    evaluations: u64,
}

/// runs one case, emitting case lines (C), observations (O), markers (M) and oracle failures (X)
fn run_case(r: &mut Run, id: usize, case: &Case) {
    let c = new_ctx();
    if case.mid {
        for k in b"hk4g4j" {
            c.key(*k);
        }
    }
    emit(&format!("C CASE {} {}", id, c.pending()));
    let mut executed: Vec<String> = vec![];
    let mut idx = 0usize;
    let mut queue: std::collections::VecDeque<Op> = case.ops.iter().cloned().collect();
    // nothing committed (hence nothing learned) so far: the configuration probe compares with a fresh context
    // (a case that starts in the middle of a composition is not probed: the probe resets the context)
    let mut clean = !case.mid;
    let mut probed_at = usize::MAX;
    let mut changed_since_probe = false;
    while let Some(op) = queue.pop_front() {
        if let Op::Act(_) = op {
            clean = false;
        }
        if let Op::F = op {
            if clean && probed_at != idx {
                probed_at = idx;
                r.evaluations += CONFIG_PROBE.len() as u64;
                if let Some(f) = reported_configuration_in_effect(&c) {
                    emit(&format!("X {} {}", json_str("reported-configuration-not-in-effect"), json_str(&f)));
                }
            }
            // the probe compares with reference editors that run with the default options: bring every
            // integer option back to its default through recorded ops first
            let need: Vec<Op> = DEFAULTS.iter().enumerate().filter(|(o, v)| c.get_int(IOPTS[*o]) != **v).map(|(o, v)| Op::I(IOPTS[o].to_string(), *v)).collect();
            if !need.is_empty() {
                queue.push_front(Op::F);
                for n in need.into_iter().rev() {
                    queue.push_front(n);
                }
                continue;
            }
        }
        let before = observe(&c);
        executed.push(op_replay(&op));
        emit(&format!("M OP {} {} {}", id, idx, op_replay(&op)));
        if !matches!(op, Op::Act(_)) {
            emit(&format!("C {}", op_line(&op)));
        }
        let rc = exec_op(&c, &op);
        if let Op::F = op {
            let fp = fingerprint_ctx(&c);
            let cls = r.refs.classify(&fp);
            let k = c.kbtype();
            let (en, es) = if (0..17).contains(&k) { (fp == r.by_number[k as usize], fp == r.by_name[k as usize]) } else { (false, false) };
            emit(&format!("O F {} {} {} {} {}", id, idx, cls, en as i32, es as i32));
            if !(en && es) {
                let first = if (0..17).contains(&k) { first_diff(&fp, if !en { &r.by_number[k as usize] } else { &r.by_name[k as usize] }) } else { "reported layout number out of range".to_string() };
                emit(&format!("X {} {}", json_str("layout-in-effect"), json_str(&format!("reported layout {} ({}) but the keys behave like ({}): differs from chewing_set_KBType({}) fresh: {}, from keyboard_type:=name fresh: {}; {}", k, c.kbstring(), cls, k, !en, !es, first))));
            }
            r.evaluations += 95 + FP_SEQS.len() as u64;
        }
        let after = observe(&c);
        if let Op::Act(_) = op {
            let tl = (before.ints[4] != after.ints[4]) as i32;
            let tf = (before.ints[9] != after.ints[9]) as i32;
            emit(&format!("C A {} {} {}", tl, tf, after.pending));
        }
        emit(&format!("O R {} {} {} {}", id, idx, rc, fmt_obs(&after)));
        r.evaluations += 1;
        emit(&format!("M ST {} {} {}", (after != before) as i32, rc, op_replay(&op)));
        // "a rejected value leaves everything unchanged": after a rejected call (the first one since the configuration
        // last changed) the context must still behave like a fresh one configured with the values it reports
        if after != before {
            changed_since_probe = true;
        }
        if rc == -1 && clean && changed_since_probe && !matches!(op, Op::F | Op::Act(_)) {
            changed_since_probe = false;
            r.evaluations += CONFIG_PROBE.len() as u64;
            if let Some(f) = reported_configuration_in_effect(&c) {
                emit(&format!("X {} {}", json_str("reported-configuration-not-in-effect"), json_str(&f)));
            }
        }
        if let Some(f) = check_op(&op, rc, &before, &after) {
            emit(&format!("X {} {}", json_str(&format!("op-{}", op_replay(&op).split(' ').next().unwrap())), json_str(&f)));
        }
        // config_get_str(selection_keys): may abort (CString::new on an interior NUL)
        emit(&format!("M G? {} {}", id, idx));
        let (grc, gs) = c.get_str(STR_SEL);
        emit("M ok");
        if grc == 0 {
            let cps: Vec<String> = gs.chars().map(|ch| (ch as u32).to_string()).collect();
            emit(&format!("O G {} {} OK {} {}", id, idx, cps.len(), cps.join(" ")).trim_end());
            if let Op::S(n, bytes) = &op {
                if n == STR_SEL && rc == 0 && gs.as_bytes() != &bytes[..] {
                    emit(&format!("X {} {}", json_str("selection-keys-round-trip"), json_str(&format!("selection_keys := bytes {} accepted but config_get_str returns bytes {}", hex(bytes), hex(gs.as_bytes())))));
                }
            }
            let want: String = after.sel.iter().map(|k| char::from(*k as u8)).collect();
            if after.sel.iter().all(|k| (1..128).contains(k)) && gs != want {
                emit(&format!("X {} {}", json_str("selection-keys-getters"), json_str(&format!("chewing_get_selKey {:?} but config_get_str {:?}", after.sel, gs))));
            }
        } else {
            emit(&format!("O G {} {} ERR", id, idx));
            if let Op::S(n, _) = &op {
                if n == STR_SEL && rc == 0 {
                    emit(&format!("X {} {}", json_str("selection-keys-round-trip"), json_str("selection_keys accepted but config_get_str fails")));
                }
            }
        }
        idx += 1;
    }
    if clean && probed_at != idx {
        r.evaluations += CONFIG_PROBE.len() as u64;
        if let Some(f) = reported_configuration_in_effect(&c) {
            emit(&format!("X {} {}", json_str("reported-configuration-not-in-effect"), json_str(&f)));
        }
    }
    emit(&format!("M END {} {}", id, r.evaluations));
    r.evaluations = 0;
}

fn first_diff(a: &[String], b: &[String]) -> String {
    for i in 0..a.len().min(b.len()) {
        if a[i] != b[i] {
            let probe = if i < 95 { format!("key {:?}", (32 + i as u8) as char) } else { format!("sequence {:?}", FP_SEQS[i - 95]) };
            return format!("{} gives (bopomofo/pre-edit/commit) {:?} vs {:?}", probe, a[i], b[i]);
        }
    }
    "no difference".to_string()
}

fn layout_fps() -> (Vec<Vec<String>>, Vec<Vec<String>>) {
    let mut by_number = vec![];
    let mut by_name = vec![];
    for k in 0..17 {
        let c = new_ctx();
        unsafe { chewing_set_KBType(c.0, k) };
        by_number.push(fingerprint_ctx(&c));
        let c = new_ctx();
        c.set_str_bytes(STR_KB, KB_NAMES[k as usize].as_bytes());
        by_name.push(fingerprint_ctx(&c));
    }
    (by_number, by_name)
}

fn worker(tier: &str, first: usize) -> i32 {
    ensure_data(false);
    let refs = build_refs();
    let (by_number, by_name) = layout_fps();
    if first == 0 {
        // reference pairs must be distinguishable by the probe
        let amb = refs.by_fp.values().filter(|v| v.len() > 1).count();
        emit(&format!("M REFS {} ambiguous {}", refs.by_fp.len(), amb));
        // T: the two selection APIs, layout by layout, every key
        for k in 0..17usize {
            emit(&format!("C T {}", k));
            emit(&format!("O T {} {} {}", k, refs.classify(&by_number[k]), refs.classify(&by_name[k])));
            if by_number[k] != by_name[k] {
                emit(&format!("M STATIC-OPS K {}|F|S {} {}|F", k, STR_KB, hex(KB_NAMES[k].as_bytes())));
                emit(&format!(
                    "X {} {}",
                    json_str("number-vs-name"),
                    json_str(&format!("layout {} ({}): chewing_set_KBType({}) vs keyboard_type:={}: {}", k, KB_NAMES[k], k, KB_NAMES[k], first_diff(&by_number[k], &by_name[k])))
                ));
            }
        }
        // H: has_option; N: enumeration; Z: KBStr2Num
        let c = new_ctx();
        let mut names: Vec<String> = IOPTS.iter().map(|s| s.to_string()).collect();
        names.extend([STR_KB, STR_SEL, "chewing.nope", "", "chewing", "chewing.keyboard_type ", "chewing.hsu_sel_key_type"].iter().map(|s| s.to_string()));
        for n in &names {
            let cn = cs(n);
            let h = unsafe { chewing_config_has_option(c.0, cn.as_ptr()) };
            emit(&format!("C H {}", tok(n)));
            emit(&format!("O H {} {}", tok(n), h));
            let expect = (IOPTS.contains(&n.as_str()) || n == STR_KB || n == STR_SEL) as i32;
            if h != expect {
                emit(&format!("X {} {}", json_str("has-option"), json_str(&format!("chewing_config_has_option({:?}) = {}", n, h))));
            }
        }
        let total = unsafe { chewing_kbtype_Total(c.0) };
        unsafe { chewing_kbtype_Enumerate(c.0) };
        let mut en = vec![];
        while unsafe { chewing_kbtype_hasNext(c.0) } == 1 && en.len() < 300 {
            en.push(take_string(unsafe { chewing_kbtype_String(c.0) }));
        }
        emit("C N");
        emit(&format!("O N {} {}", total, en.join(" ")));
        if total != 17 || en != KB_NAMES {
            emit(&format!("X {} {}", json_str("kbtype-enumeration"), json_str(&format!("total {} names {:?}", total, en))));
        }
        for s in kb_strings() {
            let Ok(cstr) = CString::new(s.clone()) else { continue };
            let n = unsafe { chewing_KBStr2Num(cstr.as_ptr()) };
            let cps = lossy_cps(&s);
            emit(&format!("C Z {} {}", cps.len(), cps.iter().map(|x| x.to_string()).collect::<Vec<_>>().join(" ")).trim_end());
            emit(&format!("O Z {}", n));
            let want = KB_NAMES.iter().position(|k| k.as_bytes() == &s[..]).unwrap_or(0) as i32;
            if n != want {
                emit(&format!("X {} {}", json_str("KBStr2Num"), json_str(&format!("chewing_KBStr2Num(bytes {}) = {}", hex(&s), n))));
            }
        }
    }
    let cases = gen_cases(tier);
    let mut r = Run { refs: &refs, by_number: &by_number, by_name: &by_name, evaluations: 0 };
    for (id, case) in cases.iter().enumerate() {
        if id < first {
            continue;
        }
        run_case(&mut r, id, case);
    }
    emit(&format!("M DONE {} {}", cases.len(), r.evaluations));
    0
}

// ------------------------------------------------------------------ supervisor

fn views(tier: &str, impl_path: &str, cases_path: &str, oracle_path: &str) -> i32 {
    ensure_data(false);
    let exe = std::env::current_exe().expect("current_exe");
    let mut fi = std::io::BufWriter::new(std::fs::File::create(impl_path).expect("create impl"));
    let mut fc = std::io::BufWriter::new(std::fs::File::create(cases_path).expect("create cases"));
    let mut failures: Vec<String> = vec![];
    let mut next = 0usize;
    let mut restarts = 0;
    let (mut n_cases, mut evals, mut aborts) = (0usize, 0u64, 0usize);
    let mut refs_note = String::new();
    let mut changed: std::collections::HashSet<String> = std::collections::HashSet::new();
    let mut kinds: std::collections::BTreeMap<String, (u64, u64, u64)> = std::collections::BTreeMap::new(); // ops, rejected, changed
    loop {
        let mut child = Command::new(&exe).args(["worker", tier, &next.to_string()]).stdout(Stdio::piped()).stderr(Stdio::null()).spawn().expect("spawn worker");
        let rd = BufReader::new(child.stdout.take().unwrap());
        let mut done = false;
        let mut cur_case: Option<usize> = None;
        let mut cur_ops: Vec<String> = vec![];
        let mut in_flight_g: Option<(usize, usize)> = None;
        let mut last_op: Option<(usize, usize)> = None;
        for line in rd.lines() {
            let Ok(line) = line else { break };
            if let Some(l) = line.strip_prefix("C ") {
                writeln!(fc, "{}", l).unwrap();
                if let Some(rest) = l.strip_prefix("CASE ") {
                    cur_case = rest.split(' ').next().and_then(|x| x.parse().ok());
                    cur_ops.clear();
                }
            } else if let Some(l) = line.strip_prefix("O ") {
                writeln!(fi, "{}", l).unwrap();
            } else if let Some(l) = line.strip_prefix("X ") {
                // oracle failure: "<name-json> <detail-json>"; replay = the ops of the case so far
                let (name, detail) = l.split_once(' ').unwrap_or((l, "\"\""));
                if failures.len() < 200 {
                    failures.push(format!("{{\"oracle\":{},\"detail\":{},\"case\":{},\"ops\":[{}]}}", name, detail, cur_case.map_or(-1, |c| c as i64), cur_ops.iter().map(|o| json_str(o)).collect::<Vec<_>>().join(",")));
                }
            } else if let Some(l) = line.strip_prefix("M ") {
                let t: Vec<&str> = l.splitn(4, ' ').collect();
                match t[0] {
                    "OP" => {
                        cur_ops.push(t[3].to_string());
                        last_op = Some((t[1].parse().unwrap(), t[2].parse().unwrap()));
                    }
                    "G?" => in_flight_g = Some((t[1].parse().unwrap(), t[2].parse().unwrap())),
                    "ok" => in_flight_g = None,
                    "END" => {
                        cur_case = None;
                        next = t[1].parse::<usize>().unwrap() + 1;
                        evals += t.get(2).and_then(|x| x.parse::<u64>().ok()).unwrap_or(0);
                    }
                    "REFS" => refs_note = l.to_string(),
                    "ST" => {
                        let opl = t[3];
                        let kind = opl.split(' ').next().unwrap_or("?").to_string();
                        let e = kinds.entry(kind).or_insert((0, 0, 0));
                        e.0 += 1;
                        if t[2] == "-1" {
                            e.1 += 1;
                        }
                        if t[1] == "1" {
                            e.2 += 1;
                            changed.insert(opl.to_string());
                        }
                    }
                    "STATIC-OPS" => {
                        if cur_case.is_none() {
                            cur_ops = l["STATIC-OPS ".len()..].split('|').map(|x| x.to_string()).collect();
                        }
                    }
                    "DONE" => {
                        done = true;
                        n_cases = t[1].parse().unwrap();
                    }
                    _ => {}
                }
            }
        }
        let status = child.wait().expect("wait");
        if done {
            break;
        }
        // the worker died: record what was in flight, close the case, restart after it
        aborts += 1;
        restarts += 1;
        let ops_json = cur_ops.iter().map(|o| json_str(o)).collect::<Vec<_>>().join(",");
        match (cur_case, in_flight_g) {
            (Some(cid), Some((gc, gi))) if gc == cid => {
                writeln!(fi, "G {} {} PANIC", gc, gi).unwrap();
                failures.push(format!("{{\"oracle\":\"get-str-aborts\",\"detail\":{},\"case\":{},\"ops\":[{}]}}", json_str(&format!("chewing_config_get_str(\"chewing.selection_keys\") aborted the process ({:?})", status)), cid, ops_json));
            }
            (Some(cid), _) => {
                let (oc, oi) = last_op.unwrap_or((cid, 0));
                writeln!(fi, "X {} {} ABORT", oc, oi).unwrap();
                failures.push(format!("{{\"oracle\":\"call-aborts\",\"detail\":{},\"case\":{},\"ops\":[{}]}}", json_str(&format!("the process died while executing the last op ({:?})", status)), cid, ops_json));
            }
            (None, _) => {
                writeln!(fi, "X - - ABORT-OUTSIDE-CASE").unwrap();
                failures.push(format!("{{\"oracle\":\"worker-died\",\"detail\":{},\"case\":-1,\"ops\":[]}}", json_str(&format!("worker died outside a case ({:?})", status))));
                if restarts > 3 {
                    break;
                }
            }
        }
        if let Some(cid) = cur_case {
            writeln!(fc, "ABORTED").unwrap();
            next = cid + 1;
        }
        if restarts > 400 {
            failures.push("{\"oracle\":\"too-many-aborts\",\"detail\":\"giving up\",\"case\":-1,\"ops\":[]}".to_string());
            break;
        }
    }
    fi.flush().unwrap();
    fc.flush().unwrap();
    let mut fo = std::fs::File::create(oracle_path).expect("create oracle");
    // the configuration probe must tell the three conversion engines apart (else it says nothing about the engine)
    let engine_fps: Vec<Vec<String>> = (0..3)
        .map(|e| {
            let c = new_ctx();
            c.set_int("chewing.conversion_engine", e);
            config_fingerprint(&c)
        })
        .collect();
    let probe_distinguishes = engine_fps[0] != engine_fps[1] && engine_fps[1] != engine_fps[2] && engine_fps[0] != engine_fps[2];
    let hist = kinds.iter().map(|(k, v)| format!("{}:{{\"ops\":{},\"rejected\":{},\"changed_configuration\":{}}}", json_str(k), v.0, v.1, v.2)).collect::<Vec<_>>().join(",");
    writeln!(
        fo,
        "{{\"cases\":{},\"config_probe_tells_the_engines_apart\":{},\"evaluations\":{},\"aborts\":{},\"refs\":{},\"distinct_changing_ops\":{},\"ops_by_kind\":{{{}}},\"failures\":[{}]}}",
        n_cases,
        probe_distinguishes,
        evals,
        aborts,
        json_str(&refs_note),
        changed.len(),
        hist,
        failures.join(",")
    )
    .unwrap();
    0
}

// ------------------------------------------------------------------ replay

fn replay_child(ops_path: &str) -> i32 {
    ensure_data(false);
    let text = std::fs::read_to_string(ops_path).expect("read ops");
    let refs = build_refs();
    let (by_number, by_name) = layout_fps();
    let mut r = Run { refs: &refs, by_number: &by_number, by_name: &by_name, evaluations: 0 };
    let mut mid = false;
    let mut ops = vec![];
    for l in text.lines() {
        if l.trim() == "MID" {
            mid = true;
        } else if let Some(op) = parse_replay_op(l) {
            ops.push(op);
        }
    }
    run_case(&mut r, 0, &Case { mid, ops });
    emit("M DONE 1 0");
    0
}

fn json_strings(text: &str, key: &str) -> Vec<String> {
    // minimal extraction of a JSON array of strings: "key": ["..", ".."]
    let Some(p) = text.find(&format!("\"{}\"", key)) else { return vec![] };
    let Some(b) = text[p..].find('[') else { return vec![] };
    let mut out = vec![];
    let mut cur = String::new();
    let mut in_s = false;
    let mut esc = false;
    for ch in text[p + b + 1..].chars() {
        if in_s {
            if esc {
                cur.push(match ch { 'n' => '\n', 't' => '\t', c => c });
                esc = false;
            } else if ch == '\\' {
                esc = true;
            } else if ch == '"' {
                in_s = false;
                out.push(std::mem::take(&mut cur));
            } else {
                cur.push(ch);
            }
        } else if ch == '"' {
            in_s = true;
        } else if ch == ']' {
            break;
        }
    }
    out
}

fn replay(path: &str) -> i32 {
    let text = std::fs::read_to_string(path).expect("read replay");
    let ops = json_strings(&text, "ops");
    let tmp = format!("/tmp/c16-replay-{}.ops", std::process::id());
    let mut body = String::new();
    if text.contains("\"mid\": true") || text.contains("\"mid\":true") {
        body.push_str("MID\n");
    }
    for o in &ops {
        body.push_str(o);
        body.push('\n');
    }
    std::fs::write(&tmp, body).unwrap();
    let exe = std::env::current_exe().unwrap();
    let out = Command::new(&exe).args(["replay-child", &tmp]).stderr(Stdio::null()).output().expect("spawn");
    let _ = std::fs::remove_file(&tmp);
    let so = String::from_utf8_lossy(&out.stdout);
    let mut fails = 0;
    let mut done = false;
    for l in so.lines() {
        if let Some(x) = l.strip_prefix("X ") {
            println!("PROPERTY FAILS: {}", x);
            fails += 1;
        } else if let Some(o) = l.strip_prefix("O ") {
            println!("{}", o);
        } else if l.starts_with("M DONE") {
            done = true;
        } else if let Some(m) = l.strip_prefix("M OP ") {
            println!("-- op {}", m);
        }
    }
    if !done {
        println!("PROPERTY FAILS: the process aborted ({:?}) - a panic crossed extern \"C\"", out.status);
        fails += 1;
    }
    println!("{} failure(s)", fails);
    if fails > 0 { 1 } else { 0 }
}

fn main() {
    let args: Vec<String> = std::env::args().collect();
    let a = |i: usize| args.get(i).map(|s| s.as_str()).unwrap_or("");
    let rc = match a(1) {
        "views" => views(a(2), a(3), a(4), a(5)),
        "worker" => worker(a(2), a(3).parse().unwrap_or(0)),
        "replay" => replay(a(2)),
        "replay-child" => replay_child(a(2)),
        "mkdata" => {
            ensure_data(true);
            0
        }
        _ => {
            eprintln!("usage: c16 views <tier> <impl> <cases> <oracle.json> | replay <file> | mkdata");
            2
        }
    };
    std::process::exit(rc);
}
