//! capi: histories through the C API in worker processes (C01: no crash / no hang; C17: queries
//! pure, contexts independent, reset = fresh).
//!
//!   capi worker <sysdir>            (internal) reads one op per line from stdin, answers one line per op
//!   capi gen <tier> <out.json>      seeded histories, each executed in several variants by supervised workers:
//!        full   - every query function after every op, twice (repeat = equal value)
//!        bare   - no query calls at all except one full observation at the very end
//!        rand   - random query subsets at random places
//!        iso    - context A's ops interleaved with another context's own history
//!        thr    - the other context driven from a second thread at the same time
//!        reset  - prefix, chewing_Reset, explicit configuration, history   versus   fresh context,
//!                 the same explicit configuration, the same history
//!        the per-op return codes and the final observation of A must be the same in all of them;
//!        a worker that dies (panic across extern "C" = abort, signal) or does not answer within the
//!        watchdog limit is a crash / hang of the op that was sent
//!   capi replay <replay.json>       re-executes the "ops" of a replay; exit 1 if it still fails
//!   capi mkdata                     (re)build the dictionaries under _build/data/capi
//! All randomness from util::Rng seeded by VERIF_SEED and the case number.
#![allow(deprecated)]
use chewing::dictionary::{DictionaryBuilder, TrieBuilder};
use chewing::zhuyin::Syllable;
use chewing_capi::candidates::*;
use chewing_capi::globals::*;
use chewing_capi::input::*;
use chewing_capi::layout::*;
use chewing_capi::modes::*;
use chewing_capi::output::*;
use chewing_capi::setup::*;
use chewing_capi::userphrase::*;
use std::collections::HashMap;
use std::ffi::{CStr, CString, c_char, c_int, c_uint};
use std::fmt::Write as _;
use std::io::{BufRead, BufReader, Write};
use std::process::{Child, ChildStdin, Command, Stdio};
use std::ptr::null_mut;
use std::sync::mpsc::{Receiver, channel};
use std::time::Duration;
use vharness::util::{Rng, json_str, seed_from_env};

const IOPTS: [&str; 13] = [
    "chewing.user_phrase_add_direction",
    "chewing.disable_auto_learn_phrase",
    "chewing.auto_shift_cursor",
    "chewing.candidates_per_page",
    "chewing.language_mode",
    "chewing.easy_symbol_input",
    "chewing.esc_clear_all_buffer",
    "chewing.auto_commit_threshold",
    "chewing.phrase_choice_rearward",
    "chewing.character_form",
    "chewing.space_is_select_key",
    "chewing.conversion_engine",
    "chewing.enable_fullwidth_toggle_key",
];
const RANGE: [(i32, i32); 13] = [(0, 1), (0, 1), (0, 1), (1, 10), (0, 1), (0, 1), (0, 1), (0, 39), (0, 1), (0, 1), (0, 1), (0, 2), (0, 1)];
const HANDLERS: [&str; 20] = [
    "Space", "Esc", "Enter", "Del", "Backspace", "Tab", "ShiftLeft", "Left", "ShiftRight", "Right", "Up", "Home", "End", "PageUp",
    "PageDown", "Down", "Capslock", "ShiftSpace", "DblTab", "Space",
];
const LEGACY: [&str; 12] = [
    "KBType", "ChiEngMode", "ShapeMode", "candPerPage", "maxChiSymbolLen", "addPhraseDirection", "spaceAsSelection", "escCleanAllBuf",
    "autoShiftCur", "easySymbolInput", "phraseChoiceRearward", "autoLearn",
];
const NGET: usize = 30;

fn data_dir() -> String {
    std::env::var("VERIF_CAPI_DATA").unwrap_or_else(|_| "/verif/_build/data/capi".to_string())
}
fn repo_dir() -> String {
    std::env::var("VERIF_REPO").unwrap_or_else(|_| "/repo".to_string())
}

fn build_trie(src: &str, out: &str, limit: usize) {
    let text = std::fs::read_to_string(src).expect("read dictionary source");
    let mut b = TrieBuilder::new();
    let mut n = 0;
    for line in text.lines() {
        let line = line.split('#').next().unwrap_or("");
        let toks: Vec<&str> = line.split_whitespace().collect();
        if toks.len() < 3 {
            continue;
        }
        let freq: u32 = toks[1].parse().unwrap_or(0);
        let syls: Option<Vec<Syllable>> = toks[2..].iter().map(|t| t.parse::<Syllable>().ok()).collect();
        if let Some(syls) = syls {
            if !syls.is_empty() {
                let _ = b.insert(&syls, (toks[0], freq).into());
                n += 1;
                if n >= limit {
                    break;
                }
            }
        }
    }
    let tmp = format!("{}.tmp{}", out, std::process::id());
    let _ = std::fs::remove_file(&tmp);
    b.build(std::path::Path::new(&tmp)).expect("build trie");
    std::fs::rename(&tmp, out).expect("rename");
}

fn ensure_data(force: bool) {
    let d = data_dir();
    std::fs::create_dir_all(&d).expect("mkdir data");
    let r = repo_dir();
    if force || !std::path::Path::new(&format!("{d}/word.dat")).exists() {
        build_trie(&format!("{r}/data/word.src"), &format!("{d}/word.dat"), usize::MAX);
    }
    if force || !std::path::Path::new(&format!("{d}/tsi.dat")).exists() {
        build_trie(&format!("{r}/data/mini.src"), &format!("{d}/tsi.dat"), usize::MAX);
    }
    for f in ["swkb.dat", "symbols.dat"] {
        if force || !std::path::Path::new(&format!("{d}/{f}")).exists() {
            std::fs::copy(format!("{r}/data/{f}"), format!("{d}/{f}")).expect("copy data");
        }
    }
    // a second system directory: the same dictionaries, other symbol / abbreviation tables (lines in reverse order,
    // so every category and every abbreviation key is still there but menus and first entries differ)
    let alt = format!("{d}/alt");
    std::fs::create_dir_all(&alt).expect("mkdir alt");
    for f in ["word.dat", "tsi.dat"] {
        if force || !std::path::Path::new(&format!("{alt}/{f}")).exists() {
            std::fs::copy(format!("{d}/{f}"), format!("{alt}/{f}")).expect("copy dictionary");
        }
    }
    if force || !std::path::Path::new(&format!("{alt}/symbols.dat")).exists() {
        let txt = std::fs::read_to_string(format!("{r}/data/symbols.dat")).expect("symbols.dat");
        let mut lines: Vec<&str> = txt.lines().collect();
        lines.reverse();
        std::fs::write(format!("{alt}/symbols.dat"), lines.join("\n") + "\n").expect("alt symbols.dat");
    }
    if force || !std::path::Path::new(&format!("{alt}/swkb.dat")).exists() {
        let txt = std::fs::read_to_string(format!("{r}/data/swkb.dat")).expect("swkb.dat");
        // every key keeps an expansion, but its neighbour's
        let lines: Vec<&str> = txt.lines().filter(|l| !l.trim().is_empty()).collect();
        let mut out = String::new();
        for (i, l) in lines.iter().enumerate() {
            let key = l.split_whitespace().next().unwrap_or("");
            let val = lines[(i + 1) % lines.len()].split_whitespace().nth(1).unwrap_or("x");
            out.push_str(&format!("{} {}\n", key, val));
        }
        std::fs::write(format!("{alt}/swkb.dat"), out).expect("alt swkb.dat");
    }
}

// ------------------------------------------------------------------------------------ worker

fn hex(s: &str) -> String {
    s.bytes().map(|b| format!("{:02x}", b)).collect()
}
fn unhex(s: &str) -> Vec<u8> {
    (0..s.len() / 2).filter_map(|i| u8::from_str_radix(&s[2 * i..2 * i + 2], 16).ok()).collect()
}
unsafe fn take(p: *mut c_char) -> String {
    if p.is_null() {
        return "<null>".into();
    }
    let s = unsafe { CStr::from_ptr(p) }.to_string_lossy().into_owned();
    unsafe { chewing_free(p.cast()) };
    s
}
unsafe fn peek(p: *const c_char) -> String {
    if p.is_null() { "<null>".into() } else { unsafe { CStr::from_ptr(p) }.to_string_lossy().into_owned() }
}

#[derive(Clone, Copy)]
struct Ctx(*mut ChewingContext);
unsafe impl Send for Ctx {}

/// query function number g of the C API, rendered
unsafe fn getter(c: *mut ChewingContext, g: usize) -> String {
    unsafe {
        match g {
            0 => format!("commit_Check={}", chewing_commit_Check(c)),
            1 => format!("commit_String={}", take(chewing_commit_String(c))),
            2 => format!("commit_String_static={}", peek(chewing_commit_String_static(c))),
            3 => format!("buffer_Check={}", chewing_buffer_Check(c)),
            4 => format!("buffer_Len={}", chewing_buffer_Len(c)),
            5 => format!("buffer_String={}", take(chewing_buffer_String(c))),
            6 => format!("buffer_String_static={}", peek(chewing_buffer_String_static(c))),
            7 => format!("bopomofo_Check={}", chewing_bopomofo_Check(c)),
            8 => format!("bopomofo_String_static={}", peek(chewing_bopomofo_String_static(c))),
            9 => format!("cursor_Current={}", chewing_cursor_Current(c)),
            10 => format!("cand_CheckDone={}", chewing_cand_CheckDone(c)),
            11 => format!("cand_TotalPage={}", chewing_cand_TotalPage(c)),
            12 => format!("cand_ChoicePerPage={}", chewing_cand_ChoicePerPage(c)),
            13 => format!("cand_TotalChoice={}", chewing_cand_TotalChoice(c)),
            14 => format!("cand_CurrentPage={}", chewing_cand_CurrentPage(c)),
            15 => {
                let mut v = vec![];
                chewing_cand_Enumerate(c);
                let mut guard = 0;
                while chewing_cand_hasNext(c) == 1 && guard < 50_000 {
                    v.push(take(chewing_cand_String(c)));
                    guard += 1;
                }
                format!("cand_Enumerate={}", v.join(","))
            }
            16 => {
                let n = chewing_cand_TotalChoice(c).clamp(0, 4);
                let v: Vec<String> = (0..n + 1).map(|i| peek(chewing_cand_string_by_index_static(c, i))).collect();
                format!("cand_by_index={}", v.join(","))
            }
            17 => {
                let mut v = vec![];
                chewing_interval_Enumerate(c);
                let mut guard = 0;
                while chewing_interval_hasNext(c) == 1 && guard < 200 {
                    let mut it = IntervalType { from: 0, to: 0 };
                    chewing_interval_Get(c, &mut it);
                    v.push(format!("{}-{}", it.from, it.to));
                    guard += 1;
                }
                format!("intervals={}", v.join(","))
            }
            18 => format!("aux={}/{}/{}", chewing_aux_Check(c), chewing_aux_Length(c), take(chewing_aux_String(c))),
            19 => format!("keystroke={}/{}", chewing_keystroke_CheckIgnore(c), chewing_keystroke_CheckAbsorb(c)),
            20 => {
                let mut v = vec![];
                chewing_kbtype_Enumerate(c);
                let mut guard = 0;
                while chewing_kbtype_hasNext(c) == 1 && guard < 64 {
                    v.push(take(chewing_kbtype_String(c)));
                    guard += 1;
                }
                format!("kbtypes={}:{}", chewing_kbtype_Total(c), v.len())
            }
            21 => format!("KBType={}/{}", chewing_get_KBType(c), take(chewing_get_KBString(c))),
            22 => format!("modes={}/{}", chewing_get_ChiEngMode(c), chewing_get_ShapeMode(c)),
            23 => format!(
                "legacy={},{},{},{},{},{},{},{},{}",
                chewing_get_candPerPage(c),
                chewing_get_maxChiSymbolLen(c),
                chewing_get_addPhraseDirection(c),
                chewing_get_spaceAsSelection(c),
                chewing_get_escCleanAllBuf(c),
                chewing_get_autoShiftCur(c),
                chewing_get_easySymbolInput(c),
                chewing_get_phraseChoiceRearward(c),
                chewing_get_autoLearn(c)
            ),
            24 => {
                let v: Vec<String> = IOPTS
                    .iter()
                    .map(|n| {
                        let cn = CString::new(*n).unwrap();
                        chewing_config_get_int(c, cn.as_ptr()).to_string()
                    })
                    .collect();
                format!("config={}", v.join(","))
            }
            25 => {
                let p = chewing_get_selKey(c);
                if p.is_null() {
                    "selKey=<null>".into()
                } else {
                    let v: Vec<String> = (0..10).map(|i| (*p.add(i)).to_string()).collect();
                    chewing_free(p.cast());
                    format!("selKey={}", v.join(","))
                }
            }
            26 => {
                let n = chewing_get_phoneSeqLen(c);
                let p = chewing_get_phoneSeq(c);
                if p.is_null() {
                    format!("phoneSeq={}:<null>", n)
                } else {
                    let v: Vec<String> = (0..n.max(0) as usize).map(|i| (*p.add(i)).to_string()).collect();
                    chewing_free(p.cast());
                    format!("phoneSeq={}:{}", n, v.join(","))
                }
            }
            27 => format!("cand_list_has={}/{}", chewing_cand_list_has_next(c), chewing_cand_list_has_prev(c)),
            28 => {
                let mut v = vec![];
                chewing_userphrase_enumerate(c);
                let (mut pl, mut bl): (c_uint, c_uint) = (0, 0);
                let mut guard = 0;
                while chewing_userphrase_has_next(c, &mut pl, &mut bl) == 1 && guard < 500 {
                    let mut pb = vec![0u8; pl as usize + 1];
                    let mut bb = vec![0u8; bl as usize + 1];
                    let rc = chewing_userphrase_get(c, pb.as_mut_ptr().cast(), pb.len() as c_uint, bb.as_mut_ptr().cast(), bb.len() as c_uint);
                    if rc != 0 {
                        v.push(format!("rc{}", rc));
                        break;
                    }
                    v.push(format!("{}|{}", peek(pb.as_ptr().cast()), peek(bb.as_ptr().cast())));
                    guard += 1;
                }
                v.sort();
                format!("userphrases={}", v.join(";"))
            }
            _ => {
                let mut out = String::new();
                for n in ["chewing.selection_keys", "chewing.keyboard_type"] {
                    let cn = CString::new(n).unwrap();
                    let mut p: *mut c_char = null_mut();
                    let rc = chewing_config_get_str(c, cn.as_ptr(), &mut p);
                    let _ = write!(out, "{}:{};", rc, if rc == 0 { take(p) } else { String::new() });
                }
                format!("config_str={}", out)
            }
        }
    }
}

unsafe fn exec(ctxs: &mut HashMap<String, Ctx>, sys: &str, words: &[&str]) -> String {
    let id = words[0];
    if words[1] == "new" || words[1] == "newalt" {
        let s = CString::new(if words[1] == "newalt" { format!("{sys}/alt") } else { sys.to_string() }).unwrap();
        let u = CString::new(":memory:").unwrap();
        let p = unsafe { chewing_new2(s.as_ptr(), u.as_ptr(), None, null_mut()) };
        if p.is_null() {
            return "R null".into();
        }
        ctxs.insert(id.to_string(), Ctx(p));
        return "R ok".into();
    }
    let Some(Ctx(c)) = ctxs.get(id).copied() else { return "R noctx".into() };
    let int = |i: usize| -> c_int { words.get(i).and_then(|w| w.parse::<i64>().ok()).unwrap_or(0) as c_int };
    unsafe {
        match words[1] {
            "del" => {
                chewing_delete(c);
                ctxs.remove(id);
                "R ok".into()
            }
            "key" => format!("R {}", chewing_handle_Default(c, int(2))),
            "num" => format!("R {}", chewing_handle_Numlock(c, int(2))),
            "ctrl" => format!("R {}", chewing_handle_CtrlNum(c, int(2))),
            "h" => {
                let rc = match words[2] {
                    "Space" => chewing_handle_Space(c),
                    "Esc" => chewing_handle_Esc(c),
                    "Enter" => chewing_handle_Enter(c),
                    "Del" => chewing_handle_Del(c),
                    "Backspace" => chewing_handle_Backspace(c),
                    "Tab" => chewing_handle_Tab(c),
                    "ShiftLeft" => chewing_handle_ShiftLeft(c),
                    "Left" => chewing_handle_Left(c),
                    "ShiftRight" => chewing_handle_ShiftRight(c),
                    "Right" => chewing_handle_Right(c),
                    "Up" => chewing_handle_Up(c),
                    "Home" => chewing_handle_Home(c),
                    "End" => chewing_handle_End(c),
                    "PageUp" => chewing_handle_PageUp(c),
                    "PageDown" => chewing_handle_PageDown(c),
                    "Down" => chewing_handle_Down(c),
                    "Capslock" => chewing_handle_Capslock(c),
                    "ShiftSpace" => chewing_handle_ShiftSpace(c),
                    "DblTab" => chewing_handle_DblTab(c),
                    _ => -99,
                };
                format!("R {}", rc)
            }
            "seti" => {
                let n = CString::new(words[2]).unwrap();
                format!("R {}", chewing_config_set_int(c, n.as_ptr(), int(3)))
            }
            "sets" => {
                let n = CString::new(words[2]).unwrap();
                let v = CString::new(unhex(words.get(3).copied().unwrap_or("")).into_iter().filter(|b| *b != 0).collect::<Vec<u8>>()).unwrap();
                format!("R {}", chewing_config_set_str(c, n.as_ptr(), v.as_ptr()))
            }
            "leg" => {
                let v = int(3);
                match words[2] {
                    "KBType" => return format!("R {}", chewing_set_KBType(c, v)),
                    "ChiEngMode" => chewing_set_ChiEngMode(c, v),
                    "ShapeMode" => chewing_set_ShapeMode(c, v),
                    "candPerPage" => chewing_set_candPerPage(c, v),
                    "maxChiSymbolLen" => chewing_set_maxChiSymbolLen(c, v),
                    "addPhraseDirection" => chewing_set_addPhraseDirection(c, v),
                    "spaceAsSelection" => chewing_set_spaceAsSelection(c, v),
                    "escCleanAllBuf" => chewing_set_escCleanAllBuf(c, v),
                    "autoShiftCur" => chewing_set_autoShiftCur(c, v),
                    "easySymbolInput" => chewing_set_easySymbolInput(c, v),
                    "phraseChoiceRearward" => chewing_set_phraseChoiceRearward(c, v),
                    "autoLearn" => chewing_set_autoLearn(c, v),
                    _ => {}
                }
                "R -".into()
            }
            "selkey" => {
                let keys: Vec<c_int> = words[2].split(',').filter_map(|x| x.parse().ok()).collect();
                chewing_set_selKey(c, keys.as_ptr(), keys.len() as c_int);
                "R -".into()
            }
            "cand" => {
                let rc = match words[2] {
                    "open" => chewing_cand_open(c),
                    "close" => chewing_cand_close(c),
                    "first" => chewing_cand_list_first(c),
                    "last" => chewing_cand_list_last(c),
                    "next" => chewing_cand_list_next(c),
                    "prev" => chewing_cand_list_prev(c),
                    _ => -99,
                };
                format!("R {}", rc)
            }
            "choose" => format!("R {}", chewing_cand_choose_by_index(c, int(2))),
            "api" => {
                let rc = match words[2] {
                    "commit" => chewing_commit_preedit_buf(c),
                    "cleanpre" => chewing_clean_preedit_buf(c),
                    "cleanbopo" => chewing_clean_bopomofo_buf(c),
                    "reset" => chewing_Reset(c),
                    "ack" => chewing_ack(c),
                    _ => -99,
                };
                format!("R {}", rc)
            }
            "up" => {
                let p = CString::new(unhex(words[3])).unwrap_or_default();
                let b = CString::new(unhex(words[4])).unwrap_or_default();
                let rc = match words[2] {
                    "add" => chewing_userphrase_add(c, p.as_ptr(), b.as_ptr()),
                    "remove" => chewing_userphrase_remove(c, p.as_ptr(), b.as_ptr()),
                    _ => chewing_userphrase_lookup(c, p.as_ptr(), b.as_ptr()),
                };
                format!("R {}", rc)
            }
            "nolog" => {
                // chewing_set_logger(ctx, NULL, NULL): this context wants no log output (the level is process-wide)
                chewing_set_logger(c, None, null_mut());
                "R 0".into()
            }
            "upwalk" => {
                // the user-phrase enumeration read with caller buffers of the given sizes (-1 = NULL, n = n bytes,
                // guard bytes behind them): the return codes of chewing_userphrase_get, and whether a byte past the
                // stated size was written
                chewing_userphrase_enumerate(c);
                let (mut pl, mut bl): (c_uint, c_uint) = (0, 0);
                let (a, b) = (int(2), int(3));
                let mut v = vec![];
                let mut guard = 0;
                while chewing_userphrase_has_next(c, &mut pl, &mut bl) == 1 && guard < 40 {
                    let mut pb = vec![0xAAu8; a.max(0) as usize + 8];
                    let mut bb = vec![0xAAu8; b.max(0) as usize + 8];
                    let rc = chewing_userphrase_get(
                        c,
                        if a < 0 { null_mut() } else { pb.as_mut_ptr().cast() },
                        a.max(0) as c_uint,
                        if b < 0 { null_mut() } else { bb.as_mut_ptr().cast() },
                        b.max(0) as c_uint,
                    );
                    let over = pb[a.max(0) as usize..].iter().any(|x| *x != 0xAA) || bb[b.max(0) as usize..].iter().any(|x| *x != 0xAA);
                    v.push(format!("{}{}", rc, if over { "!overrun" } else { "" }));
                    guard += 1;
                }
                format!("R {}", v.join(","))
            }
            "obs" => {
                // mask: "all" or a comma list of getter numbers; each named getter is called in turn
                let list: Vec<usize> = if words[2] == "all" { (0..NGET).collect() } else { words[2].split(',').filter_map(|x| x.parse().ok()).collect() };
                // one line per answer: control characters (a committed '\n' ...) are escaped
                let v: Vec<String> = list
                    .into_iter()
                    .map(|g| getter(c, g).chars().map(|ch| if ch == ' ' { "_".to_string() } else if ch.is_control() { format!("\\u{{{:x}}}", ch as u32) } else { ch.to_string() }).collect::<String>())
                    .collect();
                format!("O {}", v.join(" "))
            }
            _ => "R badop".into(),
        }
    }
}

fn worker(sys: &str) -> i32 {
    let stdin = std::io::stdin();
    let stdout = std::io::stdout();
    let mut ctxs: HashMap<String, Ctx> = HashMap::new();
    let mut bg: Option<std::thread::JoinHandle<()>> = None;
    let mut lines = stdin.lock().lines();
    while let Some(Ok(line)) = lines.next() {
        let words: Vec<&str> = line.split_whitespace().collect();
        if words.is_empty() {
            continue;
        }
        let ans = if words[0] == "bg" {
            // bg <ctx> <n>: the next n lines are run by a second thread on context <ctx> while this thread goes on
            let n: usize = words[2].parse().unwrap_or(0);
            let mut ops = vec![];
            for _ in 0..n {
                if let Some(Ok(l)) = lines.next() {
                    ops.push(l);
                }
            }
            let id = words[1].to_string();
            let c = ctxs.get(&id).copied();
            let sysd = sys.to_string();
            bg = Some(std::thread::spawn(move || {
                let mut own: HashMap<String, Ctx> = HashMap::new();
                if let Some(c) = c {
                    own.insert(id.clone(), c);
                }
                for l in ops {
                    let w: Vec<&str> = l.split_whitespace().collect();
                    if w.len() >= 2 {
                        let _ = unsafe { exec(&mut own, &sysd, &w) };
                    }
                }
            }));
            "R bg".to_string()
        } else if words[0] == "join" {
            if let Some(h) = bg.take() {
                let _ = h.join();
            }
            "R joined".to_string()
        } else if words.len() < 2 {
            "R badop".to_string()
        } else {
            unsafe { exec(&mut ctxs, sys, &words) }
        };
        let mut o = stdout.lock();
        let _ = writeln!(o, "{}", ans);
        let _ = o.flush();
    }
    0
}

// ------------------------------------------------------------------------------------ supervisor

struct Sup {
    child: Option<(Child, ChildStdin, Receiver<String>)>,
    limit: Duration,
    spawned: usize,
    slow: usize,
    errfile: String,
}
static SUP_SEQ: std::sync::atomic::AtomicUsize = std::sync::atomic::AtomicUsize::new(0);

#[derive(Debug, Clone, PartialEq)]
enum Ans {
    Line(String),
    Crash(String),
    Hang,
}

impl Drop for Sup {
    fn drop(&mut self) {
        let _ = std::fs::remove_file(&self.errfile);
    }
}

impl Sup {
    fn new(limit_ms: u64) -> Sup {
        let k = SUP_SEQ.fetch_add(1, std::sync::atomic::Ordering::SeqCst);
        Sup {
            child: None,
            limit: Duration::from_millis(limit_ms),
            spawned: 0,
            slow: 0,
            errfile: format!("{}/capi-worker-{}-{}.err", std::env::temp_dir().display(), std::process::id(), k),
        }
    }
    fn ensure(&mut self) {
        if self.child.is_some() {
            return;
        }
        let exe = std::env::current_exe().unwrap();
        let errf = std::fs::File::create(&self.errfile).unwrap();
        let mut ch = Command::new(exe).arg("worker").arg(data_dir()).stdin(Stdio::piped()).stdout(Stdio::piped()).stderr(Stdio::from(errf)).spawn().expect("spawn worker");
        let stdin = ch.stdin.take().unwrap();
        let stdout = ch.stdout.take().unwrap();
        let (tx, rx) = channel();
        std::thread::spawn(move || {
            for l in BufReader::new(stdout).lines().map_while(Result::ok) {
                if tx.send(l).is_err() {
                    break;
                }
            }
        });
        self.spawned += 1;
        self.child = Some((ch, stdin, rx));
    }
    fn kill(&mut self) {
        if let Some((mut ch, _, _)) = self.child.take() {
            let _ = ch.kill();
            let _ = ch.wait();
        }
    }
    /// send raw lines (no answer expected for the extra lines of a bg block), wait for one answer
    fn send(&mut self, lines: &[String]) -> Ans {
        self.ensure();
        let (_, stdin, rx) = self.child.as_mut().unwrap();
        for l in lines {
            if writeln!(stdin, "{}", l).is_err() {
                break;
            }
        }
        let _ = stdin.flush();
        let first = rx.recv_timeout(self.limit);
        let first = match first {
            Err(std::sync::mpsc::RecvTimeoutError::Timeout) => {
                // no answer within the watchdog limit: the machine may just be busy - a hang is declared
                // only when nothing arrives within ten more limits (a late answer is counted as slow)
                self.slow += 1;
                rx.recv_timeout(self.limit * 10)
            }
            x => x,
        };
        match first {
            Ok(l) => Ans::Line(l),
            Err(std::sync::mpsc::RecvTimeoutError::Timeout) => {
                self.kill();
                Ans::Hang
            }
            Err(_) => {
                let status = self.child.as_mut().map(|(c, _, _)| c.wait().map(|s| format!("{:?}", s)).unwrap_or_default()).unwrap_or_default();
                let err = std::fs::read_to_string(&self.errfile).unwrap_or_default();
                // the first panic message (the abort that follows it in an extern "C" function is a consequence)
                let ls: Vec<&str> = err.lines().collect();
                let msg: String = ls
                    .iter()
                    .position(|l| l.contains("panicked at"))
                    .map(|i| format!("{} {}", ls[i], ls.get(i + 1).copied().unwrap_or("")))
                    .unwrap_or_default()
                    .chars()
                    .take(400)
                    .collect();
                self.child = None;
                Ans::Crash(format!("{} {}", status, msg))
            }
        }
    }
}

#[derive(Clone, Debug)]
struct Failure {
    signature: String,
    detail: String,
    ops: Vec<String>,
}

// ---- generation

fn rand_int(rng: &mut Rng) -> i64 {
    match rng.below(10) {
        0 => -1,
        1 => 256 + rng.below(70000) as i64,
        2 => *rng.pick(&[0i64, 127, 128, 255, 1024, -128, i32::MAX as i64, i32::MIN as i64]),
        _ => rng.below(256) as i64,
    }
}

const READINGS: [&str; 12] = ["hk4", "g4", "5j/ ", "jp6", "su3", "cl3", "ji3", "vu;6", "2k7", "xu.6", "rup ", "ul4"];

fn config_op(rng: &mut Rng, wild: bool) -> String {
    match rng.below(10) {
        0..=4 => {
            let i = rng.below(13) as usize;
            let v = if wild && rng.chance(1, 4) { rand_int(rng) } else { rng.range(RANGE[i].0 as i64, RANGE[i].1 as i64) };
            format!("seti {} {}", IOPTS[i], v)
        }
        5 | 6 => {
            let i = rng.below(12) as usize;
            let v = match LEGACY[i] {
                "KBType" => {
                    if wild && rng.chance(1, 5) {
                        rand_int(rng)
                    } else {
                        rng.below(17) as i64
                    }
                }
                "candPerPage" => 1 + rng.below(10) as i64,
                "maxChiSymbolLen" => rng.below(40) as i64,
                _ => {
                    if wild && rng.chance(1, 5) {
                        rand_int(rng)
                    } else {
                        rng.below(2) as i64
                    }
                }
            };
            format!("leg {} {}", LEGACY[i], v)
        }
        7 => {
            let names = ["KB_DEFAULT", "KB_HSU", "KB_IBM", "KB_GIN_YIEH", "KB_ET", "KB_ET26", "KB_DVORAK", "KB_DVORAK_HSU", "KB_DACHEN_CP26", "KB_HANYU_PINYIN", "KB_THL_PINYIN", "KB_MPS2_PINYIN", "KB_CARPALX", "KB_COLEMAK_DH_ANSI", "KB_COLEMAK_DH_ORTH", "KB_WORKMAN", "KB_COLEMAK", "KB_NOPE"];
            format!("sets chewing.keyboard_type {}", hex(*rng.pick(&names)))
        }
        8 => {
            let v = *rng.pick(&["1234567890", "asdfghjkl;", "asdfzxcv89", "aoeuhtn789", "123456789", "ééééé", ""][..]);
            format!("sets chewing.selection_keys {}", hex(v))
        }
        _ => {
            let keys: Vec<String> = (0..10).map(|i| if wild && rng.chance(1, 10) { rand_int(rng).to_string() } else { (b"1234567890"[i] as i64).to_string() }).collect();
            format!("selkey {}", keys.join(","))
        }
    }
}

/// a history of editing ops for one context (no context id, no observation ops)
fn gen_history(rng: &mut Rng, len: usize, wild: bool, learning: bool) -> Vec<String> {
    let mut ops = vec![];
    while ops.len() < len {
        match rng.below(100) {
            0..=34 => {
                for ch in rng.pick(&READINGS).chars() {
                    ops.push(format!("key {}", ch as u32));
                }
            }
            35..=44 => ops.push(format!("key {}", if wild { rand_int(rng) } else { 32 + rng.below(95) as i64 })),
            45..=62 => ops.push(format!("h {}", rng.pick(&HANDLERS))),
            63..=66 => ops.push(format!("num {}", if wild { rand_int(rng) } else { 48 + rng.below(10) as i64 })),
            67..=69 => ops.push(format!("ctrl {}", if wild { rand_int(rng) } else { 48 + rng.below(10) as i64 })),
            70..=77 => ops.push(format!("cand {}", rng.pick(&["open", "close", "first", "last", "next", "prev", "open", "open"]))),
            78..=81 => ops.push(format!("choose {}", if rng.chance(3, 4) { rng.below(8) as i64 } else { rand_int(rng) })),
            82 => {
                // a one-syllable candidate list under a layout with alternate syllables (Hsu, ET26, DaChen 26),
                // a small page size, then paging
                ops.push(format!("leg KBType {}", rng.pick(&[1i64, 5, 8])));
                ops.push(format!("leg candPerPage {}", 1 + rng.below(9)));
                ops.push(format!("key {}", b'a' + rng.below(26) as u8));
                ops.push("key 32".into());
                ops.push("h Down".into());
                for _ in 0..rng.below(4) {
                    ops.push(format!("h {}", rng.pick(&["Right", "PageDown", "Space", "Left", "Down"])));
                }
            }
            83..=84 => ops.push(format!("api {}", rng.pick(&["commit", "cleanpre", "cleanbopo", "ack", "reset"]))),
            85..=94 => ops.push(config_op(rng, wild)),
            _ => {
                if learning {
                    let (p, b) = *rng.pick(&[("測試", "ㄘㄜˋ ㄕˋ"), ("策士", "ㄘㄜˋ ㄕˋ"), ("冊", "ㄘㄜˋ"), ("新酷音", "ㄒㄧㄣ ㄎㄨˋ ㄧㄣ"), ("不對", "ㄅㄨ")]);
                    ops.push(format!("up {} {} {}", rng.pick(&["add", "remove", "lookup", "add"]), hex(p), hex(b)));
                    if rng.chance(1, 3) {
                        // read the enumeration back with caller buffers of odd sizes (NULL, empty, too short, ample)
                        ops.push(format!("upwalk {} {}", rng.pick(&[-1i64, 0, 1, 3, 4, 7, 64]), rng.pick(&[-1i64, 0, 1, 5, 8, 128])));
                    }
                } else {
                    ops.push("h Down".into());
                }
            }
        }
    }
    ops
}

fn with_ctx(id: &str, ops: &[String]) -> Vec<String> {
    ops.iter().map(|o| format!("{} {}", id, o)).collect()
}

/// run a script on a supervised worker: returns per-line answers; stops at a crash / hang
fn run_script(sup: &mut Sup, script: &[Vec<String>]) -> Vec<Ans> {
    let mut out = vec![];
    for block in script {
        let a = sup.send(block);
        let bad = !matches!(a, Ans::Line(_));
        out.push(a);
        if bad {
            break;
        }
    }
    out
}

fn single(lines: Vec<String>) -> Vec<Vec<String>> {
    lines.into_iter().map(|l| vec![l]).collect()
}

fn explicit_config(rng: &mut Rng) -> Vec<String> {
    let mut v = vec![format!("leg KBType {}", rng.below(17))];
    for i in 0..13 {
        // learning stays off in the reset variant so that both contexts keep the same (empty) user dictionary
        let val = if IOPTS[i] == "chewing.disable_auto_learn_phrase" { 1 } else { rng.range(RANGE[i].0 as i64, RANGE[i].1 as i64) };
        v.push(format!("seti {} {}", IOPTS[i], val));
    }
    v.push(format!("sets chewing.selection_keys {}", hex(*rng.pick(&["1234567890", "asdfghjkl;"]))));
    v
}

struct Stats {
    cases: usize,
    ops: usize,
    crashes: usize,
    hangs: usize,
    variants: usize,
    kinds: std::collections::BTreeMap<String, usize>,
}

fn first_bad(a: &[Ans]) -> Option<(usize, &Ans)> {
    a.iter().enumerate().find(|(_, x)| !matches!(x, Ans::Line(_)))
}

fn rcs(script: &[Vec<String>], ans: &[Ans], id: &str) -> Vec<String> {
    // the answers of context `id`'s non-observation ops, in order
    script
        .iter()
        .zip(ans.iter())
        .filter(|(b, _)| b[0].starts_with(&format!("{} ", id)) && !b[0].contains(" obs ") && !b[0].ends_with(" new") && !b[0].ends_with(" del"))
        .map(|(_, a)| match a {
            Ans::Line(l) => l.clone(),
            x => format!("{:?}", x),
        })
        .collect()
}

fn last_obs(script: &[Vec<String>], ans: &[Ans], id: &str) -> Option<String> {
    script.iter().zip(ans.iter()).filter(|(b, _)| b[0] == format!("{} obs all", id)).filter_map(|(_, a)| if let Ans::Line(l) = a { Some(l.clone()) } else { None }).last()
}

fn check_case(sup: &mut Sup, rng: &mut Rng, n: usize, tier: &str, stats: &mut Stats, fails: &mut Vec<Failure>) {
    let wild = rng.chance(1, 2);
    let learning = rng.chance(1, 2);
    let len = if tier == "thorough" { 30 + rng.below(90) } else { 15 + rng.below(45) } as usize;
    let h = gen_history(rng, len, wild, learning);
    for o in &h {
        *stats.kinds.entry(o.split_whitespace().next().unwrap().to_string()).or_insert(0) += 1;
    }
    stats.ops += h.len();
    let a_ops = with_ctx("A", &h);
    let crash_check = |tag: &str, script: &[Vec<String>], ans: &[Ans], stats: &mut Stats, fails: &mut Vec<Failure>| -> bool {
        if let Some((k, a)) = first_bad(ans) {
            let upto: Vec<Vec<String>> = script[..=k].to_vec();
            match a {
                Ans::Hang => {
                    stats.hangs += 1;
                    fails.push(Failure { signature: "hang".into(), detail: format!("variant {} case {}: no answer to `{}`", tag, n, script[k][0]), ops: upto.into_iter().flatten().collect() });
                }
                Ans::Crash(m) => {
                    stats.crashes += 1;
                    fails.push(Failure { signature: "crash".into(), detail: format!("variant {} case {}: worker died in `{}`: {}", tag, n, script[k][0], m), ops: upto.into_iter().flatten().collect() });
                }
                _ => {}
            }
            true
        } else {
            false
        }
    };

    // ---- bare: no queries but the final observation
    let mut bare = vec!["A new".to_string()];
    bare.extend(a_ops.iter().cloned());
    bare.push("A obs all".into());
    bare.push("A del".into());
    let bare = single(bare);
    let ans_bare = run_script(sup, &bare);
    stats.variants += 1;
    if crash_check("bare", &bare, &ans_bare, stats, fails) {
        return;
    }
    let rc_bare = rcs(&bare, &ans_bare, "A");
    let obs_bare = last_obs(&bare, &ans_bare, "A");

    // ---- full: every query after every op, twice
    let mut full = vec!["A new".to_string()];
    for o in &a_ops {
        full.push(o.clone());
        full.push("A obs all".into());
        full.push("A obs all".into());
    }
    full.push("A del".into());
    let full = single(full);
    let ans_full = run_script(sup, &full);
    stats.variants += 1;
    if crash_check("full", &full, &ans_full, stats, fails) {
        return;
    }
    for k in 0..full.len().saturating_sub(1) {
        if full[k][0] == "A obs all" && full[k + 1][0] == "A obs all" && ans_full[k] != ans_full[k + 1] {
            fails.push(Failure {
                signature: "repeated-query-differs".into(),
                detail: format!("case {}: after `{}`: {:?} then {:?}", n, full[k - 1][0], ans_full[k], ans_full[k + 1]),
                ops: full[..=k + 1].iter().flatten().cloned().collect(),
            });
            break;
        }
    }
    let compare = |tag: &str, script: &[Vec<String>], ans: &[Ans], fails: &mut Vec<Failure>| {
        let rc = rcs(script, ans, "A");
        if rc != rc_bare {
            let k = rc.iter().zip(rc_bare.iter()).position(|(a, b)| a != b).unwrap_or(rc.len().min(rc_bare.len()));
            fails.push(Failure {
                signature: format!("{}-changes-results", tag),
                detail: format!("case {}: result #{} of A is {:?} but {:?} without ({})", n, k, rc.get(k), rc_bare.get(k), h.get(k).cloned().unwrap_or_default()),
                ops: script.iter().flatten().cloned().collect(),
            });
            return;
        }
        let ob = last_obs(script, ans, "A");
        if ob != obs_bare {
            fails.push(Failure {
                signature: format!("{}-changes-final-state", tag),
                detail: format!("case {}: final observation differs: {} VERSUS {}", n, ob.unwrap_or_default().chars().take(1500).collect::<String>(), obs_bare.clone().unwrap_or_default().chars().take(1500).collect::<String>()),
                ops: script.iter().flatten().cloned().collect(),
            });
        }
    };
    compare("queries", &full, &ans_full, fails);
    for (k, a) in ans_full.iter().enumerate() {
        if let Ans::Line(l) = a {
            if !l.starts_with("O ") {
                continue;
            }
            let get = |name: &str| -> i64 { l.split(' ').find_map(|f| f.strip_prefix(name)).and_then(|v| v.parse().ok()).unwrap_or(-1) };
            let (done, pages, per, total, cur) = (get("cand_CheckDone="), get("cand_TotalPage="), get("cand_ChoicePerPage="), get("cand_TotalChoice="), get("cand_CurrentPage="));
            if done == 0 && per > 0 {
                let enumerated = l.split(' ').find_map(|f| f.strip_prefix("cand_Enumerate=")).map(|v| if v.is_empty() { 0 } else { v.split(',').count() as i64 }).unwrap_or(-1);
                let mut what = String::new();
                if pages != (total + per - 1) / per {
                    what = format!("page count {} for {} candidates at {} per page", pages, total, per);
                } else if (total > 0 && cur >= pages) || (total == 0 && cur != 0) {
                    what = format!("current page {} of {}", cur, pages);
                } else if enumerated >= 0 && enumerated < 50_000 && enumerated != total - cur * per {   // (the worker stops enumerating at 50 000)
                    // chewing_cand_Enumerate starts at the first candidate of the current page
                    what = format!("{} candidates enumerated from page {} of a list of {} at {} per page", enumerated, cur, total, per);
                }
                if !what.is_empty() {
                    fails.push(Failure {
                        signature: "paging".into(),
                        detail: format!("case {}: after `{}`: {}", n, full[..k].iter().rev().find(|b| !b[0].contains(" obs ")).map(|b| b[0].clone()).unwrap_or_default(), what),
                        ops: full[..=k].iter().flatten().cloned().collect(),
                    });
                    break;
                }
            }
        }
    }

    // ---- rand: random query subsets at random places
    let mut rnd = vec!["A new".to_string()];
    for o in &a_ops {
        rnd.push(o.clone());
        if rng.chance(1, 3) {
            let k = 1 + rng.below(4);
            let list: Vec<String> = (0..k).map(|_| rng.below(NGET as u64).to_string()).collect();
            for _ in 0..(1 + rng.below(2)) {
                rnd.push(format!("A obs {}", list.join(",")));
            }
        }
    }
    rnd.push("A obs all".into());
    rnd.push("A del".into());
    let rnd = single(rnd);
    let ans_rnd = run_script(sup, &rnd);
    stats.variants += 1;
    if crash_check("rand", &rnd, &ans_rnd, stats, fails) {
        return;
    }
    compare("queries", &rnd, &ans_rnd, fails);

    // ---- iso: another context with its own history, interleaved
    let hb = gen_history(rng, len, wild, true);
    let b_ops = with_ctx("B", &hb);
    let mut iso = vec!["A new".to_string(), "B new".to_string()];
    if n % 2 == 0 {
        // the other context turns ITS log output off: nobody else's business
        iso.push("B nolog".to_string());
    }
    let (mut i, mut j) = (0, 0);
    while i < a_ops.len() || j < b_ops.len() {
        if j >= b_ops.len() || (i < a_ops.len() && rng.chance(1, 2)) {
            iso.push(a_ops[i].clone());
            i += 1;
        } else {
            iso.push(b_ops[j].clone());
            if rng.chance(1, 4) {
                iso.push("B obs all".into());
            }
            j += 1;
        }
    }
    iso.push("A obs all".into());
    iso.push("B del".into());
    iso.push("A del".into());
    let iso = single(iso);
    let ans_iso = run_script(sup, &iso);
    stats.variants += 1;
    if crash_check("iso", &iso, &ans_iso, stats, fails) {
        return;
    }
    compare("other-context", &iso, &ans_iso, fails);

    // ---- alt: in a FRESH worker process another context over another system directory (other symbol and
    //      abbreviation tables) is created first and used; then A runs its history followed by the symbol menu and
    //      an easy-symbol key.  A's answers must be those of the same script in a process that never saw the other
    //      system directory (process-wide caches couple contexts)
    if n % 2 == 1 {
        let tail: Vec<String> = ["api reset", "seti chewing.language_mode 1", "key 96", "obs all", "key 51", "obs all", "key 50", "obs all", "h Esc", "h Esc",
                                 "seti chewing.easy_symbol_input 1", "key 65", "key 76", "obs all", "h Enter", "obs all"]
            .iter()
            .map(|o| format!("A {}", o))
            .collect();
        let mut own = vec!["A new".to_string()];
        own.extend(a_ops.iter().cloned());
        own.extend(tail.iter().cloned());
        own.push("A del".into());
        let own = single(own);
        let ans_own = run_script(sup, &own);
        stats.variants += 1;
        if crash_check("alt-alone", &own, &ans_own, stats, fails) {
            return;
        }
        sup.kill();
        let mut alt = vec!["B newalt".to_string(), "B key 96".to_string(), "B key 49".to_string(), "B obs all".to_string(), "B h Esc".to_string()];
        alt.extend(b_ops.iter().take(12).cloned());
        alt.push("A new".into());
        alt.extend(a_ops.iter().cloned());
        alt.extend(tail.iter().cloned());
        alt.push("A del".into());
        alt.push("B del".into());
        let alt = single(alt);
        let ans_alt = run_script(sup, &alt);
        sup.kill();
        stats.variants += 1;
        if crash_check("alt", &alt, &ans_alt, stats, fails) {
            return;
        }
        let of_a = |script: &[Vec<String>], ans: &[Ans]| -> Vec<(String, String)> {
            script.iter().zip(ans.iter()).filter(|(b, _)| b[0].starts_with("A ")).map(|(b, a)| (b[0].clone(), match a { Ans::Line(l) => l.clone(), x => format!("{:?}", x) })).collect()
        };
        let (x, y) = (of_a(&own, &ans_own), of_a(&alt, &ans_alt));
        if let Some(k) = x.iter().zip(y.iter()).position(|(a, b)| a != b) {
            fails.push(Failure {
                signature: "other-context-changes-results".into(),
                detail: format!("case {}: after a context over another system directory was used in the same process, `{}` answers {} but {} in a process of its own",
                                n, x[k].0, y[k].1.chars().take(700).collect::<String>(), x[k].1.chars().take(700).collect::<String>()),
                ops: alt.iter().flatten().cloned().collect(),
            });
        }
    }

    // ---- thr: the other context driven from a second thread at the same time
    if n % 3 == 0 {
        let mut thr: Vec<Vec<String>> = vec![vec!["A new".into()], vec!["B new".into()]];
        let mut block = vec![format!("bg B {}", b_ops.len())];
        block.extend(b_ops.iter().cloned());
        thr.push(block);
        for o in &a_ops {
            thr.push(vec![o.clone()]);
        }
        thr.push(vec!["join".into()]);
        thr.push(vec!["A obs all".into()]);
        thr.push(vec!["B del".into()]);
        thr.push(vec!["A del".into()]);
        let ans_thr = run_script(sup, &thr);
        stats.variants += 1;
        if crash_check("thr", &thr, &ans_thr, stats, fails) {
            return;
        }
        compare("other-thread", &thr, &ans_thr, fails);
    }

    // ---- reset: prefix, Reset, explicit configuration, history  vs  fresh, configuration, history
    let plen = 5 + rng.below(25) as usize;
    let prefix = gen_history(rng, plen, false, false);
    let conf = explicit_config(rng);
    let h2len = 10 + rng.below(30) as usize;
    let h2 = gen_history(rng, h2len, false, false);
    let mut rs = vec!["A new".to_string(), "A seti chewing.disable_auto_learn_phrase 1".to_string()];
    // nothing in the reset pair may write the user dictionary: auto-learning is off, Ctrl-number (add the
    // phrase before the cursor) is left out
    // phrase before the cursor) and Shift-Left / Shift-Right (highlight a range, Enter adds it as a user phrase whatever
    // the auto-learn setting) are left out - found by the seed sweep (seed 12): a prefix that added a phrase this way made
    // the reset context's user dictionary differ from the fresh one's, which the property allows
    let quiet = |o: &String| {
        !o.contains("disable_auto_learn") && !o.contains("autoLearn") && !o.contains(" ctrl ") && !o.contains(" h ShiftLeft") && !o.contains(" h ShiftRight")
    };
    rs.extend(with_ctx("A", &prefix).into_iter().filter(quiet));
    let cut = rs.len();
    rs.push("A api reset".into());
    rs.extend(with_ctx("A", &conf));
    let body_from = rs.len();
    for o in with_ctx("A", &h2).into_iter().filter(quiet) {
        rs.push(o);
        rs.push("A obs all".into());
    }
    rs.push("A del".into());
    let mut fr = vec!["A new".to_string()];
    fr.extend(with_ctx("A", &conf));
    fr.extend(rs[body_from..].iter().cloned());
    let _ = cut;
    let (rs, fr) = (single(rs), single(fr));
    let ans_rs = run_script(sup, &rs);
    stats.variants += 1;
    if crash_check("reset", &rs, &ans_rs, stats, fails) {
        return;
    }
    let ans_fr = run_script(sup, &fr);
    stats.variants += 1;
    if crash_check("fresh", &fr, &ans_fr, stats, fails) {
        return;
    }
    let tail_rs: Vec<&Ans> = ans_rs[body_from..].iter().collect();
    let tail_fr: Vec<&Ans> = ans_fr[fr.len() - (rs.len() - body_from)..].iter().collect();
    if let Some(k) = tail_rs.iter().zip(tail_fr.iter()).position(|(a, b)| a != b) {
        fails.push(Failure {
            signature: "reset-differs-from-fresh".into(),
            detail: format!("case {}: after `{}`: reset context {:?} VERSUS fresh context {:?}", n, rs[body_from + k][0], tail_rs[k], tail_fr[k]).chars().take(3000).collect(),
            ops: rs[..=body_from + k].iter().flatten().cloned().collect(),
        });
    }
}

fn generate(tier: &str, out_path: &str) -> i32 {
    ensure_data(false);
    let seed = seed_from_env();
    let cases = std::env::var("VERIF_CAPI_CASES").ok().and_then(|s| s.parse().ok()).unwrap_or(if tier == "thorough" { 6000 } else { 400 });
    let limit_ms = std::env::var("VERIF_CAPI_WATCHDOG_MS").ok().and_then(|s| s.parse().ok()).unwrap_or(20_000);
    let threads = 8usize;
    let mut handles = vec![];
    for t in 0..threads {
        let tier = tier.to_string();
        handles.push(std::thread::spawn(move || {
            let mut sup = Sup::new(limit_ms);
            let mut stats = Stats { cases: 0, ops: 0, crashes: 0, hangs: 0, variants: 0, kinds: Default::default() };
            let mut fails = vec![];
            let mut n = t;
            while n < cases && stats.hangs < 2 {
                let mut rng = Rng::new(seed.wrapping_mul(7_000_003).wrapping_add(n as u64));
                check_case(&mut sup, &mut rng, n, &tier, &mut stats, &mut fails);
                stats.cases += 1;
                n += threads;
            }
            sup.kill();
            let _ = std::fs::remove_file(&sup.errfile);
            (stats, fails, sup.spawned + 1000000 * sup.slow)
        }));
    }
    let mut total = Stats { cases: 0, ops: 0, crashes: 0, hangs: 0, variants: 0, kinds: Default::default() };
    let mut fails: Vec<Failure> = vec![];
    let mut spawned = 0;
    let mut slow = 0;
    for h in handles {
        let (s, f, sp) = h.join().unwrap();
        total.cases += s.cases;
        total.ops += s.ops;
        total.crashes += s.crashes;
        total.hangs += s.hangs;
        total.variants += s.variants;
        for (k, v) in s.kinds {
            *total.kinds.entry(k).or_insert(0) += v;
        }
        fails.extend(f);
        spawned += sp % 1000000;
        slow += sp / 1000000;
    }
    let mut js = String::from("{");
    let _ = write!(js, "\"cases\":{},\"ops\":{},\"variants\":{},\"crashes\":{},\"hangs\":{},\"workers_spawned\":{},\"slow_answers\":{},", total.cases, total.ops, total.variants, total.crashes, total.hangs, spawned, slow);
    let kinds: Vec<String> = total.kinds.iter().map(|(k, v)| format!("\"{}\":{}", k, v)).collect();
    let _ = write!(js, "\"op_kinds\":{{{}}},\"failures\":[", kinds.join(","));
    for (i, f) in fails.iter().enumerate() {
        if i > 0 {
            js.push(',');
        }
        let ops: Vec<String> = f.ops.iter().map(|o| json_str(o)).collect();
        let _ = write!(js, "{{\"signature\":{},\"detail\":{},\"ops\":[{}]}}", json_str(&f.signature), json_str(&f.detail), ops.join(","));
    }
    js.push_str("]}");
    std::fs::write(out_path, &js).unwrap();
    println!("{}", &js[..js.find(",\"failures\"").unwrap_or(js.len())]);
    0
}

fn replay(path: &str) -> i32 {
    ensure_data(false);
    let text = std::fs::read_to_string(path).unwrap();
    // minimal extraction of the "ops" string array
    let start = text.find("\"ops\"").and_then(|i| text[i..].find('[').map(|j| i + j + 1)).unwrap_or(0);
    let end = text[start..].find(']').map(|j| start + j).unwrap_or(text.len());
    let ops: Vec<String> = text[start..end].split("\",").map(|s| s.trim().trim_matches(|c| c == '"' || c == ',' || c == '\n' || c == ' ').replace("\\\"", "\"")).filter(|s| !s.is_empty()).collect();
    let mut sup = Sup::new(30_000);
    let mut i = 0;
    let mut bad = false;
    while i < ops.len() {
        let block: Vec<String> = if ops[i].starts_with("bg ") {
            let n: usize = ops[i].split_whitespace().nth(2).and_then(|x| x.parse().ok()).unwrap_or(0);
            let b = ops[i..(i + 1 + n).min(ops.len())].to_vec();
            i += n;
            b
        } else {
            vec![ops[i].clone()]
        };
        let a = sup.send(&block);
        println!("{} -> {:?}", block[0], a);
        if !matches!(a, Ans::Line(_)) {
            bad = true;
            break;
        }
        i += 1;
    }
    sup.kill();
    bad as i32
}

fn main() {
    let args: Vec<String> = std::env::args().skip(1).collect();
    let code = match args.first().map(|s| s.as_str()) {
        Some("worker") => worker(&args[1]),
        Some("gen") => generate(&args[1], &args[2]),
        Some("replay") => replay(&args[1]),
        Some("mkdata") => {
            ensure_data(true);
            0
        }
        _ => {
            eprintln!("usage: capi gen <tier> <out.json> | capi replay <file> | capi mkdata");
            2
        }
    };
    std::process::exit(code);
}
