//! C09: mutable dictionaries behave as a map under any update history.
//!   c09 gen    <quick|thorough> <cases.txt>          seeded histories for every back end
//!   c09 run    <cases.txt> <views.out> <oracle.json> implementation side of the correspondence
//!                                                    + property oracle against a reference map
//!   c09 replay <case.txt>                            run one case file, print views + oracle verdict
//!
//! Case file (numbers are decimal; key/text = comma separated u16 codes / scalar values, "-" = empty):
//!   CASE <name> <backend>      backend: mem file sqlite sqlitefile layered layeredfile trie
//!   T <layer> <key> <text> <freq> <time|->   entry of a TrieBuilder-built file: layer 0.. = system
//!                                            Tries (layered, trie), layer u = initial user file (file, layeredfile)
//!   A <key> <text> <freq> <time|->   add_phrase
//!   U <key> <text> <orig> <user_freq> <time>  update_phrase
//!   R <key> <text>             remove_phrase
//!   L <key> <n|max> <S|F>      lookup_first_n_phrases (S = Standard, F = FuzzyPartialPrefix)
//!   E                          entries() (printed sorted: compared as a multiset)
//!   F                          flush()
//!   W                          reopen(), after waiting for an in-flight writer to finish
//!   END
use chewing::dictionary::{
    Dictionary, DictionaryBuilder, DictionaryMut, Layered, LookupStrategy, Phrase, SqliteDictionary, Trie,
    TrieBuf, TrieBuilder,
};
use chewing::zhuyin::{Bopomofo, Syllable};
use std::collections::{BTreeMap, BTreeSet};
use std::fmt::Write as _;
use std::io::{BufWriter, Write};
use std::path::{Path, PathBuf};
use vharness::util::{catch, json_str, seed_from_env, Rng};

// ------------------------------------------------------------------ cases

#[derive(Clone, Debug, PartialEq)]
enum Op {
    Add(Vec<u16>, String, u32, Option<u64>),
    Update(Vec<u16>, String, u32, u32, u64),
    Remove(Vec<u16>, String),
    Lookup(Vec<u16>, usize, bool),
    Entries,
    Flush,
    Reopen,
}

#[derive(Clone, Debug)]
struct Case {
    name: String,
    backend: String,
    init: Vec<(String, Vec<u16>, String, u32, Option<u64>)>,
    ops: Vec<Op>,
}

fn fmt_seq<T: std::fmt::Display>(xs: impl Iterator<Item = T>) -> String {
    let v: Vec<String> = xs.map(|x| x.to_string()).collect();
    if v.is_empty() { "-".to_string() } else { v.join(",") }
}
fn fmt_key(k: &[u16]) -> String {
    fmt_seq(k.iter())
}
fn fmt_text(s: &str) -> String {
    fmt_seq(s.chars().map(|c| c as u32))
}
fn fmt_opt(t: Option<u64>) -> String {
    t.map_or("-".to_string(), |x| x.to_string())
}
fn parse_key(s: &str) -> Vec<u16> {
    if s == "-" { vec![] } else { s.split(',').map(|x| x.parse().expect("key")).collect() }
}
fn parse_text(s: &str) -> String {
    if s == "-" {
        String::new()
    } else {
        s.split(',').map(|x| char::from_u32(x.parse().expect("text")).expect("scalar")).collect()
    }
}
fn parse_opt(s: &str) -> Option<u64> {
    if s == "-" { None } else { Some(s.parse().expect("time")) }
}

impl Op {
    fn line(&self) -> String {
        match self {
            Op::Add(k, p, f, t) => format!("A {} {} {} {}", fmt_key(k), fmt_text(p), f, fmt_opt(*t)),
            Op::Update(k, p, f, uf, t) => format!("U {} {} {} {} {}", fmt_key(k), fmt_text(p), f, uf, t),
            Op::Remove(k, p) => format!("R {} {}", fmt_key(k), fmt_text(p)),
            Op::Lookup(k, n, fuzzy) => format!(
                "L {} {} {}",
                fmt_key(k),
                if *n == usize::MAX { "max".to_string() } else { n.to_string() },
                if *fuzzy { "F" } else { "S" }
            ),
            Op::Entries => "E".to_string(),
            Op::Flush => "F".to_string(),
            Op::Reopen => "W".to_string(),
        }
    }
    fn is_change(&self) -> bool {
        matches!(self, Op::Add(..) | Op::Update(..) | Op::Remove(..))
    }
}

impl Case {
    fn write(&self, w: &mut impl Write) {
        writeln!(w, "CASE {} {}", self.name, self.backend).unwrap();
        for (layer, k, p, f, t) in &self.init {
            writeln!(w, "T {} {} {} {} {}", layer, fmt_key(k), fmt_text(p), f, fmt_opt(*t)).unwrap();
        }
        for o in &self.ops {
            writeln!(w, "{}", o.line()).unwrap();
        }
        writeln!(w, "END").unwrap();
    }
    fn text(&self) -> String {
        let mut v = vec![];
        self.write(&mut v);
        String::from_utf8(v).unwrap()
    }
}

fn read_cases(path: &str) -> Vec<Case> {
    let src = std::fs::read_to_string(path).expect("read cases");
    let mut out = vec![];
    let mut cur: Option<Case> = None;
    for line in src.lines() {
        let t: Vec<&str> = line.split_whitespace().collect();
        if t.is_empty() || t[0].starts_with('#') {
            continue;
        }
        match t[0] {
            "CASE" => cur = Some(Case { name: t[1].to_string(), backend: t[2].to_string(), init: vec![], ops: vec![] }),
            "END" => out.push(cur.take().expect("END without CASE")),
            "T" => cur.as_mut().unwrap().init.push((
                t[1].to_string(),
                parse_key(t[2]),
                parse_text(t[3]),
                t[4].parse().unwrap(),
                parse_opt(t[5]),
            )),
            "A" => cur.as_mut().unwrap().ops.push(Op::Add(parse_key(t[1]), parse_text(t[2]), t[3].parse().unwrap(), parse_opt(t[4]))),
            "U" => cur.as_mut().unwrap().ops.push(Op::Update(
                parse_key(t[1]),
                parse_text(t[2]),
                t[3].parse().unwrap(),
                t[4].parse().unwrap(),
                t[5].parse().unwrap(),
            )),
            "R" => cur.as_mut().unwrap().ops.push(Op::Remove(parse_key(t[1]), parse_text(t[2]))),
            "L" => cur.as_mut().unwrap().ops.push(Op::Lookup(
                parse_key(t[1]),
                if t[2] == "max" { usize::MAX } else { t[2].parse().unwrap() },
                t[3] == "F",
            )),
            "E" => cur.as_mut().unwrap().ops.push(Op::Entries),
            "F" => cur.as_mut().unwrap().ops.push(Op::Flush),
            "W" => cur.as_mut().unwrap().ops.push(Op::Reopen),
            other => panic!("bad case line {other}"),
        }
    }
    out
}

// ------------------------------------------------------------------ implementation drivers

fn syls(k: &[u16]) -> Vec<Syllable> {
    k.iter().map(|&v| Syllable::try_from(v).expect("syllable code")).collect()
}
fn mk_phrase(p: &str, f: u32, t: Option<u64>) -> Phrase {
    let ph = Phrase::new(p, f);
    match t {
        Some(t) => ph.with_time(t),
        None => ph,
    }
}

fn build_trie_bytes(entries: &[(Vec<u16>, String, u32, Option<u64>)]) -> Vec<u8> {
    let mut b = TrieBuilder::new();
    for (k, p, f, t) in entries {
        b.insert(&syls(k), mk_phrase(p, *f, *t)).expect("builder insert");
    }
    let mut cur = std::io::Cursor::new(vec![]);
    b.write(&mut cur).expect("builder write");
    cur.into_inner()
}

enum Backend {
    Buf(TrieBuf),
    Sql(SqliteDictionary),
    Lay(Layered),
    Ro(Trie),
}

impl Backend {
    fn dict(&self) -> &dyn Dictionary {
        match self {
            Backend::Buf(d) => d,
            Backend::Sql(d) => d,
            Backend::Lay(d) => d,
            Backend::Ro(d) => d,
        }
    }
    fn dict_mut(&mut self) -> Option<&mut dyn DictionaryMut> {
        match self {
            Backend::Buf(d) => Some(d),
            Backend::Sql(d) => Some(d),
            Backend::Lay(d) => Some(d),
            Backend::Ro(_) => None,
        }
    }
    fn debug(&self) -> String {
        match self {
            Backend::Buf(d) => format!("{:?}", d),
            Backend::Lay(d) => format!("{:?}", d),
            _ => String::new(),
        }
    }
}

/// Is a background writer registered in the (user) TrieBuf?  A TrieBuf held directly is asked
/// through the add-only hook `verif_writer_state`; behind a Layered (a Box<dyn Dictionary>) the
/// only window is the derived Debug output (`join_handle: None|Some(..)`).
fn writer_pending(b: &Backend) -> Option<bool> {
    #[cfg(feature = "hooks")]
    if let Backend::Buf(d) = b {
        return Some(d.verif_writer_state().is_some());
    }
    let s = b.debug();
    let i = s.rfind("join_handle: ")?;
    let rest = &s[i + "join_handle: ".len()..];
    if rest.starts_with("None") {
        Some(false)
    } else if rest.starts_with("Some") {
        Some(true)
    } else {
        None
    }
}

static PROBE_MISSING: std::sync::atomic::AtomicBool = std::sync::atomic::AtomicBool::new(false);

/// reopen() after the in-flight writer (if any) has finished: while the writer runs sync() is a
/// no-op, so repeating it until the handle is gone equals one reopen() after completion.
fn reopen_waiting(b: &mut Backend) -> bool {
    let is_buf = matches!(b, Backend::Buf(_) | Backend::Lay(_));
    let t0 = std::time::Instant::now();
    loop {
        let before = if is_buf { writer_pending(b) } else { Some(false) };
        if before.is_none() {
            // Debug format changed: fall back to a generous sleep
            PROBE_MISSING.store(true, std::sync::atomic::Ordering::Relaxed);
            std::thread::sleep(std::time::Duration::from_millis(50));
        }
        let ok = b.dict_mut().map_or(true, |d| d.reopen().is_ok());
        match before {
            Some(true) => {
                if writer_pending(b) == Some(false) || t0.elapsed().as_secs() > 20 {
                    return ok;
                }
                std::thread::sleep(std::time::Duration::from_micros(100));
            }
            _ => return ok,
        }
    }
}

fn tmp_root() -> PathBuf {
    let base = std::env::var("VERIF_TMP").unwrap_or_else(|_| "/tmp/builder-c09".to_string());
    PathBuf::from(base).join(format!("p{}", std::process::id()))
}

fn open_backend(case: &Case, dir: &Path) -> Backend {
    let layer = |name: &str| -> Vec<(Vec<u16>, String, u32, Option<u64>)> {
        case.init.iter().filter(|e| e.0 == name).map(|e| (e.1.clone(), e.2.clone(), e.3, e.4)).collect()
    };
    let sys_layers = || -> Vec<Box<dyn Dictionary>> {
        let mut names: Vec<String> = case.init.iter().map(|e| e.0.clone()).filter(|n| n != "u").collect();
        names.sort();
        names.dedup();
        names
            .iter()
            .map(|n| Box::new(Trie::new(std::io::Cursor::new(build_trie_bytes(&layer(n)))).expect("trie")) as Box<dyn Dictionary>)
            .collect()
    };
    let user_file = || -> TrieBuf {
        std::fs::create_dir_all(dir).expect("mkdir");
        let path = dir.join("user.dat");
        let init = layer("u");
        if !init.is_empty() {
            std::fs::write(&path, build_trie_bytes(&init)).expect("write user.dat");
        }
        TrieBuf::open(&path).expect("TrieBuf::open")
    };
    match case.backend.as_str() {
        "mem" => Backend::Buf(TrieBuf::new_in_memory()),
        "file" => Backend::Buf(user_file()),
        "sqlite" => Backend::Sql(SqliteDictionary::open_in_memory().expect("sqlite")),
        "sqlitefile" => {
            std::fs::create_dir_all(dir).expect("mkdir");
            Backend::Sql(SqliteDictionary::open(dir.join("user.sqlite3")).expect("sqlite file"))
        }
        "layered" => Backend::Lay(Layered::new(sys_layers(), Box::new(TrieBuf::new_in_memory()))),
        "layeredfile" => Backend::Lay(Layered::new(sys_layers(), Box::new(user_file()))),
        "trie" => Backend::Ro(Trie::new(std::io::Cursor::new(build_trie_bytes(&layer("0")))).expect("trie")),
        other => panic!("unknown backend {other}"),
    }
}

fn fmt_phrase(p: &Phrase) -> String {
    format!("{}:{}:{}", fmt_text(p.as_str()), p.freq(), fmt_opt(p.last_used()))
}

fn strat(fuzzy: bool) -> LookupStrategy {
    if fuzzy { LookupStrategy::FuzzyPartialPrefix } else { LookupStrategy::Standard }
}

// ------------------------------------------------------------------ reference map + property oracle

#[derive(Clone, Debug)]
struct Failure {
    oracle: String,
    op_index: usize,
    detail: String,
}

/// The specification as the harness understands it, independent of the Coq model: a map
/// (syllables, phrase) -> frequency maintained from the history alone.
struct Reference {
    backend: String,
    map: BTreeMap<(Vec<u16>, String), u32>,
    /// read-only layers (system tries): per layer the entries in builder order
    sys: Vec<Vec<(Vec<u16>, String, u32)>>,
    /// frequencies written to an entry since it was last created (classifies the SQLite finding)
    written: BTreeMap<(Vec<u16>, String), Vec<u32>>,
    last_update_freq: BTreeMap<(Vec<u16>, String), u32>,
    /// every entry the mutable dictionary ever held (initial file, adds, updates): classifies the prefix-lookup finding
    persisted: BTreeSet<(Vec<u16>, String)>,
}

/// Syllable::starts_with over the u16 codes
fn code_starts_with(a: u16, b: u16) -> bool {
    let tz = b.trailing_zeros();
    let mask = if tz >= 9 { 9 } else if tz >= 7 { 7 } else if tz >= 3 { 3 } else { 0 };
    (a >> mask) == (b >> mask)
}

/// the key matches the query syllable by syllable (same length)
fn key_matches(key: &[u16], query: &[u16]) -> bool {
    key.len() == query.len() && key.iter().zip(query.iter()).all(|(a, b)| *a != 0 && code_starts_with(*a, *b))
}

impl Reference {
    fn new(case: &Case) -> Reference {
        let mut r = Reference {
            backend: case.backend.clone(),
            map: BTreeMap::new(),
            sys: vec![],
            written: BTreeMap::new(),
            last_update_freq: BTreeMap::new(),
            persisted: BTreeSet::new(),
        };
        let mut names: Vec<String> = case.init.iter().map(|e| e.0.clone()).filter(|n| n != "u").collect();
        names.sort();
        names.dedup();
        for n in names {
            // TrieBuilder::insert replaces an entry with the same key and phrase
            let mut layer: Vec<(Vec<u16>, String, u32)> = vec![];
            for e in case.init.iter().filter(|e| e.0 == n) {
                if let Some(x) = layer.iter_mut().find(|x| x.0 == e.1 && x.1 == e.2) {
                    x.2 = e.3;
                } else {
                    layer.push((e.1.clone(), e.2.clone(), e.3));
                }
            }
            r.sys.push(layer);
        }
        if case.backend == "file" || case.backend == "layeredfile" {
            for e in case.init.iter().filter(|e| e.0 == "u") {
                r.map.insert((e.1.clone(), e.2.clone()), e.3);
                r.persisted.insert((e.1.clone(), e.2.clone()));
            }
        }
        r
    }
    fn layered(&self) -> bool {
        self.backend.starts_with("layered")
    }
    fn readonly(&self) -> bool {
        self.backend == "trie"
    }
    /// expected live (phrase -> freq) of one key in the mutable dictionary
    fn live(&self, k: &[u16]) -> BTreeMap<String, u32> {
        self.map.iter().filter(|(kk, _)| kk.0 == k).map(|(kk, f)| (kk.1.clone(), *f)).collect()
    }
    /// expected phrase -> freq of the whole dictionary under Standard lookup
    fn expected(&self, k: &[u16]) -> BTreeMap<String, u32> {
        let mut m: BTreeMap<String, u32> = BTreeMap::new();
        for layer in &self.sys {
            for e in layer.iter().filter(|e| e.0 == k) {
                let v = m.entry(e.1.clone()).or_insert(e.2);
                *v = (*v).max(e.2);
            }
        }
        if !self.readonly() {
            for (p, f) in self.live(k) {
                let v = m.entry(p).or_insert(f);
                *v = (*v).max(f);
            }
        }
        m
    }
}

struct Runner {
    be: Backend,
    rf: Reference,
    failures: Vec<Failure>,
    views: Vec<String>,
    stats: BTreeMap<String, u64>,
}

impl Runner {
    fn fail(&mut self, oracle: &str, i: usize, detail: String) {
        if self.failures.len() < 8 {
            self.failures.push(Failure { oracle: format!("{}:{}", self.rf.backend, oracle), op_index: i, detail });
        }
    }
    fn bump(&mut self, k: &str) {
        *self.stats.entry(k.to_string()).or_insert(0) += 1;
    }

    fn check_lookup(&mut self, i: usize, k: &[u16], n: usize, fuzzy: bool, got: &[Phrase]) {
        let all = self.be.dict().lookup_all_phrases(&syls(k), strat(fuzzy));
        let again = self.be.dict().lookup_first_n_phrases(&syls(k), n, strat(fuzzy));
        // first n of the full result
        let want: Vec<Phrase> = all.iter().take(n).cloned().collect();
        if got != want.as_slice() {
            self.fail(
                "first-n-not-prefix",
                i,
                format!("n={} got [{}] full [{}]", n, fmt_seq(got.iter().map(fmt_phrase)), fmt_seq(all.iter().map(fmt_phrase))),
            );
        }
        // stable for equal inputs
        if again != got {
            self.fail("lookup-not-deterministic", i, format!("n={}", n));
        }
        if fuzzy {
            // the map reading of the property is about exact keys (a fuzzy Trie lookup may legitimately return the same
            // phrase from two different readings); what a prefix lookup must not do is return a phrase that is not live
            // under ANY key the query matches - "a removed phrase stays absent"
            if !self.rf.backend.starts_with("sqlite") {
                for p in &all {
                    let live = self.rf.map.keys().any(|kk| kk.1 == p.as_str() && key_matches(&kk.0, k))
                        || self.rf.sys.iter().any(|l| l.iter().any(|e| e.1 == p.as_str() && key_matches(&e.0, k)));
                    if !live {
                        let removed = self.rf.persisted.iter().any(|kk| kk.1 == p.as_str() && key_matches(&kk.0, k));
                        let name = if removed { "prefix-lookup-returns-removed-phrase" } else { "prefix-lookup-returns-unknown-phrase" };
                        self.fail(name, i, format!("{} returned for the query {} but not live under any matching key", fmt_phrase(p), fmt_key(k)));
                        break;
                    }
                }
            }
            return;
        }
        // each phrase once
        let mut seen = BTreeSet::new();
        for p in &all {
            if !seen.insert(p.as_str().to_string()) {
                self.fail("lookup-duplicate-phrase", i, format!("{} twice in [{}]", fmt_text(p.as_str()), fmt_seq(all.iter().map(fmt_phrase))));
                break;
            }
        }
        let exp = self.rf.expected(k);
        for p in &all {
            match exp.get(p.as_str()) {
                None => {
                    let name = if self.rf.layered() { "layered-extra-phrase" } else { "lookup-dead-phrase-returned" };
                    self.fail(name, i, format!("{} not live", fmt_phrase(p)));
                }
                Some(f) if *f != p.freq() => {
                    let key = (k.to_vec(), p.as_str().to_string());
                    let sqlite_max = self.rf.backend.starts_with("sqlite")
                        && self.rf.last_update_freq.get(&key).is_some_and(|uf| *uf < p.freq())
                        && self.rf.written.get(&key).is_some_and(|w| w.contains(&p.freq()));
                    let name = if sqlite_max {
                        "lowered-user-freq-shadowed-by-max"
                    } else if self.rf.layered() {
                        "layered-freq-not-max"
                    } else {
                        "lookup-freq-not-last-written"
                    };
                    self.fail(name, i, format!("{} expected freq {}", fmt_phrase(p), f));
                }
                _ => {}
            }
        }
        for (p, f) in &exp {
            if !all.iter().any(|q| q.as_str() == p) {
                let name = if self.rf.layered() { "layered-missing-phrase" } else { "lookup-live-phrase-missing" };
                self.fail(name, i, format!("{}:{} missing from [{}]", fmt_text(p), f, fmt_seq(all.iter().map(fmt_phrase))));
            }
        }
        if self.rf.layered() {
            // first-appearance order over the layers
            let mut order: Vec<String> = vec![];
            for layer in &self.rf.sys {
                let t = Trie::new(std::io::Cursor::new(build_trie_bytes(
                    &layer.iter().map(|e| (e.0.clone(), e.1.clone(), e.2, None)).collect::<Vec<_>>(),
                )))
                .expect("trie");
                for p in t.lookup_all_phrases(&syls(k), LookupStrategy::Standard) {
                    if !order.contains(&p.as_str().to_string()) {
                        order.push(p.as_str().to_string());
                    }
                }
            }
            let got_order: Vec<String> = all.iter().map(|p| p.as_str().to_string()).collect();
            let sys_part: Vec<String> = got_order.iter().filter(|p| order.contains(p)).cloned().collect();
            let prefix_ok = got_order.len() >= order.len() && got_order[..order.len()] == order[..];
            if sys_part != order || !prefix_ok {
                self.fail("layered-order-not-first-appearance", i, format!("got {:?} system order {:?}", got_order, order));
            }
        }
    }

    fn check_entries(&mut self, i: usize, got: &[(Vec<Syllable>, Phrase)]) {
        let mut g: Vec<(Vec<u16>, String, u32)> =
            got.iter().map(|(k, p)| (k.iter().map(|s| s.to_u16()).collect(), p.as_str().to_string(), p.freq())).collect();
        g.sort();
        let mut e: Vec<(Vec<u16>, String, u32)> = vec![];
        for layer in &self.rf.sys {
            e.extend(layer.iter().cloned());
        }
        if !self.rf.readonly() {
            e.extend(self.rf.map.iter().map(|(k, f)| (k.0.clone(), k.1.clone(), *f)));
        }
        e.sort();
        if g != e {
            let dup = g.windows(2).any(|w| w[0].0 == w[1].0 && w[0].1 == w[1].1) && !self.rf.layered();
            let sqlite_max = self.rf.backend.starts_with("sqlite")
                && g.len() == e.len()
                && g.iter().zip(e.iter()).all(|(a, b)| {
                    a.0 == b.0
                        && a.1 == b.1
                        && (a.2 == b.2 || {
                            let key = (a.0.clone(), a.1.clone());
                            self.rf.last_update_freq.get(&key).is_some_and(|uf| *uf < a.2)
                                && self.rf.written.get(&key).is_some_and(|w| w.contains(&a.2))
                        })
                });
            let name = if dup {
                "entries-duplicate"
            } else if sqlite_max {
                "lowered-user-freq-shadowed-by-max"
            } else {
                "entries-not-live-set"
            };
            self.fail(name, i, format!("got {:?} expected {:?}", g, e));
        }
    }

    fn step(&mut self, i: usize, op: &Op) {
        match op {
            Op::Add(k, p, f, t) => {
                self.bump("add");
                let r = match self.be.dict_mut() {
                    Some(d) => d.add_phrase(&syls(k), mk_phrase(p, *f, *t)).is_ok(),
                    None => false,
                };
                let key = (k.clone(), p.clone());
                let dropped_empty = self.rf.layered() && p.is_empty();
                if r && !dropped_empty {
                    if self.rf.map.contains_key(&key) && !self.rf.backend.starts_with("sqlite") {
                        self.fail("add-existing-accepted", i, format!("{} {}", fmt_key(k), fmt_text(p)));
                    }
                    self.rf.map.insert(key.clone(), *f);
                    self.rf.persisted.insert(key.clone());
                    self.rf.written.insert(key.clone(), vec![*f]);
                    self.rf.last_update_freq.remove(&key);
                } else if !r && !self.rf.map.contains_key(&key) {
                    self.fail("add-absent-rejected", i, format!("{} {}", fmt_key(k), fmt_text(p)));
                }
                if !r {
                    self.bump("add_rejected");
                }
                self.views.push(if r { "ok" } else { "err" }.to_string());
            }
            Op::Update(k, p, f, uf, t) => {
                self.bump("update");
                let r = match self.be.dict_mut() {
                    Some(d) => d.update_phrase(&syls(k), mk_phrase(p, *f, None), *uf, *t).is_ok(),
                    None => false,
                };
                let key = (k.clone(), p.clone());
                let dropped_empty = self.rf.layered() && p.is_empty();
                if r && !dropped_empty {
                    if self.rf.map.contains_key(&key) {
                        self.bump("update_existing");
                    }
                    self.rf.map.insert(key.clone(), *uf);
                    self.rf.persisted.insert(key.clone());
                    let w = self.rf.written.entry(key.clone()).or_default();
                    w.push(*f);
                    w.push(*uf);
                    self.rf.last_update_freq.insert(key, *uf);
                }
                self.views.push(if r { "ok" } else { "err" }.to_string());
            }
            Op::Remove(k, p) => {
                self.bump("remove");
                let r = match self.be.dict_mut() {
                    Some(d) => d.remove_phrase(&syls(k), p).is_ok(),
                    None => false,
                };
                let key = (k.clone(), p.clone());
                if r {
                    if self.rf.map.remove(&key).is_some() {
                        self.bump("remove_existing");
                    }
                    self.rf.written.remove(&key);
                    self.rf.last_update_freq.remove(&key);
                }
                self.views.push(if r { "ok" } else { "err" }.to_string());
            }
            Op::Lookup(k, n, fuzzy) => {
                self.bump(if *fuzzy { "lookup_fuzzy" } else { "lookup_standard" });
                let got = self.be.dict().lookup_first_n_phrases(&syls(k), *n, strat(*fuzzy));
                if !got.is_empty() {
                    self.bump("lookup_nonempty");
                }
                self.views.push(format!("L {}", fmt_seq(got.iter().map(fmt_phrase))));
                self.check_lookup(i, k, *n, *fuzzy, &got);
            }
            Op::Entries => {
                self.bump("entries");
                let got: Vec<(Vec<Syllable>, Phrase)> = self.be.dict().entries().collect();
                let mut v: Vec<String> = got
                    .iter()
                    .map(|(k, p)| format!("{}/{}", fmt_key(&k.iter().map(|s| s.to_u16()).collect::<Vec<_>>()), fmt_phrase(p)))
                    .collect();
                v.sort();
                self.views.push(format!("E {}", fmt_seq(v.iter())));
                self.check_entries(i, &got);
            }
            Op::Flush => {
                self.bump("flush");
                let r = self.be.dict_mut().map_or(true, |d| d.flush().is_ok());

                self.views.push(if r { "ok" } else { "err" }.to_string());
            }
            Op::Reopen => {
                self.bump("reopen");
                let r = reopen_waiting(&mut self.be);

                self.views.push(if r { "ok" } else { "err" }.to_string());
            }
        }
    }
}

struct CaseResult {
    views: Vec<String>,
    failures: Vec<Failure>,
    stats: BTreeMap<String, u64>,
    panic: Option<String>,
}

fn run_case(case: &Case, tag: &str) -> CaseResult {
    let dir = tmp_root().join(tag);
    let _ = std::fs::remove_dir_all(&dir);
    let case2 = case.clone();
    let dir2 = dir.clone();
    let r = catch(std::panic::AssertUnwindSafe(move || {
        let mut run = Runner { be: open_backend(&case2, &dir2), rf: Reference::new(&case2), failures: vec![], views: vec![], stats: BTreeMap::new() };
        for (i, op) in case2.ops.iter().enumerate() {
            run.step(i, op);
        }
        // the map must also answer correctly at the end of every history: look every key up
        let mut keys: BTreeSet<Vec<u16>> = BTreeSet::new();
        for o in &case2.ops {
            match o {
                Op::Add(k, ..) | Op::Update(k, ..) | Op::Remove(k, ..) | Op::Lookup(k, ..) => {
                    keys.insert(k.clone());
                }
                _ => {}
            }
        }
        for e in &case2.init {
            keys.insert(e.1.clone());
        }
        let n = case2.ops.len();
        for k in keys {
            let got = run.be.dict().lookup_all_phrases(&syls(&k), LookupStrategy::Standard);
            run.check_lookup(n, &k, usize::MAX, false, &got);
        }
        let got: Vec<(Vec<Syllable>, Phrase)> = run.be.dict().entries().collect();
        run.check_entries(n, &got);
        let Runner { be, failures, views, stats, .. } = run;
        drop(be);
        (views, failures, stats)
    }));
    let _ = std::fs::remove_dir_all(&dir);
    match r {
        Ok((views, failures, stats)) => CaseResult { views, failures, stats, panic: None },
        Err(msg) => CaseResult { views: vec![], failures: vec![], stats: BTreeMap::new(), panic: Some(msg) },
    }
}

/// ddmin over the op list: keep removing chunks while the same oracle still fails
fn shrink(case: &Case, oracle: &str) -> Case {
    let fails = |c: &Case| -> bool {
        let r = run_case(c, "shrink");
        r.failures.iter().any(|f| f.oracle == oracle) || (oracle.ends_with(":panic") && r.panic.is_some())
    };
    let mut cur = case.clone();
    let mut n = 2usize;
    let mut budget = 400;
    while cur.ops.len() >= 2 && budget > 0 {
        let chunk = (cur.ops.len() + n - 1) / n;
        let mut reduced = false;
        let mut start = 0;
        while start < cur.ops.len() && budget > 0 {
            let mut cand = cur.clone();
            let end = (start + chunk).min(cand.ops.len());
            cand.ops.drain(start..end);
            budget -= 1;
            if fails(&cand) {
                cur = cand;
                n = n.saturating_sub(1).max(2);
                reduced = true;
                break;
            }
            start += chunk;
        }
        if !reduced {
            if chunk == 1 {
                break;
            }
            n = (n * 2).min(cur.ops.len());
        }
    }
    // initial entries too
    let mut i = 0;
    while i < cur.init.len() && budget > 0 {
        let mut cand = cur.clone();
        cand.init.remove(i);
        budget -= 1;
        if fails(&cand) {
            cur = cand;
        } else {
            i += 1;
        }
    }
    cur
}

// ------------------------------------------------------------------ generation

struct Universe {
    keys: Vec<Vec<u16>>,
    texts: Vec<Vec<&'static str>>, // by phrase length in characters - 1
}

fn universe() -> Universe {
    use Bopomofo::*;
    let s = |v: &[Bopomofo]| -> u16 {
        let mut b = Syllable::builder();
        for x in v {
            b = b.insert(*x).expect("syllable");
        }
        b.build().to_u16()
    };
    let ce4 = s(&[C, E, TONE4]);
    let sh4 = s(&[SH, TONE4]);
    let ce = s(&[C, E]);
    let c = s(&[C]);
    let sh = s(&[SH]);
    Universe {
        // <= 6 keys: shared prefixes ([ce4] < [ce4,sh4] < [ce4,sh4,ce4]), partial syllables that
        // fuzzy-match the full ones ([c] ~ [ce4], [ce,sh] ~ [ce4,sh4])
        keys: vec![vec![ce4], vec![c], vec![ce4, sh4], vec![ce, sh], vec![sh4], vec![ce4, sh4, ce4]],
        texts: vec![
            vec!["測", "冊", "策", "側", "a", "\u{10FFFF}"],
            vec!["測試", "策士", "測士", "側室", "ab", "\u{10FFFF}b"],
            vec!["測試測", "測試冊", "策士測"],
        ],
    }
}

const FREQS: [u32; 8] = [0, 1, 2, 3, 5, 100, 9318, u32::MAX];
const TIMES: [u64; 6] = [0, 1, 7, 186613, 1 << 40, i64::MAX as u64];

fn gen_case(rng: &mut Rng, u: &Universe, backend: &str, name: String, max_ops: usize) -> Case {
    let mut case = Case { name, backend: backend.to_string(), init: vec![], ops: vec![] };
    let pick_entry = |rng: &mut Rng, touched: &Vec<(Vec<u16>, String)>| -> (Vec<u16>, String) {
        if !touched.is_empty() && rng.chance(7, 10) {
            rng.pick(touched).clone()
        } else {
            let k = rng.pick(&u.keys).clone();
            // mostly a phrase of as many characters as syllables (homophones); sometimes a foreign length
            let len = if rng.chance(1, 12) && backend != "file" && backend != "layeredfile" { rng.below(3) as usize } else { k.len() - 1 };
            let p = rng.pick(&u.texts[len.min(2)]).to_string();
            (k, p)
        }
    };
    // initial layers
    let layered = backend.starts_with("layered");
    let n_sys = if backend == "trie" { 1 } else if layered { 1 + rng.below(2) as usize } else { 0 };
    for l in 0..n_sys {
        for _ in 0..rng.range(0, 7) {
            let k = rng.pick(&u.keys).clone();
            let p = rng.pick(&u.texts[k.len() - 1]).to_string();
            case.init.push((l.to_string(), k, p, *rng.pick(&FREQS), if rng.chance(1, 3) { Some(*rng.pick(&TIMES)) } else { None }));
        }
    }
    if (backend == "file" || backend == "layeredfile") && rng.chance(1, 2) {
        for _ in 0..rng.range(1, 5) {
            let k = rng.pick(&u.keys).clone();
            let p = rng.pick(&u.texts[k.len() - 1]).to_string();
            if !case.init.iter().any(|e| e.0 == "u" && e.1 == k && e.2 == p) {
                case.init.push(("u".to_string(), k, p, *rng.pick(&FREQS), if rng.chance(1, 2) { Some(*rng.pick(&TIMES)) } else { None }));
            }
        }
    }
    let mut touched: Vec<(Vec<u16>, String)> = case.init.iter().filter(|e| e.0 == "u").map(|e| (e.1.clone(), e.2.clone())).collect();
    let n_ops = rng.range(3, max_ops as i64) as usize;
    let file = backend.contains("file");
    for _ in 0..n_ops {
        let r = rng.below(100);
        let op = if backend == "trie" {
            if r < 85 { 3 } else { 4 }
        } else if r < 22 {
            0
        } else if r < 44 {
            1
        } else if r < 60 {
            2
        } else if r < 80 {
            3
        } else if r < 85 {
            4
        } else if r < (if file { 93 } else { 88 }) {
            5
        } else if r < (if file { 100 } else { 91 }) {
            6
        } else {
            3
        };
        match op {
            0 => {
                let (k, p) = pick_entry(rng, &touched);
                touched.push((k.clone(), p.clone()));
                let t = if rng.chance(1, 2) { Some(*rng.pick(&TIMES)) } else { None };
                case.ops.push(Op::Add(k, p, *rng.pick(&FREQS), t));
            }
            1 => {
                let (k, p) = pick_entry(rng, &touched);
                touched.push((k.clone(), p.clone()));
                case.ops.push(Op::Update(k, p, *rng.pick(&FREQS), *rng.pick(&FREQS), *rng.pick(&TIMES)));
            }
            2 => {
                let (k, p) = pick_entry(rng, &touched);
                touched.push((k.clone(), p.clone()));
                case.ops.push(Op::Remove(k, p));
            }
            3 => {
                let k = if !touched.is_empty() && rng.chance(1, 2) { rng.pick(&touched).0.clone() } else { rng.pick(&u.keys).clone() };
                let n = *rng.pick(&[0usize, 1, 1, 2, 3, usize::MAX, usize::MAX, usize::MAX - 1]);
                case.ops.push(Op::Lookup(k, n, rng.chance(1, 4)));
            }
            4 => case.ops.push(Op::Entries),
            5 => case.ops.push(Op::Flush),
            _ => case.ops.push(Op::Reopen),
        }
    }
    case
}

const BACKENDS: [&str; 7] = ["mem", "file", "sqlite", "sqlitefile", "layered", "layeredfile", "trie"];

fn generate(tier: &str, out: &str) -> i32 {
    let seed = seed_from_env();
    let u = universe();
    let (per_backend, max_ops) = if tier == "thorough" { (4000u64, 300usize) } else { (1000u64, 40usize) };
    let f = std::fs::File::create(out).expect("create");
    let mut w = BufWriter::new(f);
    for (bi, b) in BACKENDS.iter().enumerate() {
        let n = match *b {
            "sqlitefile" | "trie" => per_backend / 4,
            "file" | "layeredfile" => per_backend / 2,
            _ => per_backend,
        };
        for i in 0..n {
            let mut rng = Rng::new(seed.wrapping_mul(0x9E3779B97F4A7C15) ^ ((bi as u64) << 32) ^ i);
            // a quarter of the histories are short, so that shrunk shapes are generated directly as well
            let m = if i % 4 == 0 { 8.min(max_ops) } else { max_ops };
            gen_case(&mut rng, &u, b, format!("s{}-{}-{}", seed, b, i), m).write(&mut w);
        }
    }
    w.flush().unwrap();
    0
}

// ------------------------------------------------------------------ run / replay

fn run(cases_path: &str, views_out: &str, oracle_out: &str) -> i32 {
    let cases = read_cases(cases_path);
    let f = std::fs::File::create(views_out).expect("create");
    let mut w = BufWriter::with_capacity(1 << 20, f);
    let mut stats: BTreeMap<String, u64> = BTreeMap::new();
    let mut fail_json: Vec<String> = vec![];
    let mut seen_oracles: BTreeMap<String, u32> = BTreeMap::new();
    let mut nontrivial = 0u64;
    let mut distinct: BTreeSet<String> = BTreeSet::new();
    let mut evaluations = 0u64;
    for case in &cases {
        let r = run_case(case, "run");
        writeln!(w, "CASE {}", case.name).unwrap();
        if let Some(msg) = &r.panic {
            writeln!(w, "PANIC").unwrap();
            let oracle = format!("{}:panic", case.backend);
            let c = seen_oracles.entry(oracle.clone()).or_insert(0);
            *c += 1;
            if *c <= 1 {
                let small = shrink(case, &oracle);
                fail_json.push(format!(
                    "{{\"oracle\":{},\"case\":{},\"op_index\":0,\"detail\":{},\"history\":{}}}",
                    json_str(&oracle),
                    json_str(&case.name),
                    json_str(msg),
                    json_str(&small.text())
                ));
            }
        }
        for v in &r.views {
            writeln!(w, "{}", v).unwrap();
        }
        evaluations += r.views.len() as u64;
        for (k, v) in &r.stats {
            *stats.entry(k.clone()).or_insert(0) += v;
        }
        *stats.entry(format!("cases_{}", case.backend)).or_insert(0) += 1;
        // non-trivial: a remove, or a flush followed by a further change (DESIGN appendix C)
        let has_remove = case.ops.iter().any(|o| matches!(o, Op::Remove(..)));
        let flush_then_change = case.ops.iter().position(|o| matches!(o, Op::Flush)).is_some_and(|i| case.ops[i..].iter().any(|o| o.is_change()));
        if has_remove || flush_then_change {
            nontrivial += 1;
            distinct.insert(case.ops.iter().map(|o| o.line()).collect::<Vec<_>>().join(";") + &case.backend);
        }
        // remove -> re-add / update-after-flush density
        for (i, o) in case.ops.iter().enumerate() {
            if let Op::Remove(k, p) = o {
                if case.ops[i + 1..].iter().any(|x| matches!(x, Op::Add(k2, p2, ..) | Op::Update(k2, p2, ..) if k2 == k && p2 == p)) {
                    *stats.entry("remove_then_readd".to_string()).or_insert(0) += 1;
                }
            }
            if let Op::Flush = o {
                if case.ops[i + 1..].iter().any(|x| matches!(x, Op::Update(..))) {
                    *stats.entry("update_after_flush".to_string()).or_insert(0) += 1;
                }
            }
        }
        for fl in &r.failures {
            let c = seen_oracles.entry(fl.oracle.clone()).or_insert(0);
            *c += 1;
            if *c <= 1 {
                let small = shrink(case, &fl.oracle);
                let detail = run_case(&small, "detail").failures.iter().find(|x| x.oracle == fl.oracle).map_or(fl.detail.clone(), |x| x.detail.clone());
                fail_json.push(format!(
                    "{{\"oracle\":{},\"case\":{},\"op_index\":{},\"detail\":{},\"history\":{}}}",
                    json_str(&fl.oracle),
                    json_str(&case.name),
                    fl.op_index,
                    json_str(&detail),
                    json_str(&small.text())
                ));
            }
        }
    }
    w.flush().unwrap();
    let mut s = String::new();
    write!(s, "{{\"cases\":{},\"evaluations\":{},\"nontrivial\":{},\"distinct_nontrivial\":{},", cases.len(), evaluations, nontrivial, distinct.len()).unwrap();
    write!(s, "\"writer_probe_missing\":{},", PROBE_MISSING.load(std::sync::atomic::Ordering::Relaxed)).unwrap();
    write!(s, "\"distribution\":{{").unwrap();
    write!(s, "{}", stats.iter().map(|(k, v)| format!("{}:{}", json_str(k), v)).collect::<Vec<_>>().join(",")).unwrap();
    write!(s, "}},\"failure_counts\":{{").unwrap();
    write!(s, "{}", seen_oracles.iter().map(|(k, v)| format!("{}:{}", json_str(k), v)).collect::<Vec<_>>().join(",")).unwrap();
    write!(s, "}},\"failures\":[{}]}}", fail_json.join(",")).unwrap();
    std::fs::write(oracle_out, s).expect("write oracle");
    let _ = std::fs::remove_dir_all(tmp_root());
    0
}

fn replay(path: &str) -> i32 {
    let cases = read_cases(path);
    let mut bad = 0;
    for case in &cases {
        let r = run_case(case, "replay");
        println!("CASE {} {}", case.name, case.backend);
        if let Some(m) = &r.panic {
            println!("PANIC {}", m);
            bad += 1;
        }
        for (o, v) in case.ops.iter().zip(r.views.iter()) {
            println!("  {:<40} -> {}", o.line(), v);
        }
        for f in &r.failures {
            println!("PROPERTY FAILS: {} at op {}: {}", f.oracle, f.op_index, f.detail);
            bad += 1;
        }
    }
    let _ = std::fs::remove_dir_all(tmp_root());
    if bad > 0 { 1 } else { 0 }
}

fn main() {
    let args: Vec<String> = std::env::args().skip(1).collect();
    let code = match args.first().map(|s| s.as_str()) {
        Some("gen") if args.len() == 3 => generate(&args[1], &args[2]),
        Some("run") if args.len() == 4 => run(&args[1], &args[2], &args[3]),
        Some("replay") if args.len() == 2 => replay(&args[1]),
        _ => {
            eprintln!("usage: c09 gen <tier> <cases> | run <cases> <views> <oracle.json> | replay <case>");
            2
        }
    };
    std::process::exit(code);
}
