//! Editor correspondence harness (properties C01-C08, C17, C18).
//!
//!   ed gen <quick|thorough> <out-trace>     generate histories from VERIF_SEED, run them on the
//!                                           implementation (Rust `Editor` API, in-memory layered
//!                                           dictionary, Standard layout), write the trace
//!   ed run <case-file> <out-trace>          replay explicit cases (corpus / shrunk replays)
//!
//! Trace format (one record per line):
//!   CASE n | SYS k|t|f | USR k|t|f|time | ABBR ch|exp | SYMSEL name[=table] | INIT lifetime
//!   OP <op...>            the operation
//!   CONV <log line>       conversions the implementation performed during the op (the oracle)
//!   R <result>            result of the op
//!   S <snapshot>          hook snapshot after the op
//!   DCONV <log line>      the conversion performed by the observation `display()`
//!   O <observations>      display / intervals / candidate state / user dictionary
//! The OCaml driver replays OP lines on the extracted model, feeding it the CONV/DCONV answers,
//! and prints its own R/S/O lines; vp-check diffs those against this trace.
#![allow(clippy::all)]
use chewing::conversion::{ChewingEngine, FuzzyChewingEngine, SimpleEngine};
use chewing::dictionary::{Dictionary, DictionaryBuilder, Layered, LookupStrategy, Phrase, Trie, TrieBuf, TrieBuilder};
use chewing_capi::candidates::{chewing_cand_choose_by_index, chewing_cand_close, chewing_cand_open};
use chewing_capi::input::*;
use chewing_capi::layout::chewing_set_KBType;
use chewing_capi::setup::{chewing_Reset, chewing_delete, chewing_new2, ChewingContext};
use chewing::editor::keyboard::{KeyCode, KeyEvent, KeyboardLayout, Modifiers, Qwerty};
use chewing::editor::verif_hooks::take_conversion_log;
use chewing::editor::zhuyin_layout::{DaiChien26, Et, Et26, GinYieh, Hsu, Ibm, KeyBehavior, Pinyin, Standard, SyllableEditor};
use chewing::editor::{
    AbbrevTable, BasicEditor, CharacterForm, ConversionEngineKind, Editor, EditorKeyBehavior, EditorOptions,
    LanguageMode, LaxUserFreqEstimate, SymbolSelector, UserPhraseAddDirection,
};
use chewing::zhuyin::{Bopomofo, BopomofoKind, Syllable};
use std::fmt::Write as _;
use std::io::Write as _;
use std::panic::AssertUnwindSafe;
use vharness::util::{catch, Rng};

use KeyCode::*;
const ALL_CODES: [KeyCode; 63] = [
    Unknown, N1, N2, N3, N4, N5, N6, N7, N8, N9, N0, Minus, Equal, BSlash, Grave, Q, W, E, R, T, Y, U, I, O, P,
    LBracket, RBracket, A, S, D, F, G, H, J, K, L, SColon, Quote, Z, X, C, V, B, N, M, Comma, Dot, Slash, Space, Esc,
    Enter, Del, Backspace, Tab, Left, Right, Up, Down, Home, End, PageUp, PageDown, NumLock,
];

fn cps(s: &str) -> String {
    s.chars().map(|c| (c as u32).to_string()).collect::<Vec<_>>().join(".")
}
fn from_cps(s: &str) -> String {
    s.split('.').filter(|x| !x.is_empty()).map(|x| char::from_u32(x.parse().unwrap()).unwrap()).collect()
}
fn key_str(k: &[Syllable]) -> String {
    k.iter().map(|s| s.to_u16().to_string()).collect::<Vec<_>>().join(".")
}
fn key_from(s: &str) -> Vec<Syllable> {
    s.split('.').filter(|x| !x.is_empty()).map(|x| Syllable::try_from(x.parse::<u16>().unwrap()).unwrap()).collect()
}

#[derive(Clone, Debug)]
struct Entry {
    key: Vec<Syllable>,
    text: String,
    freq: u32,
    time: u64,
}

#[derive(Clone, Debug)]
struct CaseSetup {
    sys: Vec<Entry>,
    usr: Vec<Entry>,
    abbr: Vec<(char, String)>,
    symsel: Vec<(String, Option<String>)>,
    lifetime: u64,
    /// the phonetic layout the editor starts with (numbers of Model/Layout.v: 0 Standard, 1 Hsu, 2 IBM, 3 Gin-Yieh,
    /// 4 ET, 5 ET26, 6 DaChen26, 7 Hanyu, 8 THL, 9 MPS2)
    layout: u8,
    /// the case is executed through a ChewingContext: key entry, candidate calls, KB type, selection keys and reset go
    /// through the C entry points (capi/src/io.rs), the editor behind the context is observed through the hook
    capi: bool,
    /// capi cases: how the sibling records of the trie file are ordered (0 as TrieBuilder writes them, 1 reversed, 2 rotated)
    capi_mode: u8,
}

fn new_layout(l: u8) -> Box<dyn SyllableEditor> {
    match l {
        0 => Box::new(Standard::new()),
        1 => Box::new(Hsu::new()),
        2 => Box::new(Ibm::new()),
        3 => Box::new(GinYieh::new()),
        4 => Box::new(Et::new()),
        5 => Box::new(Et26::new()),
        6 => Box::new(DaiChien26::new()),
        7 => Box::new(Pinyin::hanyu()),
        8 => Box::new(Pinyin::thl()),
        _ => Box::new(Pinyin::mps2()),
    }
}

#[derive(Clone, Debug)]
enum Op {
    Key { idx_of: u8, code: u8, uni: u32, shift: bool, ctrl: bool, caps: bool, num: bool },
    Select(usize),
    Cancel,
    Start,
    Commit,
    Clear,
    Ack,
    Opts([u32; 14]),
    Engine(u8),
    ClearSyl,
    JNext,
    JPrev,
    JFirst,
    JLast,
    Learn(Vec<Syllable>, String),
    Unlearn(Vec<Syllable>, String),
    /// call every query function n times (C17); the editor must not change
    Get(usize),
    /// Editor::set_syllable_editor (chewing_set_KBType): a fresh syllable editor of this layout
    Layout(u8),
    // ---- C entry points (capi cases only) ----
    /// the named chewing_handle_* entry points: key code, modifier mask (1 shift, 4 caps lock)
    CKey(u8, u8),
    CDefault(i32),
    CCtrlNum(i32),
    CNumlock(i32),
    KbType(i32),
    SelKey([i32; 10]),
    CChoose(i32),
    COpen,
    CClose,
    CCommit,
    CCleanPre,
    CCleanBopo,
    CReset,
    /// chewing_config_set_int(name, value): index into CFG_NAMES, any int
    CSetInt(u8, i32),
    /// chewing_cand_list_first (0) / last (1) / next (2) / prev (3)
    CCandList(u8),
    /// chewing_userphrase_add / remove (phrase, Bopomofo string)
    CUpAdd(String, String),
    CUpRemove(String, String),
}

const CFG_NAMES: [&str; 13] = [
    "chewing.easy_symbol_input",
    "chewing.esc_clear_all_buffer",
    "chewing.space_is_select_key",
    "chewing.auto_shift_cursor",
    "chewing.phrase_choice_rearward",
    "chewing.disable_auto_learn_phrase",
    "chewing.auto_commit_threshold",
    "chewing.candidates_per_page",
    "chewing.language_mode",
    "chewing.character_form",
    "chewing.user_phrase_add_direction",
    "chewing.conversion_engine",
    "chewing.enable_fullwidth_toggle_key",
];

fn op_line(op: &Op) -> String {
    match op {
        Op::Key { idx_of, code, uni, shift, ctrl, caps, num } => format!(
            "key {} {} {} {} {} {} {}",
            idx_of, code, uni, *shift as u8, *ctrl as u8, *caps as u8, *num as u8
        ),
        Op::Select(n) => format!("select {}", n),
        Op::Cancel => "cancel".into(),
        Op::Start => "start".into(),
        Op::Commit => "commit".into(),
        Op::Clear => "clear".into(),
        Op::Ack => "ack".into(),
        Op::Opts(o) => format!("opts {}", o.iter().map(|x| x.to_string()).collect::<Vec<_>>().join(",")),
        Op::Engine(k) => format!("engine {}", k),
        Op::ClearSyl => "clearsyl".into(),
        Op::JNext => "jnext".into(),
        Op::JPrev => "jprev".into(),
        Op::JFirst => "jfirst".into(),
        Op::JLast => "jlast".into(),
        Op::Learn(k, t) => format!("learn {}|{}", key_str(k), cps(t)),
        Op::Unlearn(k, t) => format!("unlearn {}|{}", key_str(k), cps(t)),
        Op::Get(n) => format!("get {}", n),
        Op::Layout(l) => format!("layout {}", l),
        Op::CKey(c, m) => format!("ckey {} {}", c, m),
        Op::CDefault(k) => format!("cdefault {}", k),
        Op::CCtrlNum(k) => format!("cctrlnum {}", k),
        Op::CNumlock(k) => format!("cnumlock {}", k),
        Op::KbType(k) => format!("kbtype {}", k),
        Op::SelKey(ks) => format!("selkey {}", ks.iter().map(|k| k.to_string()).collect::<Vec<_>>().join(",")),
        Op::CChoose(i) => format!("cchoose {}", i),
        Op::COpen => "copen".into(),
        Op::CClose => "cclose".into(),
        Op::CCommit => "ccommit".into(),
        Op::CCleanPre => "ccleanpre".into(),
        Op::CCleanBopo => "ccleanbopo".into(),
        Op::CReset => "creset".into(),
        Op::CSetInt(n, v) => format!("cseti {} {}", CFG_NAMES[(*n as usize) % 13], v),
        Op::CCandList(w) => format!("ccandlist {}", w),
        Op::CUpAdd(t, b) => format!("cupadd {}|{}", cps(t), cps(b)),
        Op::CUpRemove(t, b) => format!("cupremove {}|{}", cps(t), cps(b)),
    }
}

fn parse_op(l: &str) -> Op {
    let mut it = l.split_whitespace();
    let name = it.next().unwrap();
    let rest: Vec<&str> = it.collect();
    match name {
        "key" => {
            let v: Vec<u32> = rest.iter().map(|x| x.parse().unwrap()).collect();
            Op::Key { idx_of: v[0] as u8, code: v[1] as u8, uni: v[2], shift: v[3] != 0, ctrl: v[4] != 0, caps: v[5] != 0, num: v[6] != 0 }
        }
        "select" => Op::Select(rest[0].parse().unwrap()),
        "cancel" => Op::Cancel,
        "start" => Op::Start,
        "commit" => Op::Commit,
        "clear" => Op::Clear,
        "ack" => Op::Ack,
        "opts" => {
            let v: Vec<u32> = rest[0].split(',').map(|x| x.parse().unwrap()).collect();
            let mut o = [0u32; 14];
            o.copy_from_slice(&v);
            Op::Opts(o)
        }
        "engine" => Op::Engine(rest[0].parse().unwrap()),
        "get" => Op::Get(rest[0].parse().unwrap()),
        "layout" => Op::Layout(rest[0].parse().unwrap()),
        "ckey" => Op::CKey(rest[0].parse().unwrap(), rest[1].parse().unwrap()),
        "cdefault" => Op::CDefault(rest[0].parse().unwrap()),
        "cctrlnum" => Op::CCtrlNum(rest[0].parse().unwrap()),
        "cnumlock" => Op::CNumlock(rest[0].parse().unwrap()),
        "kbtype" => Op::KbType(rest[0].parse().unwrap()),
        "selkey" => {
            let v: Vec<i32> = rest[0].split(',').map(|x| x.parse().unwrap()).collect();
            let mut a = [0i32; 10];
            a.copy_from_slice(&v[..10]);
            Op::SelKey(a)
        }
        "cchoose" => Op::CChoose(rest[0].parse().unwrap()),
        "copen" => Op::COpen,
        "cclose" => Op::CClose,
        "ccommit" => Op::CCommit,
        "ccleanpre" => Op::CCleanPre,
        "ccleanbopo" => Op::CCleanBopo,
        "creset" => Op::CReset,
        "ccandlist" => Op::CCandList(rest[0].parse().unwrap()),
        "cupadd" | "cupremove" => {
            let (t, b) = rest[0].split_once('|').unwrap();
            if name == "cupadd" { Op::CUpAdd(from_cps(t), from_cps(b)) } else { Op::CUpRemove(from_cps(t), from_cps(b)) }
        }
        "cseti" => Op::CSetInt(CFG_NAMES.iter().position(|n| *n == rest[0]).unwrap() as u8, rest[1].parse().unwrap()),
        "clearsyl" => Op::ClearSyl,
        "jnext" => Op::JNext,
        "jprev" => Op::JPrev,
        "jfirst" => Op::JFirst,
        "jlast" => Op::JLast,
        "learn" | "unlearn" => {
            let (k, t) = rest.first().copied().unwrap_or("|").split_once('|').unwrap();
            if name == "learn" { Op::Learn(key_from(k), from_cps(t)) } else { Op::Unlearn(key_from(k), from_cps(t)) }
        }
        _ => panic!("bad op {l}"),
    }
}

fn options_of(o: &[u32; 14]) -> EditorOptions {
    EditorOptions {
        easy_symbol_input: o[0] != 0,
        esc_clear_all_buffer: o[1] != 0,
        space_is_select_key: o[2] != 0,
        auto_shift_cursor: o[3] != 0,
        phrase_choice_rearward: o[4] != 0,
        disable_auto_learn_phrase: o[5] != 0,
        auto_commit_threshold: o[6] as usize,
        candidates_per_page: o[7] as usize,
        language_mode: if o[8] != 0 { LanguageMode::English } else { LanguageMode::Chinese },
        character_form: if o[9] != 0 { CharacterForm::Fullwidth } else { CharacterForm::Halfwidth },
        user_phrase_add_dir: if o[10] != 0 { UserPhraseAddDirection::Backward } else { UserPhraseAddDirection::Forward },
        lookup_strategy: if o[11] != 0 { LookupStrategy::FuzzyPartialPrefix } else { LookupStrategy::Standard },
        conversion_engine: match o[12] {
            0 => ConversionEngineKind::SimpleEngine,
            1 => ConversionEngineKind::ChewingEngine,
            _ => ConversionEngineKind::FuzzyChewingEngine,
        },
        enable_fullwidth_toggle_key: o[13] != 0,
    }
}

fn opts_vec(o: &EditorOptions) -> [u32; 14] {
    [
        o.easy_symbol_input as u32,
        o.esc_clear_all_buffer as u32,
        o.space_is_select_key as u32,
        o.auto_shift_cursor as u32,
        o.phrase_choice_rearward as u32,
        o.disable_auto_learn_phrase as u32,
        o.auto_commit_threshold as u32,
        o.candidates_per_page as u32,
        (o.language_mode == LanguageMode::English) as u32,
        (o.character_form == CharacterForm::Fullwidth) as u32,
        (o.user_phrase_add_dir == UserPhraseAddDirection::Backward) as u32,
        (o.lookup_strategy == LookupStrategy::FuzzyPartialPrefix) as u32,
        match o.conversion_engine {
            ConversionEngineKind::SimpleEngine => 0,
            ConversionEngineKind::ChewingEngine => 1,
            ConversionEngineKind::FuzzyChewingEngine => 2,
        },
        o.enable_fullwidth_toggle_key as u32,
    ]
}

fn make_event(idx_of: u8, code: u8, uni: u32, shift: bool, ctrl: bool, caps: bool, num: bool) -> KeyEvent {
    let base = Qwerty.map(ALL_CODES[(idx_of as usize) % 63]);
    KeyEvent {
        index: base.index,
        code: ALL_CODES[(code as usize) % 63],
        unicode: char::from_u32(uni).unwrap_or('\u{fffd}'),
        modifiers: Modifiers { shift, ctrl, capslock: caps, numlock: num },
    }
}

fn build_editor(setup: &CaseSetup, scratch: &std::path::Path) -> Editor {
    let mut sys = TrieBuf::new_in_memory();
    for e in &setup.sys {
        let _ = sys.as_dict_mut().unwrap().add_phrase(&e.key, Phrase::new(e.text.as_str(), e.freq));
    }
    let mut usr = TrieBuf::new_in_memory();
    for e in &setup.usr {
        let _ = usr.as_dict_mut().unwrap().update_phrase(&e.key, Phrase::new(e.text.as_str(), e.freq), e.freq, e.time);
    }
    let dict = Layered::new(vec![Box::new(sys)], Box::new(usr));
    let abbr = if setup.abbr.is_empty() {
        AbbrevTable::new()
    } else {
        let p = scratch.join("abbr.dat");
        let mut f = std::fs::File::create(&p).unwrap();
        for (c, e) in &setup.abbr {
            writeln!(f, "{} {}", c, e).unwrap();
        }
        drop(f);
        AbbrevTable::open(&p).unwrap()
    };
    let mut symtxt = String::new();
    for (name, tab) in &setup.symsel {
        match tab {
            Some(t) => {
                let _ = writeln!(symtxt, "{}={}", name, t);
            }
            None => {
                let _ = writeln!(symtxt, "{}", name);
            }
        }
    }
    let symsel = SymbolSelector::new(std::io::Cursor::new(symtxt)).unwrap();
    let mut ed = Editor::new(Box::new(ChewingEngine::new()), dict, LaxUserFreqEstimate::new(setup.lifetime), abbr, symsel);
    if setup.layout != 0 {
        ed.set_syllable_editor(new_layout(setup.layout));
    }
    ed
}

fn behavior_str(b: EditorKeyBehavior) -> &'static str {
    match b {
        EditorKeyBehavior::Ignore => "Ignore",
        EditorKeyBehavior::Commit => "Commit",
        EditorKeyBehavior::Bell => "Bell",
        EditorKeyBehavior::Absorb => "Absorb",
    }
}

fn apply(ed: &mut Editor, op: &Op) -> String {
    match op {
        Op::Key { idx_of, code, uni, shift, ctrl, caps, num } => {
            let ev = make_event(*idx_of, *code, *uni, *shift, *ctrl, *caps, *num);
            behavior_str(ed.process_keyevent(ev)).to_string()
        }
        Op::Select(n) => format!("{}", ed.select(*n).is_ok() as u8),
        Op::Cancel => format!("{}", ed.cancel_selecting().is_ok() as u8),
        Op::Start => format!("{}", ed.start_selecting().is_ok() as u8),
        Op::Commit => format!("{}", ed.commit().is_ok() as u8),
        Op::Clear => {
            ed.clear();
            "-".into()
        }
        Op::Ack => {
            ed.ack();
            "-".into()
        }
        Op::Opts(o) => {
            ed.set_editor_options(options_of(o));
            "-".into()
        }
        Op::Engine(k) => {
            match k {
                0 => ed.set_conversion_engine(Box::new(SimpleEngine::new())),
                1 => ed.set_conversion_engine(Box::new(ChewingEngine::new())),
                _ => ed.set_conversion_engine(Box::new(FuzzyChewingEngine::new())),
            }
            "-".into()
        }
        Op::ClearSyl => {
            ed.clear_syllable_editor();
            "-".into()
        }
        Op::JNext => format!("{}", ed.jump_to_next_selection_point().is_ok() as u8),
        Op::JPrev => format!("{}", ed.jump_to_prev_selection_point().is_ok() as u8),
        Op::JFirst => format!("{}", ed.jump_to_first_selection_point().is_ok() as u8),
        Op::JLast => format!("{}", ed.jump_to_last_selection_point().is_ok() as u8),
        Op::Learn(k, t) => format!("{}", ed.learn_phrase(k, t).is_ok() as u8),
        Op::Unlearn(k, t) => format!("{}", ed.unlearn_phrase(k, t).is_ok() as u8),
        Op::Get(_) => "-".into(),
        Op::Layout(l) => {
            ed.set_syllable_editor(new_layout(*l));
            "-".into()
        }
        _ => apply_c(op),
    }
}

/// the C entry points, on the context of the current capi case (the editor reference handed to `apply` points into
/// that context; it is not touched while the C function runs)
fn apply_c(op: &Op) -> String {
    let c = CUR_CTX.with(|c| c.get());
    if c.is_null() {
        return "NOCTX".into();
    }
    unsafe {
        match op {
            Op::CKey(code, mods) => {
                let rc = match (ALL_CODES[(*code as usize) % 63], *mods) {
                    (Space, 0) => chewing_handle_Space(c),
                    (Space, 1) => chewing_handle_ShiftSpace(c),
                    (Esc, _) => chewing_handle_Esc(c),
                    (Enter, _) => chewing_handle_Enter(c),
                    (Del, _) => chewing_handle_Del(c),
                    (Backspace, _) => chewing_handle_Backspace(c),
                    (Tab, _) => chewing_handle_Tab(c),
                    (Left, 1) => chewing_handle_ShiftLeft(c),
                    (Left, _) => chewing_handle_Left(c),
                    (Right, 1) => chewing_handle_ShiftRight(c),
                    (Right, _) => chewing_handle_Right(c),
                    (Up, _) => chewing_handle_Up(c),
                    (Down, _) => chewing_handle_Down(c),
                    (Home, _) => chewing_handle_Home(c),
                    (End, _) => chewing_handle_End(c),
                    (PageUp, _) => chewing_handle_PageUp(c),
                    (PageDown, _) => chewing_handle_PageDown(c),
                    (Unknown, 4) => chewing_handle_Capslock(c),
                    _ => -99,
                };
                format!("{}", rc)
            }
            Op::CDefault(k) => format!("{}", chewing_handle_Default(c, *k)),
            Op::CCtrlNum(k) => format!("{}", chewing_handle_CtrlNum(c, *k)),
            Op::CNumlock(k) => format!("{}", chewing_handle_Numlock(c, *k)),
            Op::KbType(k) => format!("{}", chewing_set_KBType(c, *k)),
            Op::SelKey(ks) => {
                chewing_capi::candidates::chewing_set_selKey(c, ks.as_ptr(), 10);
                "-".into()
            }
            Op::CChoose(i) => format!("{}", chewing_cand_choose_by_index(c, *i)),
            Op::COpen => format!("{}", chewing_cand_open(c)),
            Op::CClose => format!("{}", chewing_cand_close(c)),
            Op::CCommit => format!("{}", chewing_capi::output::chewing_commit_preedit_buf(c)),
            Op::CCleanPre => format!("{}", chewing_capi::output::chewing_clean_preedit_buf(c)),
            Op::CCleanBopo => format!("{}", chewing_capi::output::chewing_clean_bopomofo_buf(c)),
            Op::CReset => {
                chewing_Reset(c);
                "-".into()
            }
            Op::CCandList(w) => {
                use chewing_capi::candidates::*;
                let rc = match w {
                    0 => chewing_cand_list_first(c),
                    1 => chewing_cand_list_last(c),
                    2 => chewing_cand_list_next(c),
                    _ => chewing_cand_list_prev(c),
                };
                format!("{}", rc)
            }
            Op::CUpAdd(t, b) | Op::CUpRemove(t, b) => {
                let ct = std::ffi::CString::new(t.as_str()).unwrap();
                let cb = std::ffi::CString::new(b.as_str()).unwrap();
                let rc = if matches!(op, Op::CUpAdd(..)) {
                    chewing_capi::userphrase::chewing_userphrase_add(c, ct.as_ptr(), cb.as_ptr())
                } else {
                    chewing_capi::userphrase::chewing_userphrase_remove(c, ct.as_ptr(), cb.as_ptr())
                };
                format!("{}", rc)
            }
            Op::CSetInt(n, v) => {
                let name = std::ffi::CString::new(CFG_NAMES[(*n as usize) % 13]).unwrap();
                format!("{}", chewing_capi::globals::chewing_config_set_int(c, name.as_ptr(), *v))
            }
            _ => "?".into(),
        }
    }
}

/// an editor of its own, or the editor behind a ChewingContext (capi cases)
struct Holder {
    own: Option<Editor>,
    ctx: *mut ChewingContext,
}

impl Holder {
    fn ed(&mut self) -> &mut Editor {
        if self.ctx.is_null() {
            self.own.as_mut().unwrap()
        } else {
            unsafe { chewing_capi::verif::verif_editor_mut(self.ctx).unwrap() }
        }
    }
}

impl Drop for Holder {
    fn drop(&mut self) {
        if !self.ctx.is_null() {
            CUR_CTX.with(|c| c.set(std::ptr::null_mut()));
            unsafe { chewing_delete(self.ctx) };
        }
    }
}

fn build_trie_file(entries: &[Entry], path: &std::path::Path) {
    build_trie_file_mode(entries, path, 0)
}

/// mode 1 / 2: the sibling records of every node reversed / rotated (a legal file TrieBuilder never writes)
fn build_trie_file_mode(entries: &[Entry], path: &std::path::Path, mode: u8) {
    let mut b = TrieBuilder::new();
    for e in entries {
        let _ = b.insert(&e.key, (e.text.as_str(), e.freq).into());
    }
    let _ = std::fs::remove_file(path);
    b.build(path).expect("build trie");
    if mode != 0 {
        let bytes = std::fs::read(path).expect("read trie");
        let out = vharness::util::permute_trie_siblings(&bytes, mode).expect("permute the sibling records");
        std::fs::write(path, out).expect("write trie");
    }
}

/// capi cases: the system dictionary is a trie FILE (tsi.dat; word.dat is empty).  The setup lists its entries in the
/// order the file's own enumeration (Trie::entries) yields them: the phrases of a key in leaf order, keys of equal
/// length in the order of the sibling records - the order a lookup answers in (the model keeps the order it is given)
fn trie_order(entries: &[Entry], scratch: &std::path::Path, mode: u8) -> Vec<Entry> {
    let p = scratch.join("order.dat");
    let mut uniq: Vec<Entry> = vec![];
    for e in entries {
        if !uniq.iter().any(|u| u.key == e.key && u.text == e.text) {
            uniq.push(e.clone());
        }
    }
    build_trie_file_mode(&uniq, &p, mode);
    let t = Trie::open(&p).expect("open trie");
    let out: Vec<Entry> = t.entries().map(|(k, ph)| Entry { key: k, text: ph.as_str().to_string(), freq: ph.freq(), time: 0 }).collect();
    drop(t);
    let _ = std::fs::remove_file(&p);
    out
}

fn build_holder(setup: &CaseSetup, scratch: &std::path::Path) -> Holder {
    if !setup.capi {
        return Holder { own: Some(build_editor(setup, scratch)), ctx: std::ptr::null_mut() };
    }
    let sys = scratch.join("capisys");
    let _ = std::fs::remove_dir_all(&sys);
    std::fs::create_dir_all(&sys).unwrap();
    build_trie_file(&[], &sys.join("word.dat"));
    build_trie_file_mode(&setup.sys, &sys.join("tsi.dat"), setup.capi_mode);
    let mut f = std::fs::File::create(sys.join("swkb.dat")).unwrap();
    for (c, e) in &setup.abbr {
        writeln!(f, "{} {}", c, e).unwrap();
    }
    drop(f);
    let mut symtxt = String::new();
    for (name, tab) in &setup.symsel {
        match tab {
            Some(t) => {
                let _ = writeln!(symtxt, "{}={}", name, t);
            }
            None => {
                let _ = writeln!(symtxt, "{}", name);
            }
        }
    }
    std::fs::write(sys.join("symbols.dat"), symtxt).unwrap();
    let s = std::ffi::CString::new(sys.to_str().unwrap()).unwrap();
    let u = std::ffi::CString::new(":memory:").unwrap();
    let ctx = unsafe { chewing_new2(s.as_ptr(), u.as_ptr(), None, std::ptr::null_mut()) };
    assert!(!ctx.is_null(), "chewing_new2 failed");
    CUR_CTX.with(|c| c.set(ctx));
    Holder { own: None, ctx }
}

// ---------------------------------------------------------------- C17: queries, reset twin

thread_local! {
    /// sparse observation: the O observation is made only by `get` ops (so that runs with and without
    /// query calls both exist and both have to agree with the model, which ignores queries)
    static SPARSE: std::cell::Cell<bool> = const { std::cell::Cell::new(false) };
    /// after a reset (`clear`): a freshly built editor with the same configuration and user dictionary,
    /// driven with the same ops from then on
    static TWIN: std::cell::RefCell<Option<Editor>> = const { std::cell::RefCell::new(None) };
    /// query twin (C17, "inserting getter calls leaves the results of all other calls unchanged"): a second
    /// editor built from the same setup that executes every op except the `get` ops and is NEVER observed
    /// through a query function; after every op its result and its hook snapshot must equal the main editor's
    static QTWIN: std::cell::RefCell<Option<Editor>> = const { std::cell::RefCell::new(None) };
    static QSTATE: std::cell::Cell<u8> = const { std::cell::Cell::new(0) };   // 0 not built, 1 running, 2 stopped
    static CUR_SETUP: std::cell::RefCell<Option<CaseSetup>> = const { std::cell::RefCell::new(None) };
    static CUR_ENGINE: std::cell::Cell<u8> = const { std::cell::Cell::new(1) };
    static CUR_LAYOUT: std::cell::Cell<u8> = const { std::cell::Cell::new(0) };
    static CUR_CTX: std::cell::Cell<*mut ChewingContext> = const { std::cell::Cell::new(std::ptr::null_mut()) };
}

fn begin_case(setup: &CaseSetup, sparse: bool) {
    SPARSE.with(|c| c.set(sparse));
    TWIN.with(|t| *t.borrow_mut() = None);
    QTWIN.with(|t| *t.borrow_mut() = None);
    QSTATE.with(|c| c.set(if setup.capi { 2 } else { 0 }));
    CUR_SETUP.with(|c| *c.borrow_mut() = Some(setup.clone()));
    CUR_ENGINE.with(|c| c.set(1));
    CUR_LAYOUT.with(|c| c.set(setup.layout));
}

/// every public query function of the editor, rendered (C17: a repeated call returns an equal value)
fn all_getters(ed: &mut Editor) -> String {
    let r = catch(AssertUnwindSafe(|| {
        let ivs: Vec<String> = ed.intervals().map(|i| format!("{}-{}:{}:{}", i.start, i.end, i.is_phrase as u8, cps(&i.str))).collect();
        let o = opts_vec(&ed.editor_options());
        format!(
            "display={} commit={} notice={} cursor={} len={} empty={} entering={} selecting={} last={} syl={}/{}/{} symbols={} all={:?} page={:?} tp={:?} pg={:?} next={} prev={} opts={:?} ivs={}",
            cps(&ed.display()),
            cps(ed.display_commit()),
            cps(ed.notification()),
            ed.cursor(),
            ed.len(),
            ed.is_empty() as u8,
            ed.is_entering() as u8,
            ed.is_selecting() as u8,
            behavior_str(ed.last_key_behavior()),
            ed.entering_syllable() as u8,
            ed.syllable_buffer().to_u16(),
            cps(&ed.syllable_buffer_display()),
            ed.symbols().len(),
            ed.all_candidates().map(|c| c.iter().map(|x| cps(x)).collect::<Vec<_>>()).ok(),
            ed.paginated_candidates().map(|c| c.len()).ok(),
            ed.total_page().ok(),
            ed.current_page_no().ok(),
            ed.has_next_selection_point() as u8,
            ed.has_prev_selection_point() as u8,
            o,
            ivs.join(",")
        )
    }));
    let _ = take_conversion_log();
    r.unwrap_or_else(|_| "PANIC".into())
}

/// what a reset context and its fresh twin must agree on (time stamps and the pending-flush counter excluded)
fn twin_view(ed: &mut Editor) -> String {
    let snap: String = ed.verif_snapshot().split_whitespace().filter(|f| !f.starts_with("dirty=")).collect::<Vec<_>>().join(" ");
    let g = all_getters(ed);
    let mut ents: Vec<String> = ed.user_dict().entries().map(|(k, p)| format!("{}|{}|{}", key_str(&k), cps(p.as_str()), p.freq())).collect();
    ents.sort();
    format!("{} || {} || {}", snap, g, ents.join(";"))
}

fn twin_after(ed: &mut Editor, op: &Op, out: &mut String) {
    if let Op::Engine(k) = op {
        CUR_ENGINE.with(|c| c.set(*k));
    }
    if let Op::Layout(l) = op {
        CUR_LAYOUT.with(|c| c.set(*l));
    }
    let had_twin = TWIN.with(|t| t.borrow().is_some());
    if had_twin && !matches!(op, Op::Clear) {
        let mut tw = TWIN.with(|t| t.borrow_mut().take()).unwrap();
        let r = catch(AssertUnwindSafe(|| {
            apply(&mut tw, op);
        }));
        let _ = take_conversion_log();
        if r.is_err() {
            let _ = writeln!(out, "T PANIC-IN-TWIN");
            return;
        }
        let (a, b) = (twin_view(ed), twin_view(&mut tw));
        if a == b {
            let _ = writeln!(out, "T ok");
            TWIN.with(|t| *t.borrow_mut() = Some(tw));
        } else {
            let _ = writeln!(out, "T MISMATCH reset={} fresh={}", a.replace(' ', "_"), b.replace(' ', "_"));
        }
    }
    if matches!(op, Op::Clear) && !CUR_CTX.with(|c| c.get()).is_null() {
        return;
    }
    if matches!(op, Op::Clear) {
        // fresh editor: same system dictionary and tables, the user dictionary as it is now, same options and engine
        let setup = CUR_SETUP.with(|c| c.borrow().clone());
        if let Some(mut setup) = setup {
            setup.usr = ed
                .user_dict()
                .entries()
                .map(|(k, p)| Entry { key: k, text: p.as_str().to_string(), freq: p.freq(), time: p.last_used().unwrap_or(0) })
                .collect();
            let scratch = std::env::temp_dir().join(format!("vharness-ed-{}", std::process::id())).join("twin");
            let _ = std::fs::create_dir_all(&scratch);
            setup.layout = CUR_LAYOUT.with(|c| c.get());
            let mut tw = build_editor(&setup, &scratch);
            tw.set_editor_options(ed.editor_options());
            match CUR_ENGINE.with(|c| c.get()) {
                0 => tw.set_conversion_engine(Box::new(SimpleEngine::new())),
                1 => tw.set_conversion_engine(Box::new(ChewingEngine::new())),
                _ => tw.set_conversion_engine(Box::new(FuzzyChewingEngine::new())),
            }
            let _ = take_conversion_log();
            let (a, b) = (twin_view(ed), twin_view(&mut tw));
            if a == b {
                let _ = writeln!(out, "T ok");
                TWIN.with(|t| *t.borrow_mut() = Some(tw));
            } else {
                let _ = writeln!(out, "T MISMATCH reset={} fresh={}", a.replace(' ', "_"), b.replace(' ', "_"));
                TWIN.with(|t| *t.borrow_mut() = None);
            }
        }
    }
}

/// run the op on the never-queried twin and compare result + hook snapshot with the main editor's
fn qtwin_after(op: &Op, main_res: Option<&str>, main_snap: &str, out: &mut String) {
    if QSTATE.with(|c| c.get()) == 0 {
        let setup = CUR_SETUP.with(|c| c.borrow().clone());
        if let Some(setup) = setup {
            let scratch = std::env::temp_dir().join(format!("vharness-ed-{}", std::process::id())).join("qtwin");
            let _ = std::fs::create_dir_all(&scratch);
            let tw = build_editor(&setup, &scratch);
            let _ = take_conversion_log();
            QTWIN.with(|t| *t.borrow_mut() = Some(tw));
            QSTATE.with(|c| c.set(1));
        }
    }
    if QSTATE.with(|c| c.get()) != 1 || matches!(op, Op::Get(_)) {
        return;
    }
    let mut tw = QTWIN.with(|t| t.borrow_mut().take()).unwrap();
    let r = catch(AssertUnwindSafe(|| apply(&mut tw, op)));
    let _ = take_conversion_log();
    let tw_res = r.ok();
    let tw_snap = if tw_res.is_some() { tw.verif_snapshot() } else { String::new() };
    if tw_res.as_deref() == main_res && (main_res.is_none() || tw_snap == main_snap) {
        let _ = writeln!(out, "Q ok");
        if tw_res.is_some() {
            QTWIN.with(|t| *t.borrow_mut() = Some(tw));
        } else {
            QSTATE.with(|c| c.set(2));
        }
    } else {
        let _ = writeln!(
            out,
            "Q MISMATCH queried={:?}/{} unqueried={:?}/{}",
            main_res,
            main_snap.replace(' ', "_"),
            tw_res,
            tw_snap.replace(' ', "_")
        );
        QSTATE.with(|c| c.set(2));
    }
}

/// capi cases: the query functions of the C API on the context (compared with Model/CapiKeys.v: c_flags ...)
fn observe_c(out: &mut String) {
    use chewing_capi::candidates::*;
    use chewing_capi::layout::chewing_get_KBType;
    use chewing_capi::output::*;
    let c = CUR_CTX.with(|c| c.get());
    if c.is_null() {
        return;
    }
    unsafe {
        let take = |p: *mut std::ffi::c_char| -> String {
            if p.is_null() {
                return "<null>".into();
            }
            let s = std::ffi::CStr::from_ptr(p).to_string_lossy().into_owned();
            chewing_capi::setup::chewing_free(p.cast());
            s
        };
        let flags = [
            chewing_commit_Check(c),
            chewing_buffer_Check(c),
            chewing_buffer_Len(c),
            chewing_bopomofo_Check(c),
            chewing_cursor_Current(c),
            chewing_cand_CheckDone(c),
            chewing_cand_TotalPage(c),
            chewing_cand_ChoicePerPage(c),
            chewing_cand_TotalChoice(c),
            chewing_cand_CurrentPage(c),
            chewing_aux_Check(c),
            chewing_aux_Length(c),
            chewing_keystroke_CheckIgnore(c),
            chewing_keystroke_CheckAbsorb(c),
            chewing_get_KBType(c),
        ];
        let commit = take(chewing_commit_String(c));
        let buffer = take(chewing_buffer_String(c));
        let aux = take(chewing_aux_String(c));
        let mut cands = vec![];
        chewing_cand_Enumerate(c);
        let mut guard = 0;
        while chewing_cand_hasNext(c) == 1 && guard < 50_000 {
            cands.push(cps(&take(chewing_cand_String(c))));
            guard += 1;
        }
        let _ = take_conversion_log();
        // chewing_config_get_int of every named option
        let cfg: Vec<String> = CFG_NAMES
            .iter()
            .map(|n| {
                let name = std::ffi::CString::new(*n).unwrap();
                chewing_capi::globals::chewing_config_get_int(c, name.as_ptr()).to_string()
            })
            .collect();
        let _ = writeln!(
            out,
            "OC flags={} commit={} buffer={} cands={} aux={} cfg={}",
            flags.iter().map(|f| f.to_string()).collect::<Vec<_>>().join(","),
            cps(&commit),
            cps(&buffer),
            cands.join(";"),
            cps(&aux),
            cfg.join(",")
        );
    }
}

fn observe(ed: &mut Editor, out: &mut String) {
    // the observation itself converts once: log it separately
    let disp = catch(AssertUnwindSafe(|| {
        let d = ed.display();
        let ivs: Vec<_> = ed.intervals().collect();
        (d, ivs)
    }));
    let log = take_conversion_log();
    match disp {
        Err(_) => {
            let _ = writeln!(out, "O PANIC");
        }
        Ok((d, ivs)) => {
            if let Some(first) = log.first() {
                let _ = writeln!(out, "DCONV {}", first);
            }
            let mut o = format!("O display={}", cps(&d));
            let tiles = {
                let mut pos = 0usize;
                let mut ok = true;
                for iv in &ivs {
                    ok &= iv.start == pos && iv.end > iv.start && iv.str.chars().count() == iv.end - iv.start;
                    pos = iv.end;
                }
                ok && pos == ed.len()
            };
            let _ = write!(o, " tiling={}", tiles as u8);
            match catch(AssertUnwindSafe(|| (ed.all_candidates(), ed.total_page(), ed.current_page_no()))) {
                Ok((Ok(c), Ok(tp), Ok(pg))) => {
                    let _ = write!(o, " cands={}:{} tp={} pg={}", c.len(), c.iter().map(|x| cps(x)).collect::<Vec<_>>().join(","), tp, pg);
                }
                Ok(_) => {
                    let _ = write!(o, " cands=-");
                }
                Err(_) => {
                    let _ = write!(o, " cands=PANIC");
                }
            }
            let mut ents: Vec<String> = ed
                .user_dict()
                .entries()
                .map(|(k, p)| format!("{}|{}|{}|{}", key_str(&k), cps(p.as_str()), p.freq(), p.last_used().unwrap_or(0)))
                .collect();
            ents.sort();
            let _ = write!(o, " user={}", ents.join(";"));
            let _ = writeln!(out, "{}", o);
            observe_c(out);
        }
    }
}

fn write_setup(n: usize, s: &CaseSetup, out: &mut String) {
    let _ = writeln!(out, "CASE {}", n);
    if s.capi {
        let _ = writeln!(out, "CAPI {}", s.capi_mode);
    }
    for e in &s.sys {
        let _ = writeln!(out, "SYS {}|{}|{}", key_str(&e.key), cps(&e.text), e.freq);
    }
    for e in &s.usr {
        let _ = writeln!(out, "USR {}|{}|{}|{}", key_str(&e.key), cps(&e.text), e.freq, e.time);
    }
    for (c, e) in &s.abbr {
        let _ = writeln!(out, "ABBR {}|{}", *c as u32, cps(e));
    }
    for (name, t) in &s.symsel {
        match t {
            Some(t) => {
                let _ = writeln!(out, "SYMSEL {}={}", cps(name), cps(t));
            }
            None => {
                let _ = writeln!(out, "SYMSEL {}", cps(name));
            }
        }
    }
    if SPARSE.with(|c| c.get()) {
        let _ = writeln!(out, "MODE sparse");
    }
    if s.layout != 0 {
        let _ = writeln!(out, "LAYOUT {}", s.layout);
    }
    let _ = writeln!(out, "INIT {}", s.lifetime);
}

/// run one op on the implementation and append OP/CONV/R/S/DCONV/O lines; false if it panicked
fn step(ed: &mut Editor, op: &Op, out: &mut String) -> bool {
    let _ = writeln!(out, "OP {}", op_line(op));
    let r = catch(AssertUnwindSafe(|| apply(ed, op)));
    for l in take_conversion_log() {
        let _ = writeln!(out, "CONV {}", l);
    }
    match r {
        Err(msg) => {
            let _ = writeln!(out, "# panic: {}", msg.replace('\n', " "));
            let _ = writeln!(out, "R PANIC");
            qtwin_after(op, None, "", out);
            false
        }
        Ok(res) => {
            let _ = writeln!(out, "R {}", res);
            let snap = ed.verif_snapshot();
            let _ = writeln!(out, "S {}", snap);
            qtwin_after(op, Some(&res), &snap, out);
            twin_after(ed, op, out);
            let nobs = match op {
                Op::Get(n) => *n,
                _ => (!SPARSE.with(|c| c.get())) as usize,
            };
            for _ in 0..nobs {
                if let Op::Get(_) = op {
                    let g = all_getters(ed);
                    let _ = writeln!(out, "G {}", g);
                }
                observe(ed, out);
                if out.ends_with("O PANIC\n") {
                    return false;
                }
            }
            true
        }
    }
}

// ---------------------------------------------------------------- generation

struct World {
    syls: Vec<Syllable>,           // the syllable alphabet
    keys: Vec<Vec<KeyCode>>,       // key sequence (Standard layout on Qwerty) for each
    no_word: Vec<bool>,            // syllables deliberately left without any word
    chain: Option<[usize; 4]>,     // syllables a b c d with entries for a-b, c-d and b-c (overlapping choices)
}

fn standard_key_for(b: Bopomofo) -> Option<KeyCode> {
    // probe the implementation's own layout table through the public API
    for code in ALL_CODES.iter().take(49).skip(1) {
        let mut ed = Standard::new();
        let ev = Qwerty.map(*code);
        let r = ed.key_press(ev);
        if r == KeyBehavior::Absorb {
            let s = ed.read();
            let got = [s.initial(), s.medial(), s.rime(), s.tone()].into_iter().flatten().next();
            if got == Some(b) {
                return Some(*code);
            }
        }
    }
    None
}

const ALL_BOPOMOFO: [Bopomofo; 41] = {
    use Bopomofo::*;
    [
        B, P, M, F, D, T, N, L, G, K, H, J, Q, X, ZH, CH, SH, R, Z, C, S, I, U, IU, A, O, E, EH, AI, EI, AU, OU, AN, EN, ANG,
        ENG, ER, TONE5, TONE2, TONE3, TONE4,
    ]
};

fn random_syllable(rng: &mut Rng) -> (Syllable, Vec<KeyCode>) {
    loop {
        let pick = |rng: &mut Rng, k: BopomofoKind, p: u64| -> Option<Bopomofo> {
            if rng.chance(p, 100) {
                let v: Vec<_> = ALL_BOPOMOFO.iter().cloned().filter(|b| b.kind() == k).collect();
                Some(*rng.pick(&v))
            } else {
                None
            }
        };
        let parts = [pick(rng, BopomofoKind::Initial, 75), pick(rng, BopomofoKind::Medial, 35), pick(rng, BopomofoKind::Rime, 70)];
        if parts.iter().all(|p| p.is_none()) {
            continue;
        }
        let tone = pick(rng, BopomofoKind::Tone, 60);
        let mut b = Syllable::builder();
        let mut keys = vec![];
        for p in parts.iter().flatten().chain(tone.iter()) {
            b = b.insert(*p).unwrap();
            keys.push(standard_key_for(*p).unwrap());
        }
        if tone.is_none() {
            keys.push(KeyCode::Space);
        }
        return (b.build(), keys);
    }
}

/// a syllable the given layout can enter, with the key sequence that enters it: random keys pressed on the
/// implementation's own layout object until one is answered with Commit (Pinyin: a spelling plus a tone key)
fn random_syllable_for(rng: &mut Rng, layout: u8) -> (Syllable, Vec<KeyCode>) {
    if layout == 0 {
        return random_syllable(rng);
    }
    const PINYIN: [&str; 16] = ["zhong", "guo", "ni", "hao", "shi", "ce", "wo", "men", "ta", "xue", "ma", "a", "yi", "wu", "lü", "jiang"];
    loop {
        let mut obj = new_layout(layout);
        let mut keys: Vec<KeyCode> = vec![];
        let mut press = |obj: &mut Box<dyn SyllableEditor>, code: KeyCode, keys: &mut Vec<KeyCode>| -> KeyBehavior {
            keys.push(code);
            obj.key_press(Qwerty.map(code))
        };
        if layout >= 7 {
            let w = *rng.pick(&PINYIN);
            let mut ok = true;
            for ch in w.chars().filter(|c| c.is_ascii_lowercase()) {
                let code = Qwerty.map_ascii(ch as u8).code;
                if press(&mut obj, code, &mut keys) != KeyBehavior::Absorb {
                    ok = false;
                    break;
                }
            }
            if !ok {
                continue;
            }
            let tone = *rng.pick(&[Space, N1, N2, N3, N4, N5]);
            if press(&mut obj, tone, &mut keys) == KeyBehavior::Commit && !obj.read().is_empty() {
                return (obj.read(), keys);
            }
            continue;
        }
        for _ in 0..5 {
            let code = ALL_CODES[1 + rng.below(48) as usize];
            match press(&mut obj, code, &mut keys) {
                KeyBehavior::Commit => {
                    if !obj.read().is_empty() {
                        return (obj.read(), keys);
                    }
                    break;
                }
                KeyBehavior::Absorb => {}
                _ => break,
            }
        }
    }
}

fn cjk(rng: &mut Rng) -> char {
    char::from_u32(0x4e00 + rng.below(60) as u32).unwrap()
}

fn gen_setup(rng: &mut Rng) -> (CaseSetup, World) {
    gen_setup_l(rng, 0)
}

fn gen_setup_l(rng: &mut Rng, layout: u8) -> (CaseSetup, World) {
    let n = 3 + rng.below(6) as usize;
    let mut syls = vec![];
    let mut keys = vec![];
    while syls.len() < n {
        let (s, k) = random_syllable_for(rng, layout);
        if !syls.contains(&s) {
            syls.push(s);
            keys.push(k);
        }
    }
    let no_word: Vec<bool> = (0..n).map(|i| i > 1 && rng.chance(1, 8)).collect();
    let mut sys = vec![];
    let mut usr = vec![];
    for (i, s) in syls.iter().enumerate() {
        if no_word[i] {
            continue;
        }
        let words = 1 + rng.below(4);
        for _ in 0..words {
            sys.push(Entry { key: vec![*s], text: cjk(rng).to_string(), freq: rng.below(3000) as u32, time: 0 });
        }
    }
    let phrases = rng.below(10) as usize + 2;
    for _ in 0..phrases {
        let len = 2 + rng.below(3) as usize;
        let key: Vec<Syllable> = (0..len).map(|_| syls[rng.below(n as u64) as usize]).collect();
        let text: String = (0..len).map(|_| cjk(rng)).collect();
        let e = Entry { key, text, freq: rng.below(5000) as u32, time: rng.below(50) };
        if rng.chance(1, 4) {
            usr.push(e);
        } else {
            sys.push(e);
        }
    }
    // a chain of overlapping phrases: a-b, c-d and b-c (choosing all three makes the last choice
    // override two earlier ones), sometimes the whole a-b-c-d too
    let with_word: Vec<usize> = (0..n).filter(|i| !no_word[*i]).collect();
    let chain = if with_word.len() >= 2 && rng.chance(1, 2) {
        let c: [usize; 4] = [*rng.pick(&with_word), *rng.pick(&with_word), *rng.pick(&with_word), *rng.pick(&with_word)];
        // every second chain: all its phrases carry the same frequency, so that the segmentations a-b | c and
        // a | b-c score (nearly) alike and a single learning step can swap their rank (seeded change C02-C)
        let same_freq = if rng.chance(1, 2) { Some(rng.below(5000) as u32) } else { None };
        for (x, y) in [(c[0], c[1]), (c[2], c[3]), (c[1], c[2])] {
            for _ in 0..(1 + rng.below(2)) {
                let text: String = (0..2).map(|_| cjk(rng)).collect();
                let e = Entry { key: vec![syls[x], syls[y]], text, freq: same_freq.unwrap_or(rng.below(5000) as u32), time: rng.below(50) };
                if rng.chance(1, 5) { usr.push(e) } else { sys.push(e) }
            }
        }
        if rng.chance(1, 3) {
            let text: String = (0..4).map(|_| cjk(rng)).collect();
            sys.push(Entry { key: c.iter().map(|i| syls[*i]).collect(), text, freq: rng.below(5000) as u32, time: 0 });
        }
        Some(c)
    } else {
        None
    };
    // a few homophonous duplicates across layers
    if !sys.is_empty() && rng.chance(1, 2) {
        let e = sys[rng.below(sys.len() as u64) as usize].clone();
        usr.push(Entry { freq: rng.below(6000) as u32, time: rng.below(50), ..e });
    }
    // one case in twelve: the frequencies are ANY u32 (a dictionary file may hold every value) - within a dozen of
    // u32::MAX, around 2^31, 3 * 10^9: the engine's sum and the estimate's addition saturate (fixes 2d722b2, c3802fc)
    if rng.chance(1, 12) {
        for e in sys.iter_mut().chain(usr.iter_mut()) {
            e.freq = match rng.below(4) {
                0 => u32::MAX - rng.below(12) as u32,
                1 => (1u32 << 31) - 3 + rng.below(6) as u32,
                2 => 3_000_000_000 + rng.below(1000) as u32,
                _ => e.freq,
            };
        }
    }
    let abbr = if rng.chance(1, 3) { vec![('B', "百度".to_string()), ('z', "zh".to_string())] } else { vec![] };
    let symsel = if rng.chance(2, 3) {
        vec![
            ("…".to_string(), None),
            ("※".to_string(), None),
            ("常用符號".to_string(), Some("，、。？！".to_string())),
            ("括號".to_string(), Some("（）「」『』〈〉《》【】".to_string())),
        ]
    } else {
        vec![]
    };
    // the estimator's clock: mostly young; one case in five starts from an old profile (the user entries were last
    // used thousands / tens of thousands of ticks ago: the other branches of the frequency estimate, should the
    // stored time ever reach it)
    let lifetime = match rng.below(10) {
        0 => 4_000 + rng.below(40_000),
        1 => 50_000 + rng.below(200_000),
        _ => rng.below(100),
    };
    (CaseSetup { sys, usr, abbr, symsel, lifetime, layout, capi: false, capi_mode: 0 }, World { syls, keys, no_word, chain })
}

fn key_op(code: KeyCode, mods: Modifiers) -> Op {
    let ev = Qwerty.map_with_mod(code, mods);
    Op::Key { idx_of: code as u8, code: code as u8, uni: ev.unicode as u32, shift: mods.shift, ctrl: mods.ctrl, caps: mods.capslock, num: mods.numlock }
}

/// the C call that stands for an editor operation in a capi case (operations without a C counterpart in the modelled
/// glue - options, engine, user phrases, queries - stay calls on the editor behind the context)
fn to_c_op(op: Op, rng: &mut Rng, cur: &[u32; 14]) -> Vec<Op> {
    vec![to_c_op1(op, rng, cur)].into_iter().flatten().collect()
}

fn to_c_op1(op: Op, rng: &mut Rng, cur: &[u32; 14]) -> Vec<Op> {
    let one = |o: Op| vec![o];
    // KB numbers of the C API by phonetic layout number (Model/Layout.v numbering): several keyboards share a layout
    const KB_OF_LAYOUT: [&[i32]; 10] = [&[0, 6, 12, 13, 14, 15, 16], &[1, 7], &[2], &[3], &[4], &[5], &[8], &[9], &[10], &[11]];
    let r = match op {
        Op::Key { code, uni, shift, ctrl, caps, num, .. } => {
            let kc = ALL_CODES[(code as usize) % 63];
            let named = matches!(kc, Esc | Enter | Del | Backspace | Tab | Left | Right | Up | Down | Home | End | PageUp | PageDown);
            if code == 0 && caps {
                Op::CKey(0, 4)
            } else if named && !ctrl {
                Op::CKey(code, if shift && matches!(kc, Left | Right) { 1 } else { 0 })
            } else if kc == Space && shift {
                Op::CKey(code, 1)
            } else if kc == Space && !ctrl {
                if rng.chance(1, 2) { Op::CKey(code, 0) } else { Op::CDefault(32) }
            } else if (1..=48).contains(&code) {
                // a character key: the character the event carries (its shifted form under Shift), as an int
                let ch = if uni < 128 { uni as i32 } else { Qwerty.map_with_mod(kc, Modifiers { shift, ..Modifiers::default() }).unicode as i32 };
                if ctrl && (1..=10).contains(&code) {
                    Op::CCtrlNum(b'0' as i32 + (code as i32 % 10))
                } else if num {
                    Op::CNumlock(ch)
                } else if rng.chance(1, 40) {
                    // any int: `key as u8`
                    Op::CDefault(ch + 256 * (rng.below(5) as i32 - 2))
                } else {
                    Op::CDefault(ch)
                }
            } else {
                Op::CDefault(*rng.pick(&[0, 7, 13, 27, 127, 128, 200, 255, 256, -1, 300, 65]))
            }
        }
        Op::Select(n) => Op::CChoose(if rng.chance(1, 30) { -1 - n as i32 } else { n as i32 }),
        Op::Start => Op::COpen,
        Op::Cancel => Op::CClose,
        Op::Commit => Op::CCommit,
        Op::Clear => {
            if rng.chance(1, 3) { Op::CCleanPre } else { Op::CReset }
        }
        Op::ClearSyl => Op::CCleanBopo,
        Op::JFirst => Op::CCandList(0),
        Op::JLast => Op::CCandList(1),
        Op::JNext => Op::CCandList(2),
        Op::JPrev => Op::CCandList(3),
        Op::Layout(l) => {
            if rng.chance(1, 12) {
                Op::KbType(*rng.pick(&[-1, 17, 18, 255, 256, 300, 1 << 20]))
            } else {
                Op::KbType(*rng.pick(KB_OF_LAYOUT[(l as usize) % 10]))
            }
        }
        // the lookup strategy is not an option of its own in the C API: the conversion engine option sets it (the fuzzy
        // engine = prefix lookup, which a trie FILE answers over every matching key in key order: Model mdf_ops)
        Op::Opts(o) => {
            // through chewing_config_set_int: one call per option that changes (the C value of each), now and then a
            // value outside the option's range (rejected with -1, nothing changes)
            let mut v: Vec<Op> = vec![];
            let idx_of = |i: usize| -> Option<u8> { [0usize, 1, 2, 3, 4, 5, 6, 7, 8, 9, 10, 99, 11, 12].get(i).and_then(|k| if *k == 99 { None } else { Some(*k as u8) }) };
            for i in 0..14 {
                if o[i] != cur[i] {
                    if let Some(n) = idx_of(i) {
                        let val = match i {
                            8 => 1 - o[i] as i32,      // language_mode: CHINESE_MODE = 1, SYMBOL_MODE = 0
                            _ => o[i] as i32,
                        };
                        v.push(Op::CSetInt(n, val));
                    }
                }
            }
            if rng.chance(1, 6) {
                let n = rng.below(13) as u8;
                let val = *rng.pick(&[-1, 2, 3, 11, 40, 100, 1 << 30]);
                v.push(Op::CSetInt(n, val));
            }
            return v;
        }
        Op::Engine(k) => return one(Op::CSetInt(11, k as i32)),
        // user phrases: the syllables as a Bopomofo string (now and then with stray white space or a word that does not parse)
        Op::Learn(..) | Op::Unlearn(..) => {
            let add = matches!(op, Op::Learn(..));
            let (k, t) = match op {
                Op::Learn(k, t) | Op::Unlearn(k, t) => (k, t),
                _ => unreachable!(),
            };
            let mut b = k.iter().map(|s| s.to_string()).collect::<Vec<_>>().join(if rng.chance(1, 8) { "  " } else { " " });
            if rng.chance(1, 15) {
                b.push_str(" xx");
            }
            return one(if add { Op::CUpAdd(t, b) } else { Op::CUpRemove(t, b) });
        }
        Op::Ack if rng.chance(1, 2) => {
            // new selection keys now and then (ten ASCII characters)
            let sets: [&[u8; 10]; 3] = [b"asdfghjkl;", b"1234567890", b"aoeuhtnsid"];
            let k = *rng.pick(&sets);
            let mut a = [0i32; 10];
            for (i, b) in k.iter().enumerate() {
                a[i] = *b as i32;
            }
            Op::SelKey(a)
        }
        other => other,
    };
    vec![r]
}

fn gen_case(rng: &mut Rng, n: usize, tier: &str, scratch: &std::path::Path, out: &mut String, stats: &mut Stats) {
    // two cases in five run under another phonetic layout than the default one (the syllables of the case's world
    // are ones that layout can enter); the layout can also be switched in the middle of a history
    let layout = if rng.chance(3, 5) { 0 } else { 1 + rng.below(9) as u8 };
    let (mut setup, world) = gen_setup_l(rng, layout);
    // one case in five is executed through a ChewingContext (the C entry points for key entry, candidate calls, KB type,
    // selection keys, reset); its system dictionary is a trie file, its user dictionary starts empty
    if layout == 0 && rng.chance(1, 3) {
        setup.capi = true;
        setup.usr.clear();
        setup.lifetime = 0;
        // one capi case in three reads a file whose sibling records are NOT in ascending order (reversed / rotated):
        // legal, accepted by the reader's validation, never written by TrieBuilder
        setup.capi_mode = if rng.chance(1, 3) { 1 + rng.below(2) as u8 } else { 0 };
        setup.sys = trie_order(&setup.sys, scratch, setup.capi_mode);
    }
    let capi = setup.capi;
    let sparse = rng.chance(1, 3);
    begin_case(&setup, sparse);
    write_setup(n, &setup, out);
    let mut holder = build_holder(&setup, scratch);
    let mut ed = holder.ed();
    let max_ops = if tier == "thorough" { 40 + rng.below(160) } else { 20 + rng.below(50) } as usize;
    // initial configuration
    let mut o = opts_vec(&ed.editor_options());
    if rng.chance(2, 3) {
        o[6] = *rng.pick(&[0u32, 1, 2, 3, 4, 5, 6, 8, 10, 15, 20, 39]);
        o[7] = 1 + rng.below(10) as u32;
        for i in [0usize, 1, 2, 3, 4, 5, 10, 13] {
            if rng.chance(1, 4) {
                o[i] = 1 - o[i];
            }
        }
        if !step(&mut ed, &Op::Opts(o), out) {
            return;
        }
    }
    let none = Modifiers::default();
    let mut states_seen = std::collections::BTreeSet::new();
    let mut changes = 0usize;
    let mut last_syms = String::new();
    let mut pool: Vec<(Vec<Syllable>, String)> = setup.usr.iter().chain(setup.sys.iter()).take(6).map(|e| (e.key.clone(), e.text.clone())).collect();
    if capi {
        // a walk over the file first: for a few one-syllable keys of the system dictionary a user phrase is added under
        // the same key (the syllable is then accepted whatever the file answers), the syllable is typed and its list
        // opened: the list must hold the file's phrases too (C07's oracle), whatever the order of the sibling records
        let singles: Vec<usize> = (0..world.syls.len()).filter(|i| setup.sys.iter().any(|e| e.key.len() == 1 && e.key[0] == world.syls[*i])).collect();
        for _ in 0..singles.len().min(3) {
            let i = *rng.pick(&singles);
            let mut pre: Vec<Op> = vec![Op::CUpAdd(cjk(rng).to_string(), world.syls[i].to_string())];
            for k in &world.keys[i] {
                pre.extend(to_c_op(key_op(*k, none), rng, &opts_vec(&ed.editor_options())));
            }
            pre.push(Op::COpen);
            pre.push(Op::CClose);
            pre.push(Op::CReset);
            for op in pre {
                stats.ops += 1;
                if !step(&mut ed, &op, out) {
                    stats.panics += 1;
                    return;
                }
            }
        }
    }
    for _ in 0..max_ops {
        let selecting = ed.is_selecting();
        let r = rng.below(100);
        let mut ops: Vec<Op> = vec![];
        if rng.chance(if sparse { 3 } else { 1 }, 14) {
            // query calls at a random position, once or repeated (C17)
            ops.push(Op::Get(1 + rng.below(2) as usize));
        } else if rng.chance(1, 7) {
            // ---- scenario productions: multi-step situations a uniform walk rarely reaches ----
            // one of the scenarios is drawn with equal weight (a draw whose precondition does not hold, or one of the
            // last three numbers, falls through to the plain productions below): adding a scenario does not starve
            // the others
            let digit = |rng: &mut Rng| key_op(ALL_CODES[1 + rng.below(3) as usize], none);
            let pick = rng.below(N_SCENARIOS + 3);
            if !selecting && pick < N_SCENARIOS {
                *stats.kinds.entry(format!("scenario-draw-{:02}", pick)).or_insert(0) += 1;
            }
            match rng.below(if selecting { 5 } else { 2 }) {
                _ if !selecting && pick == 0 => {
                    // a syllable is left without a word: (a) typed under the fuzzy lookup, then the engine
                    // is switched back to the standard one; (b) its only word is a user word that is
                    // removed after typing it.  Then the list is opened, cycled, a choice tried, committed.
                    if rng.chance(1, 2) {
                        ops.push(Op::Engine(2));
                        let mut o = opts_vec(&ed.editor_options());
                        o[12] = 2;
                        o[11] = 1;
                        ops.push(Op::Opts(o));
                        for _ in 0..(2 + rng.below(2)) {
                            let i = rng.below(world.syls.len() as u64) as usize;
                            // the keys of the syllable without its last one (tone / space): a partial syllable
                            let ks = &world.keys[i];
                            for k in &ks[..ks.len().saturating_sub(1).max(1)] {
                                ops.push(key_op(*k, none));
                            }
                        }
                        let k = if rng.chance(2, 3) { 1 } else { 0 };
                        ops.push(Op::Engine(k));
                        o[12] = k as u32;
                        o[11] = 0;
                        ops.push(Op::Opts(o));
                    } else {
                        let i = rng.below(world.syls.len() as u64) as usize;
                        let text: String = cjk(rng).to_string();
                        ops.push(Op::Learn(vec![world.syls[i]], text.clone()));
                        for k in &world.keys[i] {
                            ops.push(key_op(*k, none));
                        }
                        ops.push(Op::Unlearn(vec![world.syls[i]], text));
                    }
                    for _ in 0..rng.below(3) {
                        ops.push(key_op(*rng.pick(&[Left, Home, Right]), none));
                    }
                    ops.push(key_op(Down, none));
                    for _ in 0..rng.below(3) {
                        ops.push(key_op(*rng.pick(&[Down, Space, J, K]), none));
                    }
                    ops.push(digit(rng));
                    ops.push(key_op(*rng.pick(&[Esc, Enter, Tab]), none));
                    ops.push(key_op(Enter, none));
                }
                _ if !selecting && !setup.abbr.is_empty() && pick == 1 => {
                    // easy-symbol input: an abbreviation key (Shift + letter of swkb.dat) pressed with the cursor in the
                    // MIDDLE of the buffer expands to several characters at the cursor, the cursor ends right after
                    // them, and the next key / Backspace acts there (seeded change C05-E)
                    let mut o = opts_vec(&ed.editor_options());
                    o[0] = 1;
                    o[8] = 0;
                    ops.push(Op::Opts(o));
                    for _ in 0..(2 + rng.below(3)) {
                        let i = rng.below(world.syls.len() as u64) as usize;
                        for k in &world.keys[i] {
                            ops.push(key_op(*k, none));
                        }
                    }
                    for _ in 0..(1 + rng.below(3)) {
                        ops.push(key_op(Left, none));
                    }
                    let (ch, _) = setup.abbr[rng.below(setup.abbr.len() as u64) as usize].clone();
                    let code = ALL_CODES.iter().position(|c| Qwerty.map_with_mod(*c, Modifiers { shift: true, ..none }).unicode == ch || Qwerty.map(*c).unicode == ch);
                    if let Some(ci) = code {
                        let shift = Qwerty.map(ALL_CODES[ci]).unicode != ch;
                        ops.push(key_op(ALL_CODES[ci], Modifiers { shift, ..none }));
                        ops.push(match rng.below(3) { 0 => key_op(Backspace, none), 1 => key_op(Del, none), _ => key_op(Comma, Modifiers { shift: true, ..none }) });
                    }
                    ops.push(Op::Get(1));
                }
                _ if !selecting && pick == 2 => {
                    // the buffer at its limit after a key that pushed text out (the commit string is not empty); then - no
                    // key and no ack in between - the limit is lowered and a choice made through the API pushes out more:
                    // what that commits is a leading part of the conversion, nothing of the earlier commit string
                    // (seeded change C02-D)
                    let mut o = opts_vec(&ed.editor_options());
                    let lim = 2 + rng.below(3) as u32;
                    o[6] = lim;
                    o[8] = 0;
                    ops.push(Op::Opts(o));
                    for _ in 0..(lim + 1 + rng.below(2) as u32) {
                        let i = rng.below(world.syls.len() as u64) as usize;
                        for k in &world.keys[i] {
                            ops.push(key_op(*k, none));
                        }
                    }
                    o[6] = lim - 1 - rng.below(2).min(lim as u64 - 1) as u32;
                    ops.push(Op::Opts(o));
                    ops.push(Op::Start);
                    ops.push(Op::Select(rng.below(2) as usize));
                    ops.push(Op::Get(1));
                }
                _ if !selecting && pick == 3 => {
                    // two or three one-syllable choices made from left to right, then an edit that destroys the FIRST of
                    // them (Delete on it / Backspace behind it): the later choices move along with their symbols and
                    // stay displayed (seeded changes C04-D, C04-F)
                    let with_word: Vec<usize> = (0..world.syls.len()).filter(|i| !world.no_word[*i]).collect();
                    if with_word.len() >= 2 {
                        let mut o = opts_vec(&ed.editor_options());
                        o[3] = 0;
                        o[4] = 0;
                        o[8] = 0;
                        o[6] = 20;
                        ops.push(Op::Opts(o));
                        let n = 4 + rng.below(3) as usize;
                        for _ in 0..n {
                            let i = *rng.pick(&with_word);
                            for k in &world.keys[i] {
                                ops.push(key_op(*k, none));
                            }
                        }
                        let picks = 2 + rng.below(2) as usize;
                        for c in 0..picks {
                            // the list opened with the cursor at the END of symbol 2c (the rule "cursor at the end selects
                            // the previous symbol" does not apply in the middle: position 2c + 1 selects symbol 2c + 1)
                            ops.push(key_op(Home, none));
                            for _ in 0..(2 * c).min(n - 1) {
                                ops.push(key_op(Right, none));
                            }
                            ops.push(key_op(Down, none));
                            ops.push(Op::Select(1 + rng.below(2) as usize));
                            ops.push(key_op(Esc, none));
                        }
                        ops.push(Op::Get(1));
                        ops.push(key_op(Home, none));
                        if rng.chance(1, 3) {
                            // glue, then a break, exactly at a boundary of a chosen symbol: the choice stays (C04-E)
                            for _ in 0..(1 + rng.below(4)) {
                                ops.push(key_op(Right, none));
                            }
                            ops.push(key_op(Tab, none));
                            ops.push(key_op(Tab, none));
                            ops.push(Op::Get(1));
                            ops.push(key_op(Home, none));
                        }
                        if rng.chance(1, 2) {
                            ops.push(key_op(Del, none));
                        } else {
                            ops.push(key_op(Right, none));
                            ops.push(key_op(Backspace, none));
                        }
                        ops.push(Op::Get(1));
                        ops.push(key_op(End, none));
                        for k in &world.keys[with_word[0]] {
                            ops.push(key_op(*k, none));
                        }
                        ops.push(Op::Get(1));
                    }
                }
                _ if !selecting && world.no_word.iter().any(|x| *x) && pick == 4 => {
                    // auto-commit pushes out a syllable that has no word at all: it is shown (and committed) by its
                    // spelling, several characters for ONE symbol - exactly one symbol leaves the buffer for it and the
                    // neighbours stay (seeded change C02-E)
                    let nw: Vec<usize> = (0..world.syls.len()).filter(|i| world.no_word[*i]).collect();
                    let mut o = opts_vec(&ed.editor_options());
                    let lim = 1 + rng.below(3) as u32;
                    o[6] = lim;
                    o[8] = 0;
                    o[11] = 0;
                    o[12] = 1 + rng.below(2) as u32;
                    ops.push(Op::Opts(o));
                    ops.push(Op::Engine(o[12] as u8));
                    // a syllable without any word cannot be typed ("no such word"): it gets a user word, is typed, and the
                    // user word is removed again - from then on it is shown by its spelling
                    let first = *rng.pick(&nw);
                    let text: String = cjk(rng).to_string();
                    ops.push(Op::Clear);
                    ops.push(Op::Learn(vec![world.syls[first]], text.clone()));
                    for k in &world.keys[first] {
                        ops.push(key_op(*k, none));
                    }
                    ops.push(Op::Unlearn(vec![world.syls[first]], text));
                    ops.push(Op::Get(1));
                    for _ in 0..(lim + 1 + rng.below(2) as u32) {
                        let i = rng.below(world.syls.len() as u64) as usize;
                        for k in &world.keys[i] {
                            ops.push(key_op(*k, none));
                        }
                    }
                    ops.push(Op::Get(1));
                    ops.push(key_op(Enter, none));
                }
                _ if !selecting && world.chain.is_some() && pick == 5 => {
                    // a user phrase added (Ctrl-digit, or Shift-arrows + Enter) over a range that ENDS INSIDE a converted
                    // two-syllable word; the buffer is committed, the same syllables are typed again and the alternatives
                    // cycled: whatever was stored has one character per syllable, so the new conversion still tiles
                    // (seeded change C03-F)
                    let ch = world.chain.unwrap();
                    let mut o = opts_vec(&ed.editor_options());
                    o[8] = 0;
                    o[10] = 0;
                    o[12] = 1;
                    ops.push(Op::Opts(o));
                    ops.push(Op::Engine(1));
                    for i in ch {
                        for k in &world.keys[i] {
                            ops.push(key_op(*k, none));
                        }
                    }
                    ops.push(key_op(Home, none));
                    if rng.chance(1, 2) {
                        ops.push(key_op(ALL_CODES[3], Modifiers { ctrl: true, ..none }));
                    } else {
                        for _ in 0..3 {
                            ops.push(key_op(Right, Modifiers { shift: true, ..none }));
                        }
                        ops.push(key_op(Enter, none));
                    }
                    ops.push(Op::Get(1));
                    ops.push(key_op(End, none));
                    ops.push(key_op(Enter, none));
                    for i in &ch[..3] {
                        for k in &world.keys[*i] {
                            ops.push(key_op(*k, none));
                        }
                    }
                    ops.push(Op::Get(1));
                    ops.push(key_op(Tab, none));
                    ops.push(Op::Get(1));
                    ops.push(key_op(Enter, none));
                }
                _ if !selecting && world.chain.is_some() && pick == 6 => {
                    // auto-shift after a choice made for ANOTHER range than the one the list was opened at: two
                    // two-syllable words, the cursor inside the second one (or at its start), the list opened, `j`
                    // moves the range to the first word, a candidate is chosen: the saved cursor comes back and moves
                    // on by ONE position, staying inside the buffer; the next key acts there (seeded change C05-F)
                    let ch = world.chain.unwrap();
                    let mut o = opts_vec(&ed.editor_options());
                    o[3] = 1;
                    o[4] = rng.below(4) as u32 / 3;
                    o[8] = 0;
                    o[12] = 1 + rng.below(2) as u32;
                    ops.push(Op::Opts(o));
                    ops.push(Op::Engine(o[12] as u8));
                    for i in ch {
                        for k in &world.keys[i] {
                            ops.push(key_op(*k, none));
                        }
                    }
                    for _ in 0..(1 + rng.below(2)) {
                        ops.push(key_op(Left, none));
                    }
                    ops.push(key_op(Down, none));
                    for _ in 0..(1 + rng.below(2)) {
                        ops.push(key_op(J, none));
                    }
                    ops.push(digit(rng));
                    ops.push(Op::Get(1));
                    ops.push(match rng.below(3) { 0 => key_op(Left, none), 1 => key_op(Del, none), _ => key_op(world.keys[ch[0]][0], none) });
                    for k in &world.keys[ch[1]] {
                        ops.push(key_op(*k, none));
                    }
                }
                _ if !selecting && pick == 7 => {
                    // a phrase list whose range is moved with j / k and that is left by a choice, Backspace or Up;
                    // afterwards symbols are inserted through the symbol table in the middle of the buffer (every
                    // saved cursor must have been dropped by then: seeded change C05-D), and one is removed again
                    for _ in 0..(2 + rng.below(3)) {
                        let i = rng.below(world.syls.len() as u64) as usize;
                        for k in &world.keys[i] {
                            ops.push(key_op(*k, none));
                        }
                    }
                    for _ in 0..rng.below(3) {
                        ops.push(key_op(Left, none));
                    }
                    ops.push(key_op(Down, none));
                    for _ in 0..(1 + rng.below(3)) {
                        ops.push(key_op(*rng.pick(&[J, K]), none));
                    }
                    ops.push(match rng.below(3) { 0 => digit(rng), 1 => key_op(Backspace, none), _ => key_op(Up, none) });
                    for _ in 0..rng.below(2) {
                        ops.push(key_op(*rng.pick(&[Left, Right, End]), none));
                    }
                    for _ in 0..(1 + rng.below(2)) {
                        ops.push(key_op(Grave, none));
                        ops.push(digit(rng));
                        ops.push(digit(rng));
                    }
                    if rng.chance(1, 2) {
                        ops.push(key_op(Backspace, none));
                    }
                }
                _ if !selecting && pick == 8 => {
                    // a break (or glue) set with Tab inside the buffer, then a choice for the range that starts
                    // exactly there, then more typing: the break must survive the choice (seeded change C04-B)
                    for _ in 0..(2 + rng.below(3)) {
                        let i = rng.below(world.syls.len() as u64) as usize;
                        for k in &world.keys[i] {
                            ops.push(key_op(*k, none));
                        }
                    }
                    for _ in 0..(1 + rng.below(3)) {
                        ops.push(key_op(Left, none));
                    }
                    ops.push(key_op(Tab, none));
                    if rng.chance(1, 3) {
                        ops.push(key_op(Tab, none));
                    }
                    ops.push(key_op(Down, none));
                    for _ in 0..rng.below(2) {
                        ops.push(key_op(Down, none));
                    }
                    ops.push(digit(rng));
                    ops.push(key_op(End, none));
                    let i = rng.below(world.syls.len() as u64) as usize;
                    for k in &world.keys[i] {
                        ops.push(key_op(*k, none));
                    }
                }
                _ if !selecting && world.chain.is_some() && pick == 9 => {
                    // alternatives, then commit: type a b c (d) of the chain (two or more segmentations), Tab at
                    // the end of the buffer shows the next alternative, then Enter / commit with learning on: what
                    // is committed (and learned) is what was displayed, whatever learning does to the ranking
                    let c = world.chain.unwrap();
                    let mut o = opts_vec(&ed.editor_options());
                    o[5] = if rng.chance(4, 5) { 0 } else { 1 };
                    o[6] = 39;
                    ops.push(Op::Opts(o));
                    for i in &c[..(3 + rng.below(2) as usize)] {
                        for k in &world.keys[*i] {
                            ops.push(key_op(*k, none));
                        }
                    }
                    ops.push(key_op(End, none));
                    for _ in 0..(1 + rng.below(3)) {
                        ops.push(key_op(Tab, none));
                    }
                    // ... sometimes a key that is refused (no character: bell in Chinese mode, ignored in English
                    // full-width mode) while the alternative is on screen: it must leave the pre-edit text alone
                    // (seeded change C06-C)
                    if rng.chance(1, 2) {
                        if rng.chance(1, 3) {
                            let mut o2 = opts_vec(&ed.editor_options());
                            o2[5] = o[5];
                            o2[6] = 39;
                            o2[8] = 1;
                            o2[9] = 1;
                            ops.push(Op::Opts(o2));
                        }
                        for _ in 0..(1 + rng.below(2)) {
                            ops.push(Op::Key { idx_of: 0, code: 0, uni: 0xfffd, shift: false, ctrl: false, caps: false, num: false });
                        }
                    }
                    ops.push(if rng.chance(2, 3) { key_op(Enter, none) } else { Op::Commit });
                }
                _ if !selecting && (setup.layout == 1 || setup.layout == 5) && pick == 10 => {
                    // Hsu / ET26: a one-syllable list (own words + the words of the alternative readings) at one or two
                    // per page, paged to its end, then the layout is switched to one without alternates
                    let mut o = opts_vec(&ed.editor_options());
                    o[7] = 1 + rng.below(2) as u32;
                    ops.push(Op::Opts(o));
                    ops.push(Op::Clear);
                    let i = rng.below(world.syls.len() as u64) as usize;
                    for k in &world.keys[i] {
                        ops.push(key_op(*k, none));
                    }
                    ops.push(key_op(Down, none));
                    for _ in 0..(2 + rng.below(8)) {
                        ops.push(key_op(Right, none));
                    }
                    ops.push(Op::Layout(*rng.pick(&[0u8, 2, 6])));
                    ops.push(key_op(*rng.pick(&[N1, N2, Right, Left]), none));
                }
                _ if !selecting && pick == 11 => {
                    // Caps Lock / Shift-Space in the highlighting state (Shift-Left / Shift-Right over a non-empty
                    // buffer), then a printable key: the mode toggles there too (seeded change C18-C)
                    for _ in 0..(2 + rng.below(2)) {
                        let i = rng.below(world.syls.len() as u64) as usize;
                        for k in &world.keys[i] {
                            ops.push(key_op(*k, none));
                        }
                    }
                    for _ in 0..(1 + rng.below(2)) {
                        ops.push(key_op(*rng.pick(&[Left, Right, Left]), Modifiers { shift: true, ..none }));
                    }
                    if rng.chance(3, 4) {
                        ops.push(Op::Key { idx_of: 0, code: 0, uni: 0xfffd, shift: false, ctrl: false, caps: true, num: false });
                    } else {
                        ops.push(key_op(Space, Modifiers { shift: true, ..none }));
                    }
                    ops.push(key_op(*rng.pick(&[A, N1, Comma, Z]), none));
                    ops.push(key_op(*rng.pick(&[Enter, Esc, A]), none));
                }
                _ if !selecting && pick == 12 => {
                    // a one-syllable choice whose word then leaves the dictionary (learn, type, choose it, unlearn):
                    // the choice stays on screen and is committed (seeded change C04-C)
                    let i = rng.below(world.syls.len() as u64) as usize;
                    let text = cjk(rng).to_string();
                    ops.push(Op::Learn(vec![world.syls[i]], text.clone()));
                    for k in &world.keys[i] {
                        ops.push(key_op(*k, none));
                    }
                    ops.push(key_op(Down, none));
                    let n = setup.sys.iter().chain(setup.usr.iter()).filter(|e| e.key.len() == 1 && e.key[0] == world.syls[i]).count();
                    ops.push(Op::Select(rng.below(n as u64 + 1) as usize));
                    ops.push(Op::Unlearn(vec![world.syls[i]], text));
                    let j = rng.below(world.syls.len() as u64) as usize;
                    for k in &world.keys[j] {
                        ops.push(key_op(*k, none));
                    }
                    ops.push(key_op(*rng.pick(&[Enter, Tab, Left]), none));
                }
                _ if !selecting && pick == 13 => {
                    // a list opened with a single key, the user dictionary changed for exactly the highlighted
                    // syllable before any other key, then a choice near the end of the list: the never-queried
                    // twin must see the same list as the observed editor (seeded change C17-C)
                    let i = rng.below(world.syls.len() as u64) as usize;
                    ops.push(Op::Clear);
                    for k in &world.keys[i] {
                        ops.push(key_op(*k, none));
                    }
                    ops.push(key_op(Down, none));
                    let words: Vec<String> = setup.sys.iter().chain(setup.usr.iter()).filter(|e| e.key.len() == 1 && e.key[0] == world.syls[i]).map(|e| e.text.clone()).collect();
                    if !words.is_empty() && rng.chance(1, 2) {
                        ops.push(Op::Unlearn(vec![world.syls[i]], rng.pick(&words).clone()));
                    } else {
                        ops.push(Op::Learn(vec![world.syls[i]], cjk(rng).to_string()));
                    }
                    let n = words.len();
                    ops.push(Op::Select(match rng.below(3) { 0 => n, 1 => n.saturating_sub(1), _ => rng.below(n as u64 + 2) as usize }));
                }
                _ if !selecting && pick == 15 => {
                    // the symbol table opened on an EMPTY buffer, turned to a later page, then `j` / `k`: with nothing in the
                    // buffer these keys are refused - and a refused key leaves the page where it is (seeded change C06-D)
                    let mut o = opts_vec(&ed.editor_options());
                    o[7] = 2 + rng.below(2) as u32;
                    o[8] = 0;
                    ops.push(Op::Clear);
                    ops.push(Op::Opts(o));
                    ops.push(key_op(Grave, none));
                    for _ in 0..(1 + rng.below(2)) {
                        ops.push(key_op(*rng.pick(&[Right, PageDown, Space]), none));
                    }
                    ops.push(Op::Get(1));
                    ops.push(key_op(*rng.pick(&[J, K]), none));
                    ops.push(Op::Get(1));
                    if rng.chance(1, 2) {
                        ops.push(digit(rng));
                        ops.push(key_op(*rng.pick(&[Right, PageDown]), none));
                        ops.push(key_op(*rng.pick(&[J, K]), none));
                        ops.push(Op::Get(1));
                    }
                    ops.push(key_op(Esc, none));
                }
                _ if !selecting && pick == 14 => {
                    // a long phrase (12..14 syllables) in the user dictionary, typed, chosen as a whole at the start
                    // of the buffer, then edited further (seeded change C03-C: an edge longer than 11 symbols)
                    let n = 12 + rng.below(3) as usize;
                    let key: Vec<Syllable> = (0..n).map(|_| world.syls[rng.below(world.syls.len() as u64) as usize]).collect();
                    let text: String = (0..n).map(|_| cjk(rng)).collect();
                    let mut o = opts_vec(&ed.editor_options());
                    o[6] = 39;
                    ops.push(Op::Opts(o));
                    ops.push(Op::Clear);
                    ops.push(Op::Learn(key.clone(), text));
                    for s in &key {
                        let i = world.syls.iter().position(|x| x == s).unwrap();
                        for k in &world.keys[i] {
                            ops.push(key_op(*k, none));
                        }
                    }
                    ops.push(key_op(Home, none));
                    ops.push(key_op(Down, none));
                    ops.push(if rng.chance(3, 4) { Op::Select(0) } else { digit(rng) });
                    ops.push(key_op(End, none));
                    ops.push(key_op(*rng.pick(&[Tab, Enter, Left]), none));
                }
                0 if world.chain.is_some() => {
                    // overlapping choices: type a b c d, choose at 0, at 2, then at 1
                    let c = world.chain.unwrap();
                    for i in c {
                        for k in &world.keys[i] {
                            ops.push(key_op(*k, none));
                        }
                    }
                    for pos in [0usize, 2, 1] {
                        // the chain is the tail of the buffer: count back from the end
                        ops.push(key_op(End, none));
                        for _ in 0..(4 - pos) {
                            ops.push(key_op(Left, none));
                        }
                        ops.push(key_op(Down, none));
                        for _ in 0..rng.below(3) {
                            ops.push(key_op(Down, none));
                        }
                        if rng.chance(4, 5) { ops.push(digit(rng)) } else { ops.push(Op::Select(rng.below(3) as usize)) }
                    }
                }
                0 | 1 if !rng.chance(1, 3) => {
                    let i = rng.below(world.syls.len() as u64) as usize;
                    for k in &world.keys[i] {
                        ops.push(key_op(*k, none));
                    }
                }
                0 | 1 => {
                    // reset (possibly while a list is open), shorter buffer, then a list is opened and
                    // cancelled / a symbol is picked from the symbol menu
                    if rng.chance(1, 2) {
                        ops.push(key_op(Down, none));
                    }
                    ops.push(Op::Clear);
                    for _ in 0..(1 + rng.below(2)) {
                        let i = rng.below(world.syls.len() as u64) as usize;
                        for k in &world.keys[i] {
                            ops.push(key_op(*k, none));
                        }
                    }
                    match rng.below(3) {
                        0 => { ops.push(key_op(Down, none)); ops.push(key_op(Esc, none)); }
                        1 => { ops.push(key_op(Grave, none)); ops.push(digit(rng)); ops.push(digit(rng)); }
                        _ => { ops.push(key_op(Down, none)); ops.push(digit(rng)); }
                    }
                }
                2 => {
                    // page forward, then the page size changes while the list is open
                    for _ in 0..(1 + rng.below(6)) {
                        ops.push(key_op(*rng.pick(&[Right, PageDown, Space]), none));
                    }
                    let mut o = opts_vec(&ed.editor_options());
                    o[7] = 1 + rng.below(10) as u32;
                    ops.push(Op::Opts(o));
                    // ... or the layout (its alternative readings lengthen / shorten a one-syllable list: fix b605e90)
                    if rng.chance(1, 2) {
                        ops.push(Op::Layout(*rng.pick(&[0u8, 1, 5, 6])));
                    }
                }
                _ => {
                    // the user dictionary changes under an open phrase list (a candidate is removed /
                    // a new one is added), possibly on a later page
                    let snap = ed.verif_snapshot();
                    let get = |k: &str| snap.split_whitespace().find_map(|f| f.strip_prefix(k).map(|v| v.to_string()));
                    let cands = ed.all_candidates().unwrap_or_default();
                    if let (Some(b), Some(e), false) = (get("begin=").and_then(|v| v.parse::<usize>().ok()), get("end=").and_then(|v| v.parse::<usize>().ok()), cands.is_empty()) {
                        let key: Vec<Syllable> = ed.symbols().iter().skip(b).take(e.saturating_sub(b)).filter_map(|s| s.to_syllable()).collect();
                        if key.len() == e.saturating_sub(b) && !key.is_empty() {
                            for _ in 0..rng.below(4) {
                                ops.push(key_op(Right, none));
                            }
                            for _ in 0..(1 + rng.below(2)) {
                                if rng.chance(2, 3) {
                                    ops.push(Op::Unlearn(key.clone(), cands[rng.below(cands.len() as u64) as usize].clone()));
                                } else {
                                    ops.push(Op::Learn(key.clone(), (0..key.len()).map(|_| cjk(rng)).collect()));
                                }
                            }
                            // ... and a choice right afterwards, at the end of the list as it was / as it is now
                            // (seeded change C17-C: a list remembered by a query outlives the dictionary change)
                            if rng.chance(2, 3) {
                                ops.push(Op::Select(match rng.below(3) { 0 => cands.len(), 1 => cands.len() - 1, _ => rng.below(cands.len() as u64 + 1) as usize }));
                            }
                            pool.push((key.clone(), cands[0].clone()));
                        }
                    }
                    if ops.is_empty() {
                        ops.push(key_op(Right, none));
                    }
                }
            }
        } else if selecting && r < 55 {
            // candidate-list operations
            let total = ed.all_candidates().map(|c| c.len()).unwrap_or(0);
            let pick = rng.below(12);
            match pick {
                0..=3 => {
                    let d = 1 + rng.below(10) as u8;
                    ops.push(key_op(ALL_CODES[d as usize], none));
                }
                4 => ops.push(Op::Select(if total > 0 && rng.chance(4, 5) { rng.below(total as u64) as usize } else { rng.below(40) as usize })),
                5 => ops.push(key_op(*rng.pick(&[Down, Space, Left, Right, PageUp, PageDown]), none)),
                6 => ops.push(key_op(*rng.pick(&[J, K]), none)),
                7 => ops.push(rng.pick(&[Op::JNext, Op::JPrev, Op::JFirst, Op::JLast]).clone()),
                8 => ops.push(key_op(*rng.pick(&[Esc, Up, Backspace, Del]), none)),
                9 => ops.push(Op::Cancel),
                10 => ops.push(key_op(Down, none)),
                _ => ops.push(key_op(*rng.pick(&[Space, Right]), none)),
            }
        } else if r < 45 {
            // type a syllable of the world
            let i = rng.below(world.syls.len() as u64) as usize;
            for k in &world.keys[i] {
                ops.push(key_op(*k, none));
            }
            let _ = world.no_word[i];
        } else if r < 52 {
            // random printable key (any modifier)
            let code = ALL_CODES[1 + rng.below(48) as usize];
            let mods = Modifiers { shift: rng.chance(1, 4), ctrl: rng.chance(1, 10), capslock: rng.chance(1, 12), numlock: rng.chance(1, 12) };
            ops.push(key_op(code, mods));
        } else if r < 62 {
            ops.push(key_op(*rng.pick(&[Left, Right, Home, End, Left, Right, PageUp, PageDown, Up]), none));
        } else if r < 68 {
            ops.push(key_op(*rng.pick(&[Backspace, Del, Backspace]), none));
        } else if r < 72 {
            ops.push(key_op(Tab, none));
        } else if r < 79 {
            ops.push(key_op(Down, none));
        } else if r < 82 {
            ops.push(key_op(Enter, none));
        } else if r < 84 {
            ops.push(key_op(Esc, none));
        } else if r < 86 {
            let m = Modifiers { shift: true, ..none };
            let steps = 1 + rng.below(3);
            let dir = *rng.pick(&[Left, Right]);
            for _ in 0..steps {
                ops.push(key_op(dir, m));
            }
            ops.push(key_op(Enter, none));
        } else if r < 88 {
            let m = Modifiers { ctrl: true, ..none };
            ops.push(key_op(ALL_CODES[rng.below(11) as usize], m));
        } else if r < 90 {
            // caps-lock toggle / shift-space
            if rng.chance(1, 2) {
                ops.push(Op::Key { idx_of: 0, code: 0, uni: 0xfffd, shift: false, ctrl: false, caps: true, num: false });
            } else {
                ops.push(key_op(Space, Modifiers { shift: true, ..none }));
            }
        } else if r < 92 {
            ops.push(key_op(*rng.pick(&[Grave, LBracket, Comma, Quote, Slash, Minus]), Modifiers { shift: rng.chance(1, 2), ..none }));
        } else if r < 95 {
            let mut o = opts_vec(&ed.editor_options());
            match rng.below(8) {
                0 => o[6] = *rng.pick(&[0u32, 1, 2, 3, 5, 8, 12, 20, 39]),
                1 => o[7] = 1 + rng.below(10) as u32,
                2 => o[8] = 1 - o[8],
                3 => o[9] = 1 - o[9],
                4 => o[11] = 1 - o[11],
                5 => o[12] = rng.below(3) as u32,
                _ => {
                    let i = *rng.pick(&[0usize, 1, 2, 3, 4, 5, 10, 13]);
                    o[i] = 1 - o[i];
                }
            }
            ops.push(Op::Opts(o));
        } else if r < 96 {
            let k = rng.below(3) as u8;
            ops.push(Op::Engine(k));
            let mut o = opts_vec(&ed.editor_options());
            o[12] = k as u32;
            o[11] = (k == 2) as u32;
            ops.push(Op::Opts(o));
        } else if r < 97 && rng.chance(1, 3) {
            // the phonetic layout is switched at any moment (chewing_set_KBType)
            ops.push(Op::Layout(if rng.chance(1, 3) { setup.layout } else { rng.below(10) as u8 }));
        } else if r < 97 {
            ops.push(rng.pick(&[Op::Start, Op::Commit, Op::Clear, Op::Ack, Op::ClearSyl, Op::Cancel, Op::Select(0)]).clone());
        } else if r < 99 {
            // learn / unlearn, often on a phrase used before (remove -> re-add, update of a removed phrase)
            let (key, text) = if !pool.is_empty() && rng.chance(3, 5) {
                pool[rng.below(pool.len() as u64) as usize].clone()
            } else {
                let len = 1 + rng.below(3) as usize;
                let key: Vec<Syllable> = (0..len).map(|_| world.syls[rng.below(world.syls.len() as u64) as usize]).collect();
                let text: String = (0..len).map(|_| cjk(rng)).collect();
                pool.push((key.clone(), text.clone()));
                (key, text)
            };
            ops.push(if rng.chance(3, 5) { Op::Learn(key, text) } else { Op::Unlearn(key, text) });
        } else {
            // inconsistent / arbitrary event
            ops.push(Op::Key {
                idx_of: rng.below(63) as u8,
                code: rng.below(63) as u8,
                uni: *rng.pick(&[0xfffdu32, 0x20, 0x41, 0x7e, 0x3000, 0x61, 0x31]),
                shift: rng.chance(1, 3),
                ctrl: rng.chance(1, 6),
                caps: rng.chance(1, 6),
                num: rng.chance(1, 6),
            });
        }
        let cur_opts = opts_vec(&ed.editor_options());
        let mut ops: Vec<Op> = if capi { ops.into_iter().flat_map(|o| to_c_op(o, rng, &cur_opts)).collect() } else { ops };
        if capi && rng.chance(1, 8) {
            // context calls at any moment: keyboard type by number (valid and not), selection keys, list open / close
            let extra = match rng.below(6) {
                0 | 1 => Op::KbType(rng.below(17) as i32),
                2 => Op::KbType(*rng.pick(&[-1, 17, 200, 255, 256, 1000])),
                3 => to_c_op(Op::Ack, rng, &cur_opts).remove(0),
                4 => Op::COpen,
                _ => Op::CClose,
            };
            let at = rng.below(ops.len() as u64 + 1) as usize;
            ops.insert(at, extra);
        }
        for op in ops {
            stats.ops += 1;
            *stats.kinds.entry(op_line(&op).split_whitespace().next().unwrap().to_string()).or_insert(0) += 1;
            if !step(&mut ed, &op, out) {
                stats.panics += 1;
                return;
            }
            let snap = ed.verif_snapshot();
            states_seen.insert(snap.split_whitespace().next().unwrap_or("").to_string());
            let syms = snap.split_whitespace().find(|f| f.starts_with("syms=")).unwrap_or("").to_string();
            if syms != last_syms {
                changes += 1;
                last_syms = syms;
            }
            stats.max_len = stats.max_len.max(ed.len());
        }
    }
    if sparse {
        // the final state of a sparsely observed case is always looked at
        stats.ops += 1;
        if !step(&mut ed, &Op::Get(1), out) {
            stats.panics += 1;
            return;
        }
    }
    if states_seen.len() >= 2 && changes >= 2 {
        stats.nontrivial += 1;
    }
    for s in states_seen {
        *stats.states.entry(s).or_insert(0) += 1;
    }
}

const N_SCENARIOS: u64 = 16;

#[derive(Default)]
struct Stats {
    ops: usize,
    panics: usize,
    nontrivial: usize,
    max_len: usize,
    kinds: std::collections::BTreeMap<String, usize>,
    states: std::collections::BTreeMap<String, usize>,
}

fn generate(tier: &str, out_path: &str) -> i32 {
    let seed = vharness::util::seed_from_env();
    let cases = std::env::var("VERIF_ED_CASES").ok().and_then(|s| s.parse().ok()).unwrap_or(if tier == "thorough" { 3000 } else { 300 });
    let scratch = std::env::temp_dir().join(format!("vharness-ed-{}", std::process::id()));
    std::fs::create_dir_all(&scratch).unwrap();
    let f = std::fs::File::create(out_path).unwrap();
    let mut w = std::io::BufWriter::new(f);
    let mut stats = Stats::default();
    for n in 0..cases {
        let mut rng = Rng::new(seed.wrapping_mul(1_000_003).wrapping_add(n as u64));
        let mut out = String::new();
        gen_case(&mut rng, n, tier, &scratch, &mut out, &mut stats);
        w.write_all(out.as_bytes()).unwrap();
    }
    w.flush().unwrap();
    let _ = std::fs::remove_dir_all(&scratch);
    let kinds = stats.kinds.iter().map(|(k, v)| format!("\"{}\":{}", k, v)).collect::<Vec<_>>().join(",");
    let states = stats.states.iter().map(|(k, v)| format!("\"{}\":{}", k, v)).collect::<Vec<_>>().join(",");
    println!(
        "{{\"cases\":{},\"ops\":{},\"impl_panics\":{},\"nontrivial_cases\":{},\"max_buffer_len\":{},\"op_kinds\":{{{}}},\"cases_visiting_state\":{{{}}}}}",
        cases, stats.ops, stats.panics, stats.nontrivial, stats.max_len, kinds, states
    );
    0
}

/// case file: the CASE/SYS/USR/ABBR/SYMSEL/INIT/OP lines of a trace (other lines ignored)
fn run(case_file: &str, out_path: &str) -> i32 {
    let text = std::fs::read_to_string(case_file).unwrap();
    let scratch = std::env::temp_dir().join(format!("vharness-ed-{}", std::process::id()));
    std::fs::create_dir_all(&scratch).unwrap();
    let mut out = String::new();
    let mut setup: Option<CaseSetup> = None;
    let mut ed: Option<Holder> = None;
    let mut n = 0usize;
    let mut dead = false;
    let mut sparse = false;
    for line in text.lines() {
        let (tag, rest) = line.split_once(' ').unwrap_or((line, ""));
        match tag {
            "CASE" => {
                n = rest.trim().parse().unwrap_or(0);
                setup = Some(CaseSetup { sys: vec![], usr: vec![], abbr: vec![], symsel: vec![], lifetime: 0, layout: 0, capi: false, capi_mode: 0 });
                ed = None;
                dead = false;
                sparse = false;
            }
            "SYS" | "USR" => {
                let f: Vec<&str> = rest.split('|').collect();
                let e = Entry { key: key_from(f[0]), text: from_cps(f[1]), freq: f[2].parse().unwrap(), time: f.get(3).map_or(0, |x| x.parse().unwrap()) };
                let s = setup.as_mut().unwrap();
                if tag == "SYS" { s.sys.push(e) } else { s.usr.push(e) }
            }
            "ABBR" => {
                let (c, e) = rest.split_once('|').unwrap();
                setup.as_mut().unwrap().abbr.push((char::from_u32(c.parse().unwrap()).unwrap(), from_cps(e)));
            }
            "SYMSEL" => {
                let s = setup.as_mut().unwrap();
                match rest.split_once('=') {
                    Some((a, b)) => s.symsel.push((from_cps(a), Some(from_cps(b)))),
                    None => s.symsel.push((from_cps(rest), None)),
                }
            }
            "MODE" => sparse = rest.trim() == "sparse",
            "LAYOUT" => setup.as_mut().unwrap().layout = rest.trim().parse().unwrap(),
            "CAPI" => {
                let s = setup.as_mut().unwrap();
                s.capi = true;
                s.capi_mode = rest.trim().parse().unwrap_or(0);
            }
            "INIT" => {
                let s = setup.as_mut().unwrap();
                s.lifetime = rest.trim().parse().unwrap();
                if s.capi {
                    // the listing in the file's own order, whatever order the case file gives
                    s.sys = trie_order(&s.sys, &scratch, s.capi_mode);
                }
                begin_case(s, sparse);
                write_setup(n, s, &mut out);
                ed = None;
                ed = Some(build_holder(s, &scratch));
            }
            "OP" => {
                if dead {
                    continue;
                }
                let op = parse_op(rest);
                if !step(ed.as_mut().unwrap().ed(), &op, &mut out) {
                    dead = true;
                }
            }
            _ => {}
        }
    }
    std::fs::write(out_path, out).unwrap();
    let _ = std::fs::remove_dir_all(&scratch);
    0
}

/// C03: ConversionEngine::convert called directly on compositions built with the public
/// Composition operations (symbols, breaks, glue, selections), all three engines, every alternative
fn conv_cases(tier: &str, out_path: &str) -> i32 {
    use chewing::conversion::{Composition, ConversionEngine, Gap, Interval, Symbol};
    let seed = vharness::util::seed_from_env();
    let cases = if tier == "thorough" { 4000 } else { 400 };
    let f = std::fs::File::create(out_path).unwrap();
    let mut w = std::io::BufWriter::new(f);
    let mut alts = 0usize;
    let mut maxlen = 0usize;
    let mut nontrivial = 0usize;
    for n in 0..cases {
        let mut rng = Rng::new(seed.wrapping_mul(7_000_003).wrapping_add(n as u64));
        let (mut setup, world) = gen_setup(&mut rng);
        // every syllable has a word here (the property's dictionary hypothesis)
        for (i, s) in world.syls.iter().enumerate() {
            if world.no_word[i] {
                setup.sys.push(Entry { key: vec![*s], text: cjk(&mut rng).to_string(), freq: rng.below(100) as u32, time: 0 });
            }
        }
        // every second case: a dense graph - two or three syllables, many overlapping phrases of 2..4 of them,
        // so that the buffer has many paths (alternatives, trimming, ranking); sometimes with frequencies that
        // do not fit in i32 (the score saturates since fix 2d722b2)
        let dense = n % 2 == 1;
        let alphabet = if dense { 2 + rng.below(2) as usize } else { world.syls.len() };
        if dense {
            let huge = rng.chance(1, 6);
            for _ in 0..(6 + rng.below(10)) {
                let len = 2 + rng.below(3) as usize;
                let key: Vec<Syllable> = (0..len).map(|_| world.syls[rng.below(alphabet as u64) as usize]).collect();
                let text: String = (0..len).map(|_| cjk(&mut rng)).collect();
                let freq = if huge && rng.chance(1, 2) { 2_000_000_000u32 + rng.below(2_294_967_295) as u32 } else { rng.below(5000) as u32 };
                if !setup.sys.iter().any(|e| e.key == key && e.text == text) {
                    setup.sys.push(Entry { key, text, freq, time: 0 });
                }
            }
        }
        let mut out = String::new();
        write_setup(n, &setup, &mut out);
        let mut sys = TrieBuf::new_in_memory();
        for e in &setup.sys {
            let _ = sys.as_dict_mut().unwrap().add_phrase(&e.key, Phrase::new(e.text.as_str(), e.freq));
        }
        let mut usr = TrieBuf::new_in_memory();
        for e in &setup.usr {
            let _ = usr.as_dict_mut().unwrap().update_phrase(&e.key, Phrase::new(e.text.as_str(), e.freq), e.freq, e.time);
        }
        let dict = Layered::new(vec![Box::new(sys)], Box::new(usr));
        // every eighth case: a choice of 12 symbols or more (a learned run of words picked as a whole)
        let long_choice = n % 8 == 3;
        let len = if long_choice { 12 + rng.below(9) as usize } else { 1 + rng.below(if tier == "thorough" { 30 } else if dense { 18 } else { 14 }) as usize };
        let mut comp = Composition::new();
        for _ in 0..len {
            if !long_choice && rng.chance(1, if dense { 12 } else { 7 }) {
                comp.push(Symbol::from(*rng.pick(&['a', '，', '1', 'Z', '。'])));
            } else {
                comp.push(Symbol::from(world.syls[rng.below(alphabet as u64) as usize]));
            }
        }
        for _ in 0..rng.below(4) {
            let i = rng.below(len as u64) as usize;
            comp.set_gap(i, if rng.chance(1, 2) { Gap::Break } else { Gap::Glue });
        }
        // selections: dictionary phrases for random all-syllable ranges (what the editor would record)
        let mut nsel = 0;
        for _ in 0..rng.below(5) {
            let b = rng.below(len as u64) as usize;
            let e = (b + 1 + rng.below(3) as usize).min(len);
            let rng_syms = &comp.symbols()[b..e];
            if rng_syms.iter().any(|s| s.is_char()) {
                continue;
            }
            let syls: Vec<Syllable> = rng_syms.iter().map(|s| s.to_syllable().unwrap()).collect();
            let cands = dict.lookup_all_phrases(&syls, LookupStrategy::Standard);
            if cands.is_empty() {
                continue;
            }
            let ph = rng.pick(&cands).clone();
            comp.push_selection(Interval { start: b, end: e, is_phrase: true, str: ph.as_str().into() });
            nsel += 1;
        }
        // a one-symbol choice whose text the dictionary does not hold under that syllable (an alternate reading's word,
        // a user word removed after it was chosen): the forced choice wins over the spelled fallback
        if rng.chance(1, 5) {
            let b = rng.below(len as u64) as usize;
            if !comp.symbols()[b].is_char() {
                comp.push_selection(Interval { start: b, end: b + 1, is_phrase: true, str: cjk(&mut rng).to_string().into() });
                nsel += 1;
            }
        }
        // a long choice (what the editor records when a learned run of words is picked): any all-syllable range
        // of 5 symbols or more, with a text of that many characters
        if (long_choice || rng.chance(1, 4)) && len >= 5 {
            let min = if long_choice { 12 } else { 5 };
            let b = rng.below((len - min + 1) as u64) as usize;
            let e = b + min + rng.below((len - b - min + 1) as u64) as usize;
            if !comp.symbols()[b..e].iter().any(|s| s.is_char()) {
                let text: String = (0..(e - b)).map(|_| cjk(&mut rng)).collect();
                comp.push_selection(Interval { start: b, end: e, is_phrase: true, str: text.into() });
                nsel += 1;
            }
        }
        for _ in 0..rng.below(3) {
            let i = rng.below(len as u64) as usize;
            comp.set_gap(i, if rng.chance(1, 2) { Gap::Break } else { Gap::Glue });
        }
        maxlen = maxlen.max(len);
        if nsel > 0 {
            nontrivial += 1;
        }
        let syms = comp.symbols().iter().map(|s| match s {
            Symbol::Syllable(x) => format!("S{}", x.to_u16()),
            Symbol::Char(c) => format!("C{}", *c as u32),
        }).collect::<Vec<_>>().join(",");
        let gaps = (0..comp.len()).map(|i| match comp.gap(i) {
            Some(Gap::Begin) => "B",
            Some(Gap::Break) => "K",
            Some(Gap::Glue) => "G",
            _ => "N",
        }).collect::<Vec<_>>().join(",");
        let mut sels = comp.selections().to_vec();
        sels.sort();
        let ivstr = |ivs: &[Interval]| ivs.iter().map(|iv| format!("{}-{}:{}:{}", iv.start, iv.end, if iv.is_phrase { 'P' } else { 'N' }, cps(&iv.str))).collect::<Vec<_>>().join(",");
        let _ = writeln!(out, "COMP syms={} gaps={} sels={}", syms, gaps, ivstr(&sels));
        let engines: [(u8, Box<dyn ConversionEngine>); 3] =
            [(0, Box::new(SimpleEngine::new())), (1, Box::new(ChewingEngine::new())), (2, Box::new(FuzzyChewingEngine::new()))];
        for (k, eng) in engines.iter() {
            let r = catch(AssertUnwindSafe(|| eng.convert(&dict, &comp).take(100).collect::<Vec<_>>()));
            match r {
                Ok(paths) => {
                    for p in paths {
                        alts += 1;
                        let _ = writeln!(out, "ALT {} {}", k, ivstr(&p));
                    }
                }
                Err(m) => {
                    let _ = writeln!(out, "ALT {} PANIC {}", k, m.replace('\n', " "));
                }
            }
        }
        w.write_all(out.as_bytes()).unwrap();
    }
    w.flush().unwrap();
    println!("{{\"cases\":{},\"ops\":{},\"nontrivial_cases\":{},\"max_buffer_len\":{}}}", cases, alts, nontrivial, maxlen);
    0
}

/// C18: every printable ASCII character x both forms x both language modes x
/// {empty buffer, every cursor position of a 3-symbol buffer}, on the Qwerty keyboard
fn sweep_c18(out_path: &str) -> i32 {
    let scratch = std::env::temp_dir().join(format!("vharness-ed-{}", std::process::id()));
    std::fs::create_dir_all(&scratch).unwrap();
    let f = std::fs::File::create(out_path).unwrap();
    let mut w = std::io::BufWriter::new(f);
    let mut rng = Rng::new(7);
    let (s1, k1) = random_syllable(&mut rng);
    let setup = CaseSetup {
        sys: vec![Entry { key: vec![s1], text: "中".to_string(), freq: 10, time: 0 }],
        usr: vec![],
        abbr: vec![],
        symsel: vec![],
        lifetime: 0,
        layout: 0,
        capi: false,
        capi_mode: 0,
    };
    let none = Modifiers::default();
    let mut n = 0usize;
    let mut ops_total = 0usize;
    for ch in 32u8..127 {
        for form in 0..2u32 {
            for english in 0..2u32 {
                for cursor in 0..5usize {
                    // cursor 4 = empty buffer; 0..=3 = positions in a 3-symbol buffer
                    let mut out = String::new();
                    write_setup(n, &setup, &mut out);
                    n += 1;
                    let mut ed = build_editor(&setup, &scratch);
                    let mut ops: Vec<Op> = vec![];
                    if cursor < 4 {
                        for _ in 0..3 {
                            for k in &k1 {
                                ops.push(key_op(*k, none));
                            }
                        }
                        ops.push(key_op(Home, none));
                        for _ in 0..cursor {
                            ops.push(key_op(Right, none));
                        }
                    }
                    let mut o = opts_vec(&ed.editor_options());
                    o[8] = english;
                    o[9] = form;
                    ops.push(Op::Opts(o));
                    let ev = Qwerty.map_ascii(ch);
                    ops.push(Op::Key {
                        idx_of: ev.code as u8,
                        code: ev.code as u8,
                        uni: ev.unicode as u32,
                        shift: ev.modifiers.shift,
                        ctrl: ev.modifiers.ctrl,
                        caps: ev.modifiers.capslock,
                        num: ev.modifiers.numlock,
                    });
                    // toggles afterwards: caps lock, shift-space
                    ops.push(Op::Key { idx_of: 0, code: 0, uni: 0xfffd, shift: false, ctrl: false, caps: true, num: false });
                    ops.push(key_op(Space, Modifiers { shift: true, ..none }));
                    for op in ops {
                        ops_total += 1;
                        if !step(&mut ed, &op, &mut out) {
                            break;
                        }
                    }
                    w.write_all(out.as_bytes()).unwrap();
                }
            }
        }
    }
    w.flush().unwrap();
    let _ = std::fs::remove_dir_all(&scratch);
    println!("{{\"cases\":{},\"ops\":{},\"nontrivial_cases\":{},\"exhaustive\":true}}", n, ops_total, n);
    0
}

fn main() {
    let args: Vec<String> = std::env::args().skip(1).collect();
    let code = match args.first().map(|s| s.as_str()) {
        Some("gen") => generate(&args[1], &args[2]),
        Some("run") => run(&args[1], &args[2]),
        Some("c18") => sweep_c18(&args[1]),
        Some("conv") => conv_cases(&args[1], &args[2]),
        _ => {
            eprintln!("usage: ed gen <tier> <out> | ed run <cases> <out>");
            2
        }
    };
    std::process::exit(code);
}
