//! C13: syllable <-> code <-> components <-> spelling.
//!   c13 views  <quick|thorough> <out>   implementation side of the views
//!   c13 oracle <quick|thorough> <out.json>  property oracles on the implementation
//!   c13 replay <string-of-scalars "12549,713">  parse/spell one string
use vharness::util::{catch, json_str};
use chewing::zhuyin::{Bopomofo, Syllable, SyllableErrorKind};
use std::collections::HashMap;
use std::io::{BufWriter, Write};

use Bopomofo::*;
pub const ALL: [Bopomofo; 42] = [
    B, P, M, F, D, T, N, L, G, K, H, J, Q, X, ZH, CH, SH, R, Z, C, S, I, U, IU, A, O, E, EH, AI, EI, AU, OU, AN,
    EN, ANG, ENG, ER, TONE5, TONE2, TONE3, TONE4, TONE1,
];

fn enc(o: Option<Bopomofo>) -> u32 {
    match o {
        None => 0,
        Some(b) => b as u32 + 1,
    }
}

fn digits(len: u32, base: u64, mut idx: u64) -> Vec<u64> {
    let mut v = vec![];
    for _ in 0..len {
        v.push(idx % base);
        idx /= base;
    }
    v
}

fn digit_char(d: u64) -> char {
    if (d as usize) < ALL.len() { char::from(ALL[d as usize]) } else { 'a' }
}

fn err_code(k: &SyllableErrorKind) -> u32 {
    match k {
        SyllableErrorKind::MultipleInitials => 0,
        SyllableErrorKind::MultipleMedials => 1,
        SyllableErrorKind::MultipleRimes => 2,
        SyllableErrorKind::MultipleTones => 3,
        SyllableErrorKind::IncorrectOrder => 4,
        SyllableErrorKind::InvalidBopomofo => 5,
        _ => 9,
    }
}

/// a code is composable iff rebuilding it from its own components gives it back
pub fn composable(v: u16) -> bool {
    let Ok(s) = Syllable::try_from(v) else { return false };
    let mut b = Syllable::builder();
    for c in [s.initial(), s.medial(), s.rime(), s.tone()].into_iter().flatten() {
        b = match b.insert(c) {
            Ok(b) => b,
            Err(_) => return false,
        };
    }
    b.build().to_u16() == v
}

pub fn max_len(tier: &str) -> u32 {
    if tier == "thorough" { 5 } else { 4 }
}
/// quick: every 5th composable prefix.  The stride must be coprime to the period of the code layout
/// (6 tone values x 14 rime values = 84 consecutive composable codes per initial/medial pair): a stride
/// of 12 never reached a prefix ending in the rime index 8 without tone (seeded change C13-A).
pub fn prefix_stride(tier: &str) -> usize {
    if tier == "thorough" { 1 } else { 5 }
}

fn views(tier: &str, out: &str) -> i32 {
    for (i, b) in ALL.iter().enumerate() {
        assert_eq!(*b as usize, i, "Bopomofo discriminant order changed");
    }
    let f = std::fs::File::create(out).expect("create");
    let mut w = BufWriter::with_capacity(1 << 20, f);
    // view_code
    for v in 0u32..65536 {
        let v16 = v as u16;
        match Syllable::try_from(v16) {
            Err(_) => {
                writeln!(w, "C {} 0", v).unwrap();
            }
            Ok(s) => {
                write!(
                    w,
                    "C {} 1 {} {} {} {} {}",
                    v,
                    enc(s.initial()),
                    enc(s.medial()),
                    enc(s.rime()),
                    enc(s.tone()),
                    s.is_empty() as u32
                )
                .unwrap();
                let sp = s.to_string();
                write!(w, " {}", sp.chars().count()).unwrap();
                for c in sp.chars() {
                    write!(w, " {}", c as u32).unwrap();
                }
                for k in 0..5 {
                    let mut t = s;
                    let r = match k {
                        0 => t.remove_initial(),
                        1 => t.remove_medial(),
                        2 => t.remove_rime(),
                        3 => t.remove_tone(),
                        _ => t.pop(),
                    };
                    write!(w, " {} {}", enc(r), t.to_u16()).unwrap();
                }
                for b in ALL {
                    let r = catch(move || {
                        let mut t = s;
                        t.update(b);
                        t.to_u16()
                    });
                    write!(w, " {}", r.map(|x| x as u32).unwrap_or(0)).unwrap();
                }
                writeln!(w).unwrap();
            }
        }
    }
    // view_parse
    let base = ALL.len() as u64 + 1;
    for len in 0..=max_len(tier) {
        let total = base.pow(len);
        for idx in 0..total {
            let s: String = digits(len, base, idx).into_iter().map(digit_char).collect();
            let r = match s.parse::<Syllable>() {
                Ok(v) => v.to_u16() as u32,
                Err(e) => 70000 + err_code(e.kind()),
            };
            writeln!(w, "P {} {} {}", len, idx, r).unwrap();
        }
    }
    // view_starts
    let comp: Vec<u16> = (1u32..65536).map(|v| v as u16).filter(|v| composable(*v)).collect();
    let mut line = String::with_capacity(comp.len() + 16);
    for (k, p) in comp.iter().enumerate() {
        if k % prefix_stride(tier) != 0 {
            continue;
        }
        let ps = Syllable::try_from(*p).unwrap();
        line.clear();
        for s in comp.iter() {
            let ss = Syllable::try_from(*s).unwrap();
            line.push(if ss.starts_with(ps) { '1' } else { '0' });
        }
        writeln!(w, "S {} {}", p, line).unwrap();
    }
    w.flush().unwrap();
    0
}

fn comps(s: Syllable) -> [Option<Bopomofo>; 4] {
    [s.initial(), s.medial(), s.rime(), s.tone()]
}

/// Property oracles evaluated on the implementation alone.
fn oracle(tier: &str, out: &str) -> i32 {
    let mut failures: Vec<String> = vec![];
    let mut evals: u64 = 0;
    let mut fail = |kind: &str, input: String, detail: String, failures: &mut Vec<String>| {
        if failures.len() < 20 {
            failures.push(format!(
                "{{\"oracle\":{},\"input\":{},\"detail\":{}}}",
                json_str(kind),
                json_str(&input),
                json_str(&detail)
            ));
        }
    };
    // O1: every composition of optional components: non-zero unique code, decodes to the same
    // components, unique spelling, spelling parses back, code converts back
    let opt = |xs: &[Bopomofo]| -> Vec<Option<Bopomofo>> {
        let mut v = vec![None];
        v.extend(xs.iter().map(|b| Some(*b)));
        v
    };
    let kind_of = |k: chewing::zhuyin::BopomofoKind| ALL.iter().cloned().filter(|b| b.kind() == k).collect::<Vec<_>>();
    use chewing::zhuyin::BopomofoKind as BK;
    let (ins, mes, ris, tos) = (kind_of(BK::Initial), kind_of(BK::Medial), kind_of(BK::Rime), kind_of(BK::Tone));
    let mut codes: HashMap<u16, String> = HashMap::new();
    let mut spellings: HashMap<String, u16> = HashMap::new();
    let mut n_comp = 0u64;
    for i in opt(&ins) {
        for m in opt(&mes) {
            for r in opt(&ris) {
                for t in opt(&tos) {
                    evals += 1;
                    n_comp += 1;
                    let parts: Vec<Bopomofo> = [i, m, r, t].into_iter().flatten().collect();
                    let desc = format!("{:?}", parts);
                    let built = catch(move || {
                        let mut b = Syllable::builder();
                        for c in [i, m, r, t].into_iter().flatten() {
                            b = b.insert(c).map_err(|e| format!("{e}"))?;
                        }
                        Ok::<Syllable, String>(b.build())
                    });
                    let s = match built {
                        Ok(Ok(s)) => s,
                        Ok(Err(e)) => {
                            fail("compose-rejected", desc, e, &mut failures);
                            continue;
                        }
                        Err(p) => {
                            fail("compose-panic", desc, p, &mut failures);
                            continue;
                        }
                    };
                    let code = s.to_u16();
                    if code == 0 {
                        fail("zero-code", desc.clone(), String::new(), &mut failures);
                    }
                    if comps(s) != [i, m, r, t] {
                        fail("components-differ", desc.clone(), format!("code {code:#x} decodes to {:?}", comps(s)), &mut failures);
                    }
                    match Syllable::try_from(code) {
                        Ok(s2) if s2 == s => {}
                        _ => fail("code-roundtrip", desc.clone(), format!("{code:#x}"), &mut failures),
                    }
                    let sp = s.to_string();
                    let expect: String = parts.iter().map(|b| char::from(*b)).collect();
                    if sp != expect {
                        fail("spelling-differs", desc.clone(), format!("{sp:?} vs {expect:?}"), &mut failures);
                    }
                    match sp.parse::<Syllable>() {
                        Ok(s2) if s2 == s => {}
                        other => fail("spelling-roundtrip", desc.clone(), format!("{sp:?} parses to {other:?}"), &mut failures),
                    }
                    if let Some(prev) = codes.insert(code, desc.clone()) {
                        fail("code-collision", desc.clone(), format!("{code:#x} also {prev}"), &mut failures);
                    }
                    if let Some(prev) = spellings.insert(sp.clone(), code) {
                        fail("spelling-collision", desc.clone(), format!("{sp:?} also code {prev:#x}"), &mut failures);
                    }
                }
            }
        }
    }
    // O2: every string over the 42 symbols up to the tier's length: accepted => it is the
    // spelling of the result (so out-of-order / repeated components are rejected)
    let base = ALL.len() as u64;
    let mut accepted = 0u64;
    for len in 0..=max_len(tier) {
        for idx in 0..base.pow(len) {
            evals += 1;
            let s: String = digits(len, base, idx).into_iter().map(digit_char).collect();
            if let Ok(v) = s.parse::<Syllable>() {
                accepted += 1;
                let back = v.to_string();
                if back != s {
                    fail(
                        "parse-not-canonical",
                        s.chars().map(|c| (c as u32).to_string()).collect::<Vec<_>>().join(","),
                        format!("{s:?} -> {:#x} -> {back:?}", v.to_u16()),
                        &mut failures,
                    );
                }
            }
        }
    }
    // O3: prefix relation against the component rule, all composable s x (strided) prefixes
    let comp: Vec<u16> = (1u32..65536).map(|v| v as u16).filter(|v| composable(*v)).collect();
    let mut pairs = 0u64;
    for (k, p) in comp.iter().enumerate() {
        if k % prefix_stride(tier) != 0 {
            continue;
        }
        let ps = Syllable::try_from(*p).unwrap();
        if ps.is_empty() {
            continue;
        }
        let pc = comps(ps);
        let last = pc.iter().rposition(|c| c.is_some()).unwrap();
        for s in comp.iter() {
            pairs += 1;
            let ss = Syllable::try_from(*s).unwrap();
            let sc = comps(ss);
            let expect = (0..=last).all(|j| sc[j] == pc[j]);
            if ss.starts_with(ps) != expect {
                fail("starts-with", format!("{s},{p}"), format!("{ss} starts_with {ps} = {}", !expect), &mut failures);
            }
        }
    }
    evals += pairs;
    // O4: the C glue agrees with to_string on every code
    for v in 0u32..65536 {
        evals += 1;
        let mut buf = [0x55u8; 32];
        let n = unsafe { chewing_capi::output::chewing_phone_to_bopomofo(v as u16, buf.as_mut_ptr().cast(), 32) };
        match Syllable::try_from(v as u16) {
            Err(_) => {
                if n != -1 {
                    fail("phone_to_bopomofo", v.to_string(), format!("code 0 returns {n}"), &mut failures);
                }
            }
            Ok(s) => {
                let sp = s.to_string();
                let got = std::ffi::CStr::from_bytes_until_nul(&buf).map(|c| c.to_string_lossy().into_owned());
                if n as usize != sp.len() + 1 || got.as_deref() != Ok(sp.as_str()) {
                    fail("phone_to_bopomofo", v.to_string(), format!("{n} {got:?} vs {sp:?}"), &mut failures);
                }
            }
        }
    }
    let json = format!(
        "{{\"evaluations\":{},\"compositions\":{},\"accepted_strings\":{},\"prefix_pairs\":{},\"distinct_codes\":{},\"distinct_spellings\":{},\"failures\":[{}]}}",
        evals,
        n_comp,
        accepted,
        pairs,
        codes.len(),
        spellings.len(),
        failures.join(",")
    );
    std::fs::write(out, json).unwrap();
    if failures.is_empty() { 0 } else { 1 }
}

fn replay(arg: &str) -> i32 {
    let s: String = arg
        .split(',')
        .filter(|x| !x.is_empty())
        .map(|x| char::from_u32(x.trim().parse::<u32>().unwrap()).unwrap())
        .collect();
    match s.parse::<Syllable>() {
        Ok(v) => {
            let back = v.to_string();
            println!("parse {:?} -> {:#x} -> {:?} {}", s, v.to_u16(), back, if back == s { "OK" } else { "MISMATCH" });
            if back == s { 0 } else { 1 }
        }
        Err(e) => {
            println!("parse {:?} -> rejected ({:?})", s, e.kind());
            0
        }
    }
}

fn main() {
    let args: Vec<String> = std::env::args().skip(1).collect();
    let code = run(&args);
    std::process::exit(code);
}

fn run(args: &[String]) -> i32 {
    match args.first().map(|s| s.as_str()) {
        Some("views") => views(&args[1], &args[2]),
        Some("oracle") => oracle(&args[1], &args[2]),
        Some("replay") => replay(&args[1]),
        _ => {
            eprintln!("usage: c13 views|oracle|replay ...");
            2
        }
    }
}
