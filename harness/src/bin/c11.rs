//! C11 (trie file round trip) and C12 (corrupt files never crash or hang).
//!   c11 gen    <quick|thorough> <cases>        write the command file both sides interpret
//!   c11 views  <cases> <out>                   implementation side (worker process + watchdog)
//!   c11 worker                                 (internal) interprets commands from stdin
//!   c11 oracle <quick|thorough> <out.json>     C11 property oracles on the implementation alone
//!                                              (independent reader / writer of the documented format)
//!   c11 ctxgen <quick|thorough> <cases>        context-creation cases (chewing_new2 over corrupt files)
//!   c11 ctx    <cases> <out> <workdir>         implementation side of the context cases
//!   c11 ctxworker <workdir>                    (internal)
//!
//! Command language (hex = lowercase hex of bytes, "-" = empty) - see ocaml/c11/c11.ml.
use chewing::dictionary::{
    Dictionary, DictionaryBuilder, DictionaryInfo, LookupStrategy, Phrase, Trie, TrieBuilder,
};
use chewing::zhuyin::Syllable;
use std::collections::BTreeMap;
use std::io::{BufRead, BufReader, BufWriter, Write};
use std::panic::AssertUnwindSafe;
use std::process::{Child, ChildStdin, Command, Stdio};
use std::sync::mpsc::{Receiver, RecvTimeoutError, channel};
use std::time::Duration;
use vharness::util::{Rng, catch, json_str, seed_from_env};

// ------------------------------------------------------------------ helpers

fn hex(b: &[u8]) -> String {
    if b.is_empty() {
        return "-".into();
    }
    let mut s = String::with_capacity(b.len() * 2);
    for x in b {
        s.push_str(&format!("{:02x}", x));
    }
    s
}

fn unhex(s: &str) -> Vec<u8> {
    if s == "-" {
        return vec![];
    }
    (0..s.len() / 2).map(|i| u8::from_str_radix(&s[2 * i..2 * i + 2], 16).unwrap()).collect()
}

fn syls_repr(s: &[u16]) -> String {
    if s.is_empty() {
        "-".into()
    } else {
        s.iter().map(|x| x.to_string()).collect::<Vec<_>>().join(",")
    }
}

fn parse_syls(s: &str) -> Vec<u16> {
    if s == "-" { vec![] } else { s.split(',').map(|x| x.parse().unwrap()).collect() }
}

fn to_syllables(s: &[u16]) -> Vec<Syllable> {
    // The library takes every non-zero u16 as a syllable code.  Should a tree under test refuse some codes, the
    // generators go on with the nearest composable code (fields clamped to their alphabets) instead of dying: the
    // entry sets then differ from the model's, which the correspondence reports, and the corruption campaigns -
    // which work on bytes - still run.
    s.iter()
        .map(|&v| {
            Syllable::try_from(v).unwrap_or_else(|_| {
                let (i, m, r, t) = (((v >> 9) & 0x3f).min(21), (v >> 7) & 3, ((v >> 3) & 0xf).min(13), (v & 7).min(5));
                let c = (i << 9) | (m << 7) | (r << 3) | t;
                Syllable::try_from(if c == 0 { 1 << 9 } else { c }).expect("a composable syllable code")
            })
        })
        .collect()
}

/// phrase as (utf8 bytes, freq, last_used)
type P = (Vec<u8>, u32, Option<u64>);

fn p_repr(p: &P) -> String {
    format!("{}:{}:{}", hex(&p.0), p.1, p.2.map(|t| t.to_string()).unwrap_or("-".into()))
}

fn phrase_to_p(p: &Phrase) -> P {
    (p.as_str().as_bytes().to_vec(), p.freq(), p.last_used())
}

fn p_to_phrase(p: &P) -> Phrase {
    let ph = Phrase::new(String::from_utf8(p.0.clone()).expect("utf8 phrase"), p.1);
    match p.2 {
        Some(t) => ph.with_time(t),
        None => ph,
    }
}

// ------------------------------------------------------------------ worker: the interpreter

struct St {
    builder: TrieBuilder,
    base: Vec<u8>,
    cur: Vec<u8>,
    trie: Option<Trie>,
}

impl St {
    fn new() -> St {
        St { builder: TrieBuilder::new(), base: vec![], cur: vec![], trie: None }
    }
}

fn outcome<T>(tag: &str, r: Result<T, String>, f: impl FnOnce(T) -> String) -> String {
    match r {
        Ok(v) => format!("{} {}", tag, f(v)),
        Err(_) => format!("{} PANIC", tag),
    }
}

/// one command; "-" = no output line
fn exec(st: &mut St, line: &str) -> String {
    let w: Vec<&str> = line.split(' ').collect();
    match w[0] {
        "T" => {
            *st = St::new();
            line.to_string()
        }
        "I" => {
            let s = |i: usize| String::from_utf8(unhex(w[i])).unwrap();
            let info = DictionaryInfo { name: s(1), copyright: s(2), license: s(3), version: s(4), software: s(5) };
            st.builder.set_info(info).unwrap();
            "-".into()
        }
        "E" => {
            let syls = to_syllables(&parse_syls(w[1]));
            let p: P = (unhex(w[2]), w[3].parse().unwrap(), if w[4] == "-" { None } else { Some(w[4].parse().unwrap()) });
            st.builder.insert(&syls, p_to_phrase(&p)).unwrap();
            "-".into()
        }
        "W" => {
            let b = &st.builder;
            let r = catch(AssertUnwindSafe(|| {
                let mut out = vec![];
                b.write(&mut out).map(|_| out).map_err(|e| e.to_string())
            }));
            st.trie = None;
            match r {
                Ok(Ok(bytes)) => {
                    st.base = bytes.clone();
                    st.cur = bytes;
                    format!("W {}", hex(&st.base))
                }
                Ok(Err(_)) => "W ERR".into(),
                Err(_) => "W PANIC".into(),
            }
        }
        "F" => {
            st.base = unhex(w[1]);
            st.cur = st.base.clone();
            st.trie = None;
            "-".into()
        }
        "P" => {
            let pos: usize = w[1].parse().unwrap();
            let patch = unhex(w[2]);
            st.cur = st.base.clone();
            for (i, b) in patch.iter().enumerate() {
                if pos + i < st.cur.len() {
                    st.cur[pos + i] = *b;
                }
            }
            st.trie = None;
            "-".into()
        }
        "C" => {
            let n: usize = w[1].parse().unwrap();
            st.cur = st.base[..n.min(st.base.len())].to_vec();
            st.trie = None;
            "-".into()
        }
        "A" => {
            st.cur = st.base.clone();
            st.cur.extend_from_slice(&unhex(w[1]));
            st.trie = None;
            "-".into()
        }
        "R" => {
            st.cur = st.base.clone();
            st.trie = None;
            "-".into()
        }
        "O" => {
            let cur = &st.cur;
            let r = catch(AssertUnwindSafe(|| Trie::new(&cur[..])));
            match r {
                Ok(Ok(t)) => {
                    let i = t.about();
                    let (nrec, ndata) = ind_read(cur).map(|(_, idx, data)| (idx.len(), data.len())).unwrap_or((0, 0));
                    let s = format!(
                        "O OK {} {} {} {} {} {} {}",
                        hex(i.name.as_bytes()),
                        hex(i.copyright.as_bytes()),
                        hex(i.license.as_bytes()),
                        hex(i.version.as_bytes()),
                        hex(i.software.as_bytes()),
                        nrec,
                        ndata
                    );
                    st.trie = Some(t);
                    s
                }
                Ok(Err(_)) => {
                    st.trie = None;
                    "O ERR".into()
                }
                Err(_) => {
                    st.trie = None;
                    "O PANIC".into()
                }
            }
        }
        "Q" => {
            let Some(t) = &st.trie else { return "Q NOTOPEN".into() };
            let strat = if w[1] == "F" { LookupStrategy::FuzzyPartialPrefix } else { LookupStrategy::Standard };
            let first: u64 = w[2].parse().unwrap();
            let syls = to_syllables(&parse_syls(w[3]));
            let r = catch(AssertUnwindSafe(|| t.lookup_first_n_phrases(&syls, first as usize, strat)));
            outcome("Q", r, |ps| {
                format!("OK {} {}", ps.len(), ps.iter().map(|p| p_repr(&phrase_to_p(p))).collect::<Vec<_>>().join(";"))
            })
        }
        "N" => {
            let Some(t) = &st.trie else { return "N NOTOPEN".into() };
            let cap = st.cur.len() * 64 + 4096;
            let r = catch(AssertUnwindSafe(|| {
                let mut v = vec![];
                for (syls, p) in t.entries() {
                    v.push(format!(
                        "{}={}",
                        syls_repr(&syls.iter().map(|s| s.to_u16()).collect::<Vec<_>>()),
                        p_repr(&phrase_to_p(&p))
                    ));
                    if v.len() > cap {
                        return None;
                    }
                }
                Some(v)
            }));
            outcome("N", r, |v| match v {
                Some(mut v) => {
                    v.sort();
                    format!("OK {} {}", v.len(), v.join("|"))
                }
                None => "UNBOUNDED".into(),
            })
        }
        "" => "-".into(),
        _ => format!("? {}", line),
    }
}

fn worker() {
    let stdin = std::io::stdin();
    let stdout = std::io::stdout();
    let mut out = BufWriter::new(stdout.lock());
    let mut st = St::new();
    // silence the default panic hook for the whole worker
    std::panic::set_hook(Box::new(|_| {}));
    for line in stdin.lock().lines() {
        let line = line.unwrap();
        let r = exec(&mut st, &line);
        writeln!(out, "{}", r).unwrap();
        out.flush().unwrap();
    }
}

// ------------------------------------------------------------------ parent: worker process + watchdog

struct Proc {
    child: Child,
    stdin: ChildStdin,
    rx: Receiver<String>,
}

fn spawn_worker(args: &[&str]) -> Proc {
    let exe = std::env::current_exe().unwrap();
    // address-space limit so that an unbounded allocation kills the worker, not the machine
    let script = format!("ulimit -v 4000000; exec \"$0\" {}", args.join(" "));
    let mut child = Command::new("sh")
        .arg("-c")
        .arg(script)
        .arg(exe)
        .stdin(Stdio::piped())
        .stdout(Stdio::piped())
        .stderr(Stdio::null())
        .spawn()
        .expect("spawn worker");
    let stdin = child.stdin.take().unwrap();
    let stdout = child.stdout.take().unwrap();
    let (tx, rx) = channel();
    std::thread::spawn(move || {
        for line in BufReader::new(stdout).lines() {
            match line {
                Ok(l) => {
                    if tx.send(l).is_err() {
                        break;
                    }
                }
                Err(_) => break,
            }
        }
    });
    Proc { child, stdin, rx }
}

enum Reply {
    Line(String),
    Hang,
    Crash,
}

fn ask(p: &mut Proc, line: &str, timeout: Duration) -> Reply {
    if writeln!(p.stdin, "{}", line).is_err() || p.stdin.flush().is_err() {
        return Reply::Crash;
    }
    match p.rx.recv_timeout(timeout) {
        Ok(l) => Reply::Line(l),
        Err(RecvTimeoutError::Timeout) => Reply::Hang,
        Err(RecvTimeoutError::Disconnected) => Reply::Crash,
    }
}

fn kill(p: &mut Proc) {
    let _ = p.child.kill();
    let _ = p.child.wait();
}

fn watchdog() -> Duration {
    Duration::from_millis(std::env::var("VERIF_WATCHDOG_MS").ok().and_then(|s| s.parse().ok()).unwrap_or(5000))
}

/// run a command file through a worker; lines that produce output are written to `out`.
/// After a hang or crash the rest of the case (up to the next `T`) is reported as SKIP.
fn run_cases(cases: &str, out: &str, worker_args: &[&str], produces: &dyn Fn(&str) -> bool) {
    let f = BufReader::new(std::fs::File::open(cases).expect("cases file"));
    let mut o = BufWriter::new(std::fs::File::create(out).expect("out file"));
    let mut p = spawn_worker(worker_args);
    let to = watchdog();
    let lines: Vec<String> = f.lines().map(|l| l.unwrap()).collect();
    let tag_of = |l: &str| l.split(' ').next().unwrap_or("").to_string();
    let mut poisoned = false;
    let mut i = 0;
    while i < lines.len() {
        // a chunk: consecutive lines of one case, small enough to fit the pipe buffer so that
        // writing never blocks behind a hung command
        let mut j = i;
        let mut bytes = 0;
        while j < lines.len() && (j == i || (tag_of(&lines[j]) != "T" && bytes + lines[j].len() < 32768 && j - i < 256)) {
            bytes += lines[j].len() + 1;
            j += 1;
        }
        if tag_of(&lines[i]) == "T" {
            poisoned = false;
        }
        if poisoned {
            for l in &lines[i..j] {
                let tag = tag_of(l);
                if produces(&tag) {
                    writeln!(o, "{} SKIP", tag).unwrap();
                }
            }
            i = j;
            continue;
        }
        let mut sent_ok = true;
        for l in &lines[i..j] {
            if writeln!(p.stdin, "{}", l).is_err() {
                sent_ok = false;
                break;
            }
        }
        if p.stdin.flush().is_err() {
            sent_ok = false;
        }
        let mut k = i;
        while k < j {
            let tag = tag_of(&lines[k]);
            let r = if sent_ok || true {
                match p.rx.recv_timeout(to) {
                    Ok(l) => Reply::Line(l),
                    Err(RecvTimeoutError::Timeout) => Reply::Hang,
                    Err(RecvTimeoutError::Disconnected) => Reply::Crash,
                }
            } else {
                Reply::Crash
            };
            match r {
                Reply::Line(l) => {
                    if l != "-" {
                        writeln!(o, "{}", l).unwrap();
                    }
                    k += 1;
                }
                r => {
                    kill(&mut p);
                    p = spawn_worker(worker_args);
                    poisoned = true;
                    let what = if matches!(r, Reply::Hang) { "HANG" } else { "CRASH" };
                    writeln!(o, "{} {}", tag, what).unwrap();
                    for l in &lines[k + 1..j] {
                        let tag = tag_of(l);
                        if produces(&tag) {
                            writeln!(o, "{} SKIP", tag).unwrap();
                        }
                    }
                    break;
                }
            }
        }
        i = j;
    }
    kill(&mut p);
    o.flush().unwrap();
}

// ------------------------------------------------------------------ independent reader of the documented format

fn rd_len(b: &[u8], p: &mut usize) -> Option<usize> {
    let x = *b.get(*p)? as usize;
    *p += 1;
    if x < 0x80 {
        return Some(x);
    }
    let n = x - 0x80;
    if n == 0 || n > 4 {
        return None;
    }
    let mut v = 0usize;
    for _ in 0..n {
        v = (v << 8) | *b.get(*p)? as usize;
        *p += 1;
    }
    Some(v)
}

fn rd_tlv<'a>(b: &'a [u8], p: &mut usize, tag: u8) -> Option<&'a [u8]> {
    if *b.get(*p)? != tag {
        return None;
    }
    *p += 1;
    let n = rd_len(b, p)?;
    let v = b.get(*p..*p + n)?;
    *p += n;
    Some(v)
}

fn rd_uint(v: &[u8]) -> Option<u64> {
    if v.is_empty() || v.len() > 9 {
        return None;
    }
    let mut x = 0u64;
    for (i, &b) in v.iter().enumerate() {
        if v.len() == 9 && i == 0 {
            if b != 0 {
                return None;
            }
            continue;
        }
        x = (x << 8) | b as u64;
    }
    Some(x)
}

type Rec = (u32, u16, u16);

/// Document ::= SEQUENCE { magic, version, info, index, phraseSeq }
fn ind_read(bytes: &[u8]) -> Option<([String; 5], Vec<Rec>, Vec<u8>)> {
    let mut p = 0;
    let doc = rd_tlv(bytes, &mut p, 0x30)?;
    if p != bytes.len() {
        return None;
    }
    let mut p = 0;
    if rd_tlv(doc, &mut p, 0x0c)? != b"CHEW" {
        return None;
    }
    if rd_uint(rd_tlv(doc, &mut p, 0x02)?)? != 0 {
        return None;
    }
    let info = rd_tlv(doc, &mut p, 0x30)?;
    let mut q = 0;
    let mut s = || -> Option<String> { String::from_utf8(rd_tlv(info, &mut q, 0x0c)?.to_vec()).ok() };
    let infos = [s()?, s()?, s()?, s()?, s()?];
    let index = rd_tlv(doc, &mut p, 0x04)?;
    let data = rd_tlv(doc, &mut p, 0x30)?;
    let recs = index
        .chunks_exact(8)
        .map(|c| (u32::from_be_bytes([c[0], c[1], c[2], c[3]]), u16::from_be_bytes([c[4], c[5]]), u16::from_be_bytes([c[6], c[7]])))
        .collect();
    Some((infos, recs, data.to_vec()))
}

fn ind_phrases(mut d: &[u8]) -> Option<Vec<P>> {
    let mut out = vec![];
    while !d.is_empty() {
        let mut p = 0;
        let body = rd_tlv(d, &mut p, 0x30)?;
        d = &d[p..];
        let mut q = 0;
        let s = rd_tlv(body, &mut q, 0x0c)?.to_vec();
        String::from_utf8(s.clone()).ok()?;
        let f = rd_uint(rd_tlv(body, &mut q, 0x02)?)?;
        let t = if q < body.len() { Some(rd_uint(rd_tlv(body, &mut q, 0x80)?)?) } else { None };
        if q != body.len() || f > u32::MAX as u64 {
            return None;
        }
        out.push((s, f as u32, t));
    }
    Some(out)
}

/// all (syllables, leaf phrases) by a recursive walk of the documented layout
fn ind_walk(recs: &[Rec], data: &[u8], i: usize, path: &mut Vec<u16>, depth: usize, out: &mut Vec<(Vec<u16>, Vec<P>)>) -> Option<()> {
    if depth > 64 {
        return None;
    }
    let (cb, len, _) = *recs.get(i)?;
    for j in 0..len as usize {
        let c = cb as usize + j;
        let (b, l, syl) = *recs.get(c)?;
        if syl == 0 {
            if j != 0 {
                return None;
            }
            let d = data.get(b as usize..b as usize + l as usize)?;
            out.push((path.clone(), ind_phrases(d)?));
        } else {
            path.push(syl);
            ind_walk(recs, data, c, path, depth + 1, out)?;
            path.pop();
        }
    }
    Some(())
}

// ------------------------------------------------------------------ specification (what C11 says the file must contain)

fn chars_count(s: &[u8]) -> usize {
    s.iter().filter(|&&b| !(0x80..0xc0).contains(&b)).count()
}

/// the documented order: one-character phrases keep insertion order; others by descending
/// frequency, then descending string
fn spec_before_or_equal(a: &P, b: &P) -> bool {
    let (ca, cb) = (chars_count(&a.0), chars_count(&b.0));
    if ca == 1 && cb == 1 {
        true
    } else if ca == 1 || cb == 1 {
        a.0.len() <= b.0.len()
    } else if a.1 == b.1 {
        b.0 <= a.0
    } else {
        b.1 <= a.1
    }
}

fn spec_sort(ps: &[P]) -> Vec<P> {
    // stable insertion sort
    let mut out: Vec<P> = vec![];
    for p in ps.iter().rev() {
        let mut k = 0;
        while k < out.len() && !spec_before_or_equal(p, &out[k]) {
            k += 1;
        }
        out.insert(k, p.clone());
    }
    out
}

#[derive(Default, Clone)]
struct Spec {
    map: BTreeMap<Vec<u16>, Vec<P>>,
}

impl Spec {
    fn insert(&mut self, k: &[u16], p: &P) {
        let v = self.map.entry(k.to_vec()).or_default();
        if let Some(x) = v.iter_mut().find(|x| x.0 == p.0) {
            *x = p.clone();
        } else {
            v.push(p.clone());
        }
    }
    fn lookup(&self, k: &[u16]) -> Vec<P> {
        self.map.get(k).map(|v| spec_sort(v)).unwrap_or_default()
    }
    fn fuzzy(&self, q: &[u16]) -> Vec<P> {
        let mut out = vec![];
        for (k, v) in &self.map {
            if k.len() == q.len() && k.iter().zip(q).all(|(&s, &o)| ind_starts_with(s, o)) {
                out.extend(spec_sort(v));
            }
        }
        out
    }
    fn entries(&self) -> Vec<String> {
        let mut v = vec![];
        for (k, ps) in &self.map {
            for p in ps {
                v.push(format!("{}={}", syls_repr(k), p_repr(p)));
            }
        }
        v.sort();
        v
    }
}

fn ind_starts_with(s: u16, other: u16) -> bool {
    let tz = other.trailing_zeros();
    let k = if tz >= 9 { 9 } else if tz >= 7 { 7 } else if tz >= 3 { 3 } else { 0 };
    (s >> k) == (other >> k)
}

// ------------------------------------------------------------------ independent writer of the documented format

fn wr_len(out: &mut Vec<u8>, n: usize) {
    if n < 0x80 {
        out.push(n as u8);
    } else {
        let b = (n as u32).to_be_bytes();
        let skip = b.iter().take_while(|&&x| x == 0).count();
        out.push(0x80 + (4 - skip) as u8);
        out.extend_from_slice(&b[skip..]);
    }
}

fn wr_tlv(out: &mut Vec<u8>, tag: u8, v: &[u8]) {
    out.push(tag);
    wr_len(out, v.len());
    out.extend_from_slice(v);
}

fn wr_uint(out: &mut Vec<u8>, tag: u8, x: u64) {
    let b = x.to_be_bytes();
    let skip = b.iter().take_while(|&&v| v == 0).count().min(7);
    let mut v = vec![];
    if b[skip] >= 0x80 {
        v.push(0);
    }
    v.extend_from_slice(&b[skip..]);
    wr_tlv(out, tag, &v);
}

#[derive(Default)]
struct INode {
    leaf: Option<Vec<P>>,
    kids: BTreeMap<u16, INode>,
}

fn ind_write(info: &[String; 5], spec: &Spec) -> Vec<u8> {
    let mut root = INode::default();
    for (k, v) in &spec.map {
        let mut n = &mut root;
        for s in k {
            n = n.kids.entry(*s).or_default();
        }
        n.leaf = Some(spec_sort(v));
    }
    // BFS: record i is written when popped; children are numbered consecutively when enqueued
    enum Item<'a> {
        Node(u16, &'a INode),
        Leaf(&'a Vec<P>),
    }
    let mut index = vec![];
    let mut data = vec![];
    let mut queue = std::collections::VecDeque::new();
    queue.push_back(Item::Node(0, &root));
    let mut next = 1u32;
    while let Some(it) = queue.pop_front() {
        match it {
            Item::Node(syl, n) => {
                let cnt = n.kids.len() + n.leaf.is_some() as usize;
                index.extend_from_slice(&next.to_be_bytes());
                index.extend_from_slice(&(cnt as u16).to_be_bytes());
                index.extend_from_slice(&syl.to_be_bytes());
                if let Some(l) = &n.leaf {
                    queue.push_back(Item::Leaf(l));
                }
                for (s, k) in &n.kids {
                    queue.push_back(Item::Node(*s, k));
                }
                next += cnt as u32;
            }
            Item::Leaf(ps) => {
                let begin = data.len();
                for p in ps {
                    let mut body = vec![];
                    wr_tlv(&mut body, 0x0c, &p.0);
                    wr_uint(&mut body, 0x02, p.1 as u64);
                    if let Some(t) = p.2 {
                        wr_uint(&mut body, 0x80, t);
                    }
                    wr_tlv(&mut data, 0x30, &body);
                }
                index.extend_from_slice(&(begin as u32).to_be_bytes());
                index.extend_from_slice(&((data.len() - begin) as u16).to_be_bytes());
                index.extend_from_slice(&0u16.to_be_bytes());
            }
        }
    }
    let mut body = vec![];
    wr_tlv(&mut body, 0x0c, b"CHEW");
    wr_uint(&mut body, 0x02, 0);
    let mut ib = vec![];
    for s in info {
        wr_tlv(&mut ib, 0x0c, s.as_bytes());
    }
    wr_tlv(&mut body, 0x30, &ib);
    wr_tlv(&mut body, 0x04, &index);
    wr_tlv(&mut body, 0x30, &data);
    let mut out = vec![];
    wr_tlv(&mut out, 0x30, &body);
    out
}

// ------------------------------------------------------------------ generators

/// realistic syllables (composed values) plus raw u16 codes that only try_from accepts
const SYLS: [u16; 24] = [
    0x2000 | 0x20 | 3, // some initial+rime+tone shapes; exact spelling is irrelevant here
    0x0a00, 0x0a80, 0x0a88, 0x0a8b, 0x0a08, 0x1400, 0x1488, 0x148c, 0x2e52, 0x2e53, 0x0208, 0x0209, 0x020a,
    0x0080, 0x0100, 0x0008, 0x0001, 0x0003, 0x7e00, 0x4000, 0xffff, 0x8000, 0x1234,
];

const CHARS: [&str; 14] = ["測", "試", "冊", "策", "國", "民", "大", "會", "a", "Z", "é", "ß", "𠀀", "😀"];
const CJK: [&str; 8] = ["測", "試", "冊", "策", "國", "民", "大", "會"];

#[derive(Clone, Copy, PartialEq)]
enum LeafKind {
    Single,
    Multi,
    MixedCjk,
}

struct Gen {
    rng: Rng,
}

impl Gen {
    fn syl(&mut self, alphabet: usize) -> u16 {
        SYLS[self.rng.below(alphabet as u64) as usize]
    }
    fn string(&mut self, nchars: usize, cjk_only: bool) -> Vec<u8> {
        let mut s = String::new();
        for _ in 0..nchars {
            s.push_str(if cjk_only { *self.rng.pick(&CJK) } else { *self.rng.pick(&CHARS) });
        }
        s.into_bytes()
    }
    fn freq(&mut self) -> u32 {
        match self.rng.below(10) {
            0 => 0,
            1 => u32::MAX,
            2 => 127,
            3 => 128,
            4 => 255,
            5 => 256,
            6 => 65535,
            7 => 0x7fff_ffff,
            8 => 0x8000_0000,
            _ => self.rng.below(6) as u32, // dense ties
        }
    }
    fn last(&mut self) -> Option<u64> {
        match self.rng.below(12) {
            0 => Some(0),
            1 => Some(u64::MAX),
            2 => Some(127),
            3 => Some(128),
            4 => Some(0x7fff_ffff_ffff_ffff),
            5 => Some(0x8000_0000_0000_0000),
            6 => Some(self.rng.next()),
            7 => Some(self.rng.below(100000)),
            _ => None,
        }
    }
    fn info_str(&mut self) -> Vec<u8> {
        match self.rng.below(8) {
            0 => vec![],
            1 => self.string(43, false),  // > 127 bytes for CJK: two-byte DER length
            2 => self.string(100, true),  // 300 bytes: three-byte DER length
            3 => b"libchewing default".to_vec(),
            _ => {
                let n = self.rng.below(6) as usize;
                self.string(n, false)
            }
        }
    }
}

/// an entry set: commands + the spec map + the key list
struct Case {
    lines: Vec<String>,
    spec: Spec,
    info: [String; 5],
    keys: Vec<Vec<u16>>,
}

fn gen_case(g: &mut Gen, name: &str, n_entries: usize, alphabet: usize, with_info: bool, max_len: usize) -> Case {
    let mut lines = vec![format!("T {}", name)];
    let mut info: [String; 5] = Default::default();
    if with_info {
        let v: Vec<Vec<u8>> = (0..5).map(|_| g.info_str()).collect();
        lines.push(format!("I {} {} {} {} {}", hex(&v[0]), hex(&v[1]), hex(&v[2]), hex(&v[3]), hex(&v[4])));
        for i in 0..5 {
            info[i] = String::from_utf8(v[i].clone()).unwrap();
        }
    }
    let mut spec = Spec::default();
    let mut keys: Vec<Vec<u16>> = vec![];
    let mut kinds: BTreeMap<Vec<u16>, LeafKind> = BTreeMap::new();
    for _ in 0..n_entries {
        // key: an existing key, an extension / prefix of one, or a fresh one
        let key: Vec<u16> = if !keys.is_empty() && g.rng.chance(3, 10) {
            g.rng.pick(&keys).clone()
        } else if !keys.is_empty() && g.rng.chance(3, 10) {
            let mut k = g.rng.pick(&keys).clone();
            if g.rng.chance(1, 2) && k.len() < max_len {
                k.push(g.syl(alphabet));
            } else if k.len() > 1 {
                k.pop();
            } else {
                k.push(g.syl(alphabet));
            }
            k
        } else {
            let len = match g.rng.below(10) {
                0 => max_len,
                1 => 1,
                2 => 1,
                _ => 1 + g.rng.below(4.min(max_len as u64)) as usize,
            };
            if g.rng.chance(1, 60) { vec![] } else { (0..len).map(|_| g.syl(alphabet)).collect() }
        };
        let kind = *kinds.entry(key.clone()).or_insert_with(|| {
            if key.len() <= 1 {
                if g.rng.chance(8, 10) { LeafKind::Single } else { LeafKind::MixedCjk }
            } else if g.rng.chance(9, 10) {
                LeafKind::Multi
            } else {
                LeafKind::MixedCjk
            }
        });
        // phrase: re-insert an existing phrase of the leaf (replacement) or a new one
        let existing = spec.map.get(&key).cloned().unwrap_or_default();
        let s: Vec<u8> = if !existing.is_empty() && g.rng.chance(1, 4) {
            g.rng.pick(&existing).0.clone()
        } else {
            match kind {
                LeafKind::Single => g.string(1, false),
                LeafKind::Multi => {
                    let n = if g.rng.chance(8, 10) { key.len().max(2) } else { 2 + g.rng.below(4) as usize };
                    g.string(n, false)
                }
                LeafKind::MixedCjk => {
                    let n = if g.rng.chance(1, 2) { 1 } else { 2 + g.rng.below(3) as usize };
                    g.string(n, true)
                }
            }
        };
        let p: P = (s, g.freq(), g.last());
        lines.push(format!("E {} {} {} {}", syls_repr(&key), hex(&p.0), p.1, p.2.map(|t| t.to_string()).unwrap_or("-".into())));
        spec.insert(&key, &p);
        if !keys.contains(&key) {
            keys.push(key);
        }
    }
    Case { lines, spec, info, keys }
}

/// partial syllable: drop trailing components of a code (tone, rime, medial)
fn partial(g: &mut Gen, s: u16) -> u16 {
    let cands = [s, s & 0xfff8, s & 0xff80, s & 0xfe00];
    let c = *g.rng.pick(&cands);
    if c == 0 { s } else { c }
}

fn queries(g: &mut Gen, case: &Case, alphabet: usize, max_keys: usize) -> Vec<String> {
    let mut qs: Vec<String> = vec![];
    let mut keys = case.keys.clone();
    if keys.len() > max_keys {
        // sample without replacement
        for i in 0..max_keys {
            let j = i + g.rng.below((keys.len() - i) as u64) as usize;
            keys.swap(i, j);
        }
        keys.truncate(max_keys);
    }
    let big = u64::MAX.to_string();
    for k in &keys {
        qs.push(format!("Q S {} {}", big, syls_repr(k)));
        if g.rng.chance(1, 3) {
            qs.push(format!("Q S {} {}", g.rng.below(3), syls_repr(k)));
        }
        // fuzzy with the exact key and with partial syllables
        qs.push(format!("Q F {} {}", big, syls_repr(k)));
        let pk: Vec<u16> = k.iter().map(|&s| partial(g, s)).collect();
        qs.push(format!("Q F {} {}", big, syls_repr(&pk)));
        if g.rng.chance(1, 3) {
            qs.push(format!("Q F {} {}", g.rng.below(4), syls_repr(&pk)));
        }
        // neighbours that were (probably) not inserted
        if !k.is_empty() {
            qs.push(format!("Q S {} {}", big, syls_repr(&k[..k.len() - 1])));
        }
        let mut ext = k.clone();
        ext.push(g.syl(alphabet));
        qs.push(format!("Q S {} {}", big, syls_repr(&ext)));
    }
    for _ in 0..4 {
        let len = 1 + g.rng.below(3) as usize;
        let k: Vec<u16> = (0..len).map(|_| g.syl(SYLS.len())).collect();
        qs.push(format!("Q S {} {}", big, syls_repr(&k)));
        qs.push(format!("Q F {} {}", big, syls_repr(&k)));
    }
    qs.push(format!("Q S {} -", big));
    qs.push(format!("Q F {} -", big));
    qs
}

/// the fixed probes after every corruption: the base file's keys (exact + fuzzy) and entries
fn probes(case: &Case) -> Vec<String> {
    let big = u64::MAX.to_string();
    let mut v = vec![];
    for k in case.keys.iter().take(4) {
        v.push(format!("Q S {} {}", big, syls_repr(k)));
    }
    if let Some(k) = case.keys.first() {
        let pk: Vec<u16> = k.iter().map(|&s| if s & 0xfe00 != 0 { s & 0xfe00 } else { s }).collect();
        v.push(format!("Q F {} {}", big, syls_repr(&pk)));
        v.push(format!("Q F 1 {}", syls_repr(&pk)));
    }
    v.push("N".into());
    v
}

fn build_bytes(case: &Case) -> Vec<u8> {
    let mut st = St::new();
    let mut bytes = vec![];
    for l in case.lines.iter().chain(std::iter::once(&"W".to_string())) {
        let r = exec(&mut st, l);
        if let Some(h) = r.strip_prefix("W ") {
            bytes = unhex(h);
        }
    }
    bytes
}

const VALUES: [u8; 5] = [0x00, 0x01, 0x7f, 0x80, 0xff];

fn corruption_values(orig: u8) -> Vec<u8> {
    let mut v: Vec<u8> = VALUES.to_vec();
    v.push(orig.wrapping_add(1));
    v.push(orig.wrapping_sub(1));
    v.sort();
    v.dedup();
    v.retain(|&x| x != orig);
    v
}

/// hand-made small dictionaries for the exhaustive corruption corpus (files <= 400 bytes)
fn small_corpus() -> Vec<Case> {
    fn mk(name: &str, info: Option<[&str; 5]>, es: &[(&[u16], &str, u32, Option<u64>)]) -> Case {
        let mut lines = vec![format!("T {}", name)];
        let mut inf: [String; 5] = Default::default();
        if let Some(i) = info {
            lines.push(format!("I {}", i.iter().map(|s| hex(s.as_bytes())).collect::<Vec<_>>().join(" ")));
            for k in 0..5 {
                inf[k] = i[k].to_string();
            }
        }
        let mut spec = Spec::default();
        let mut keys = vec![];
        for (k, s, f, t) in es {
            let p: P = (s.as_bytes().to_vec(), *f, *t);
            lines.push(format!("E {} {} {} {}", syls_repr(k), hex(&p.0), p.1, p.2.map(|t| t.to_string()).unwrap_or("-".into())));
            spec.insert(k, &p);
            if !keys.contains(&k.to_vec()) {
                keys.push(k.to_vec());
            }
        }
        Case { lines, spec, info: inf, keys }
    }
    let a = 0x2e53u16;
    let b = 0x1488u16;
    let c = 0x0a8bu16;
    vec![
        mk("small-empty", None, &[]),
        mk("small-one", None, &[(&[a], "測", 1, None)]),
        mk("small-siblings", Some(["n", "", "", "", "v"]), &[(&[a], "測", 1, None), (&[b], "試", 2, None), (&[a], "冊", 3, None)]),
        mk("small-chain", None, &[(&[a, b, c], "測試區", 100, None), (&[a, b], "測試", 100, None)]),
        mk("small-leaf-and-kids", None, &[(&[a], "測", 5, None), (&[a, b], "測試", 9, Some(3)), (&[a, c], "廁所", 9, None), (&[b], "試", 0, None)]),
        mk("small-time", Some(["我的詞庫", "Unknown", "Unknown", "0.0.0", "x"]), &[(&[a, b], "測試", 4294967295, Some(18446744073709551615)), (&[a, b], "策試", 128, Some(128))]),
        mk("small-rootleaf", None, &[(&[], "空", 1, None), (&[c], "a", 2, None)]),
        mk("small-wide", None, &[(&[a], "一", 1, None), (&[b], "二", 1, None), (&[c], "三", 1, None), (&[0x0208], "四", 1, None), (&[a, a], "一一", 7, None), (&[b, b], "二二", 7, None)]),
    ]
}

fn emit_corruptions(o: &mut impl Write, case: &Case, bytes: &[u8], positions: &[usize], truncations: &[usize], count: &mut usize) {
    let pr = probes(case);
    let h = hex(bytes);
    let name = case.lines[0][2..].to_string();
    // every listed position in its own case so that one hang does not hide the others
    for &pos in positions {
        writeln!(o, "T {}@{}", name, pos).unwrap();
        writeln!(o, "F {}", h).unwrap();
        for v in corruption_values(bytes[pos]) {
            writeln!(o, "P {} {:02x}", pos, v).unwrap();
            writeln!(o, "O").unwrap();
            for q in &pr {
                writeln!(o, "{}", q).unwrap();
            }
            *count += 1;
        }
    }
    writeln!(o, "T {}@cut", name).unwrap();
    writeln!(o, "F {}", h).unwrap();
    for &n in truncations {
        writeln!(o, "C {}", n).unwrap();
        writeln!(o, "O").unwrap();
        writeln!(o, "N").unwrap();
        *count += 1;
    }
    writeln!(o, "T {}@ext", name).unwrap();
    writeln!(o, "F {}", h).unwrap();
    for ext in ["00", "ff", "0000000000000000", "3000", "0c0443484557"] {
        writeln!(o, "A {}", ext).unwrap();
        writeln!(o, "O").unwrap();
        writeln!(o, "N").unwrap();
        *count += 1;
    }
    writeln!(o, "A {}", h).unwrap();
    writeln!(o, "O").unwrap();
    *count += 1;
}

/// structured index corruptions: overwrite one field of one record with an adversarial value
fn emit_index_attacks(o: &mut impl Write, g: &mut Gen, case: &Case, bytes: &[u8], n: usize, count: &mut usize) {
    let Some((_, recs, _)) = ind_read(bytes) else { return };
    // locate the index inside the file: the encoded records are unique enough to search for
    let mut enc = vec![];
    for r in &recs {
        enc.extend_from_slice(&r.0.to_be_bytes());
        enc.extend_from_slice(&r.1.to_be_bytes());
        enc.extend_from_slice(&r.2.to_be_bytes());
    }
    let Some(off) = bytes.windows(enc.len().max(1)).position(|w| w == &enc[..]) else { return };
    let pr = probes(case);
    let name = case.lines[0][2..].to_string();
    writeln!(o, "T {}@index", name).unwrap();
    writeln!(o, "F {}", hex(bytes)).unwrap();
    let nrec = recs.len() as u32;
    for _ in 0..n {
        let i = g.rng.below(nrec as u64) as u32;
        let field = g.rng.below(3);
        let (pos, patch): (usize, Vec<u8>) = match field {
            0 => {
                let cands = [0u32, 1, i, i.wrapping_sub(1), i + 1, nrec - 1, nrec, nrec + 1, recs[i as usize].0 + 1, recs[i as usize].0.wrapping_sub(1), u32::MAX, g.rng.below(nrec as u64 + 2) as u32];
                (off + 8 * i as usize, g.rng.pick(&cands).to_be_bytes().to_vec())
            }
            1 => {
                let l = recs[i as usize].1;
                let cands = [0u16, 1, 2, l + 1, l.wrapping_sub(1), nrec as u16, u16::MAX, g.rng.below(nrec as u64 + 2) as u16];
                (off + 8 * i as usize + 4, g.rng.pick(&cands).to_be_bytes().to_vec())
            }
            _ => {
                let cands = [0u16, 1, recs[i as usize].2 ^ 1, 0xffff, 0x2e53];
                (off + 8 * i as usize + 6, g.rng.pick(&cands).to_be_bytes().to_vec())
            }
        };
        writeln!(o, "P {} {}", pos, hex(&patch)).unwrap();
        writeln!(o, "O").unwrap();
        for q in &pr {
            writeln!(o, "{}", q).unwrap();
        }
        *count += 1;
    }
}

fn gen_cases(tier: &str, part: &str, out: &str) {
    let thorough = tier == "thorough";
    let c11 = part != "c12";
    let c12 = part != "c11";
    let mut g = Gen { rng: Rng::new(seed_from_env() ^ 0xC11) };
    let mut o = BufWriter::new(std::fs::File::create(out).unwrap());
    let mut stats: BTreeMap<&str, usize> = BTreeMap::new();

    // ---- corpus: files found in /repo (regression + realistic) ----
    for (name, path) in [
        ("repo-tests-word", "tests/data/word.dat"),
        ("repo-tests-tsi", "tests/data/tsi.dat"),
        ("repo-tests-chewing", "tests/data/chewing.dat"),
        ("repo-capi-mini", "capi/data/mini.dat"),
    ] {
        let repo = std::env::var("VERIF_REPO").unwrap_or("/repo".into());
        if let Ok(b) = std::fs::read(format!("{}/{}", repo, path)) {
            writeln!(o, "T {}", name).unwrap();
            writeln!(o, "F {}", hex(&b)).unwrap();
            writeln!(o, "O").unwrap();
            writeln!(o, "N").unwrap();
            *stats.entry("repo_files").or_default() += 1;
        }
    }

    let mut ncorr = 0usize;
    if c11 {
    // ---- C11: generated entry sets, write + reader differential ----
    let sizes: Vec<(usize, usize)> = if thorough {
        vec![(0, 2), (1, 6), (2, 10), (3, 10), (5, 20), (10, 30), (30, 30), (100, 20), (200, 10), (600, 4), (2000, 2)]
    } else {
        vec![(0, 1), (1, 4), (2, 6), (3, 6), (5, 10), (10, 12), (30, 10), (100, 5), (200, 2)]
    };
    let mut idx = 0;
    for (n, reps) in sizes {
        for _ in 0..reps {
            let alphabet = *g.rng.pick(&[3usize, 5, 8, 14, 24]);
            let max_len = if g.rng.chance(1, 4) { 11 } else { 5 };
            let with_info = g.rng.chance(2, 3);
            let case = gen_case(&mut g, &format!("gen-{}-{}", n, idx), n, alphabet, with_info, max_len);
            idx += 1;
            for l in &case.lines {
                writeln!(o, "{}", l).unwrap();
            }
            writeln!(o, "W").unwrap();
            writeln!(o, "O").unwrap();
            let maxq = if n > 300 { 25 } else { 40 };
            for q in queries(&mut g, &case, alphabet, maxq) {
                writeln!(o, "{}", q).unwrap();
                *stats.entry("queries").or_default() += 1;
            }
            writeln!(o, "N").unwrap();
            *stats.entry("entry_sets").or_default() += 1;
            *stats.entry("entries_inserted").or_default() += n;
        }
    }
    // boundary shapes: a wide node (300 children), depth 11, leaf just below / above 65535 bytes
    {
        writeln!(o, "T shape-wide300").unwrap();
        for s in 1..=300u16 {
            writeln!(o, "E {} {} {} -", s * 97, hex("寬".as_bytes()), s).unwrap();
        }
        writeln!(o, "W\nO\nQ S {} {}\nQ S {} {}\nQ F {} {}\nN", u64::MAX, 97, u64::MAX, 300 * 97, u64::MAX, 512).unwrap();
        writeln!(o, "T shape-deep11").unwrap();
        let key: Vec<u16> = (0..11).map(|i| SYLS[i % 7 + 1]).collect();
        for d in 1..=11 {
            writeln!(o, "E {} {} {} {}", syls_repr(&key[..d]), hex("深".repeat(d).as_bytes()), d, d).unwrap();
        }
        writeln!(o, "W\nO\nQ S {} {}\nQ F {} {}\nN", u64::MAX, syls_repr(&key), u64::MAX, syls_repr(&key)).unwrap();
        // leaf sizes around the u16 limit: records of 3*k+.. bytes; one long phrase does it
        for (name, nbytes) in [("shape-leaf-65535", 65535usize), ("shape-leaf-65536", 65536), ("shape-leaf-70000", 70000)] {
            // record = 30 LL(3) [0c 83 len3 str] [02 01 05]  => overhead 4 + 5 + 3 = 12 for strings >= 65536, 4+4+3 = 11 below
            writeln!(o, "T {}", name).unwrap();
            let overhead = if nbytes - 11 >= 65536 { 12 } else { 11 };
            let slen = nbytes - overhead;
            let s = "a".repeat(slen);
            writeln!(o, "E {} {} 5 -", 0x2e53, hex(s.as_bytes())).unwrap();
            writeln!(o, "E {} {} 6 -", 0x1488, hex("後".as_bytes())).unwrap();
            writeln!(o, "W\nO\nQ S {} {}\nQ S {} {}\nN", u64::MAX, 0x2e53, u64::MAX, 0x1488).unwrap();
        }
        *stats.entry("shape_cases").or_default() += 5;
    }

    }
    if c12 {
    // ---- C12: exhaustive single-byte corruptions of small files ----
    for case in small_corpus() {
        let bytes = build_bytes(&case);
        assert!(bytes.len() <= 400, "small corpus file too large: {}", bytes.len());
        for l in &case.lines {
            writeln!(o, "{}", l).unwrap();
        }
        writeln!(o, "W\nO").unwrap();
        for q in probes(&case) {
            writeln!(o, "{}", q).unwrap();
        }
        let positions: Vec<usize> = (0..bytes.len()).collect();
        let truncs: Vec<usize> = (0..bytes.len()).collect();
        emit_corruptions(&mut o, &case, &bytes, &positions, &truncs, &mut ncorr);
        emit_index_attacks(&mut o, &mut g, &case, &bytes, if thorough { 400 } else { 120 }, &mut ncorr);
        *stats.entry("small_files").or_default() += 1;
        *stats.entry("small_file_bytes").or_default() += bytes.len();
    }
    // ---- C12: sampled corruptions of larger generated files ----
    let nlarge = if thorough { 12 } else { 4 };
    for i in 0..nlarge {
        let n = if i % 2 == 0 { 40 } else { 150 };
        let case = gen_case(&mut g, &format!("large-{}", i), n, 8, true, 5);
        let bytes = build_bytes(&case);
        let nsamp = if thorough { 300 } else { 80 };
        let positions: Vec<usize> = (0..nsamp).map(|_| g.rng.below(bytes.len() as u64) as usize).collect();
        let truncs: Vec<usize> = (0..20).map(|_| g.rng.below(bytes.len() as u64) as usize).collect();
        emit_corruptions(&mut o, &case, &bytes, &positions, &truncs, &mut ncorr);
        emit_index_attacks(&mut o, &mut g, &case, &bytes, if thorough { 600 } else { 150 }, &mut ncorr);
        *stats.entry("large_files").or_default() += 1;
    }
    // ---- C12: arbitrary byte strings (not derived from a valid file) ----
    writeln!(o, "T random-bytes").unwrap();
    for _ in 0..(if thorough { 2000 } else { 300 }) {
        let n = g.rng.below(64) as usize;
        let mut b: Vec<u8> = (0..n).map(|_| *g.rng.pick(&[0u8, 1, 2, 4, 8, 12, 0x30, 0x7f, 0x80, 0x81, 0x82, 0x84, 0xff, 67, 72, 69, 87])).collect();
        if g.rng.chance(1, 2) && n >= 2 {
            b[0] = 0x30;
            b[1] = (n - 2) as u8;
        }
        writeln!(o, "F {}", hex(&b)).unwrap();
        writeln!(o, "O").unwrap();
        ncorr += 1;
    }
    }
    stats.insert("corruptions", ncorr);
    o.flush().unwrap();
    // the input distribution, for the evidence
    let s: Vec<String> = stats.iter().map(|(k, v)| format!("{}:{}", json_str(k), v)).collect();
    println!("{{{}}}", s.join(","));
}

// ------------------------------------------------------------------ C11 oracles on the implementation alone

/// the C11 statement evaluated on the implementation alone for one entry set
fn check_case(case: &Case) -> Vec<(String, String)> {
    let mut errs: Vec<(String, String)> = vec![];
    let bytes = build_bytes(case);
    let bytes2 = build_bytes(case);
    if bytes != bytes2 {
        errs.push(("write-not-deterministic".into(), String::new()));
    }
    // (1) independent reader on the builder's bytes
    match ind_read(&bytes) {
        None => errs.push(("file-not-in-documented-format".into(), hex(&bytes[..bytes.len().min(64)]))),
        Some((info, recs, data)) => {
            if info != case.info {
                errs.push(("metadata-differs".into(), format!("{:?} vs {:?}", info, case.info)));
            }
            let mut leaves = vec![];
            if ind_walk(&recs, &data, 0, &mut vec![], 0, &mut leaves).is_none() {
                errs.push(("index-not-in-documented-layout".into(), String::new()));
            }
            let got: BTreeMap<Vec<u16>, Vec<P>> = leaves.into_iter().collect();
            let want: BTreeMap<Vec<u16>, Vec<P>> = case.spec.map.keys().map(|k| (k.clone(), case.spec.lookup(k))).collect();
            if got != want {
                let k = want.keys().chain(got.keys()).find(|k| got.get(*k) != want.get(*k)).unwrap();
                errs.push(("independent-reader-differs".into(), format!("key {} file {:?} spec {:?}", syls_repr(k), got.get(k), want.get(k))));
            }
        }
    }
    // (2) independent writer: byte-identical to the builder, and read back by Trie
    let ibytes = ind_write(&case.info, &case.spec);
    if ibytes != bytes {
        let p = ibytes.iter().zip(&bytes).position(|(a, b)| a != b).unwrap_or(ibytes.len().min(bytes.len()));
        errs.push(("independent-writer-bytes-differ".into(), format!("first difference at byte {} ({} vs {} bytes)", p, ibytes.len(), bytes.len())));
    }
    for (which, b) in [("builder", &bytes), ("independent", &ibytes)] {
        match Trie::new(&b[..]) {
            Err(e) => errs.push((format!("trie-rejects-{}-file", which), e.to_string())),
            Ok(t) => {
                let ab = t.about();
                if [ab.name, ab.copyright, ab.license, ab.version, ab.software] != case.info {
                    errs.push((format!("metadata-readback-{}", which), String::new()));
                }
                for k in case.keys.iter().take(60) {
                    let got: Vec<P> = t.lookup_all_phrases(&to_syllables(k), LookupStrategy::Standard).iter().map(phrase_to_p).collect();
                    if got != case.spec.lookup(k) {
                        errs.push((format!("lookup-differs-{}", which), format!("key {} got {:?} want {:?}", syls_repr(k), got, case.spec.lookup(k))));
                        break;
                    }
                    // a sequence that was not inserted returns nothing
                    let mut ext = k.clone();
                    ext.push(0x7777);
                    if !t.lookup_all_phrases(&to_syllables(&ext), LookupStrategy::Standard).is_empty() {
                        errs.push((format!("absent-key-found-{}", which), syls_repr(&ext)));
                        break;
                    }
                    if !k.is_empty()
                        && !case.spec.map.contains_key(&k[..k.len() - 1])
                        && !t.lookup_all_phrases(&to_syllables(&k[..k.len() - 1]), LookupStrategy::Standard).is_empty()
                    {
                        errs.push((format!("absent-prefix-found-{}", which), syls_repr(&k[..k.len() - 1])));
                        break;
                    }
                    let pk: Vec<u16> = k.iter().map(|&s| if s & 0xfe00 != 0 && s != 0xffff { s & 0xfe00 } else { s }).collect();
                    let got: Vec<P> = t.lookup_all_phrases(&to_syllables(&pk), LookupStrategy::FuzzyPartialPrefix).iter().map(phrase_to_p).collect();
                    if got != case.spec.fuzzy(&pk) {
                        errs.push((format!("fuzzy-differs-{}", which), format!("query {} got {} want {}", syls_repr(&pk), got.len(), case.spec.fuzzy(&pk).len())));
                        break;
                    }
                    // a lookup limited to the first n results returns the first n of the full result, exact and fuzzy
                    // (also one-syllable fuzzy queries: inner nodes without phrases of their own lie among the matches)
                    let mut bad = None;
                    for (q, strat, full) in [
                        (k.clone(), LookupStrategy::Standard, case.spec.lookup(k)),
                        (pk.clone(), LookupStrategy::FuzzyPartialPrefix, case.spec.fuzzy(&pk)),
                        (pk[..1.min(pk.len())].to_vec(), LookupStrategy::FuzzyPartialPrefix, case.spec.fuzzy(&pk[..1.min(pk.len())])),
                    ] {
                        for n in [1usize, 2, 3, 7] {
                            let got: Vec<P> = t.lookup_first_n_phrases(&to_syllables(&q), n, strat).iter().map(phrase_to_p).collect();
                            let want: Vec<P> = full.iter().take(n).cloned().collect();
                            if got != want {
                                bad = Some(format!("first {} of {} ({:?}): got {:?} want {:?}", n, syls_repr(&q), strat, got, want));
                                break;
                            }
                        }
                        if bad.is_some() {
                            break;
                        }
                    }
                    if let Some(d) = bad {
                        errs.push((format!("first-n-not-a-prefix-{}", which), d));
                        break;
                    }
                }
                let mut es: Vec<String> = t
                    .entries()
                    .map(|(s, p)| format!("{}={}", syls_repr(&s.iter().map(|x| x.to_u16()).collect::<Vec<_>>()), p_repr(&phrase_to_p(&p))))
                    .collect();
                es.sort();
                if es != case.spec.entries() {
                    errs.push((format!("entries-differ-{}", which), format!("{} vs {}", es.len(), case.spec.entries().len())));
                }
            }
        }
    }
    errs
}

fn failure_json(oracle: &str, case: &Case, detail: &str) -> String {
    let mut lines = case.lines.clone();
    for l in ["W", "O", "N"] {
        lines.push(l.into());
    }
    format!(
        "{{\"oracle\":{},\"input\":{},\"detail\":{}}}",
        json_str(oracle),
        json_str(&lines.join("\n")),
        json_str(&detail.chars().take(600).collect::<String>())
    )
}

fn run_checks(cases: Vec<Case>, out: &str) {
    let mut failures: Vec<String> = vec![];
    let mut evals = 0usize;
    let mut nontrivial = 0usize;
    for case in &cases {
        let r = catch(AssertUnwindSafe(|| check_case(case)));
        evals += 1;
        if case.spec.map.len() >= 2 {
            nontrivial += 1;
        }
        let errs = match r {
            Ok(e) => e,
            Err(m) => vec![("panic-in-write-or-read".to_string(), m)],
        };
        for (o, d) in errs {
            if failures.len() < 20 {
                failures.push(failure_json(&o, case, &d));
            }
        }
    }
    let js = format!("{{\"evaluations\":{},\"nontrivial\":{},\"failures\":[{}]}}", evals, nontrivial, failures.join(","));
    std::fs::write(out, js).unwrap();
}

fn oracle(tier: &str, out: &str) {
    let thorough = tier == "thorough";
    let mut g = Gen { rng: Rng::new(seed_from_env() ^ 0x0C11_0C11) };
    let sizes: Vec<(usize, usize)> = if thorough {
        vec![(0, 2), (1, 20), (2, 40), (3, 40), (6, 60), (12, 60), (40, 40), (150, 30), (600, 10), (3000, 4), (20000, 2)]
    } else {
        vec![(0, 1), (1, 10), (2, 20), (3, 20), (6, 30), (12, 30), (40, 20), (150, 10), (600, 3), (3000, 1)]
    };
    let mut cases = vec![];
    let mut idx = 0;
    for (n, reps) in sizes {
        for _ in 0..reps {
            let alphabet = *g.rng.pick(&[3usize, 5, 8, 14, 24]);
            let max_len = if g.rng.chance(1, 4) { 11 } else { 5 };
            let with_info = g.rng.chance(2, 3);
            cases.push(gen_case(&mut g, &format!("oracle-{}-{}", n, idx), n, alphabet, with_info, max_len));
            idx += 1;
        }
    }
    run_checks(cases, out);
}

/// the same oracles on the entry sets of a command file (T / I / E lines)
fn check_file(cases_path: &str, out: &str) {
    let mut cases: Vec<Case> = vec![];
    for line in BufReader::new(std::fs::File::open(cases_path).unwrap()).lines() {
        let line = line.unwrap();
        let w: Vec<&str> = line.split(' ').collect();
        match w[0] {
            "T" => cases.push(Case { lines: vec![line.clone()], spec: Spec::default(), info: Default::default(), keys: vec![] }),
            "I" if !cases.is_empty() => {
                let c = cases.last_mut().unwrap();
                for i in 0..5 {
                    c.info[i] = String::from_utf8(unhex(w[i + 1])).unwrap();
                }
                c.lines.push(line.clone());
            }
            "E" if !cases.is_empty() => {
                let c = cases.last_mut().unwrap();
                let k = parse_syls(w[1]);
                let p: P = (unhex(w[2]), w[3].parse().unwrap(), if w[4] == "-" { None } else { Some(w[4].parse().unwrap()) });
                c.spec.insert(&k, &p);
                if !c.keys.contains(&k) {
                    c.keys.push(k);
                }
                c.lines.push(line.clone());
            }
            _ => {}
        }
    }
    cases.retain(|c| c.lines.len() > 1);
    run_checks(cases, out);
}

// ------------------------------------------------------------------ context creation over corrupt files

fn ctxgen(tier: &str, out: &str) {
    let thorough = tier == "thorough";
    let mut g = Gen { rng: Rng::new(seed_from_env() ^ 0xC12) };
    let mut o = BufWriter::new(std::fs::File::create(out).unwrap());
    let corpus = small_corpus();
    let mut n = 0;
    for case in corpus.iter().filter(|c| ["small-siblings", "small-leaf-and-kids", "small-time"].contains(&&c.lines[0][2..])) {
        let bytes = build_bytes(case);
        for role in ["user", "word", "tsi", "dropin"] {
            writeln!(o, "X {} {}", role, hex(&bytes)).unwrap();
            let stride = if thorough { 1 } else if role == "user" { 2 } else { 7 };
            for pos in (0..bytes.len()).step_by(stride) {
                let vals = corruption_values(bytes[pos]);
                let v = *g.rng.pick(&vals);
                let mut b = bytes.clone();
                b[pos] = v;
                writeln!(o, "X {} {}", role, hex(&b)).unwrap();
                n += 1;
            }
            for cut in [0usize, 1, 7, bytes.len() / 2, bytes.len() - 1] {
                writeln!(o, "X {} {}", role, hex(&bytes[..cut])).unwrap();
                n += 1;
            }
        }
    }
    o.flush().unwrap();
    println!("{{\"context_cases\":{}}}", n);
}

fn ctxworker(workdir: &str) {
    use chewing_capi::input::*;
    use chewing_capi::output::*;
    use chewing_capi::setup::*;
    use std::ffi::CString;
    let repo = std::env::var("VERIF_REPO").unwrap_or("/repo".into());
    let stdin = std::io::stdin();
    let stdout = std::io::stdout();
    let mut out = BufWriter::new(stdout.lock());
    // valid system dictionaries
    let a = 0x2e53u16;
    let b = 0x1488u16;
    let mk = |es: &[(&[u16], &str, u32)]| -> Vec<u8> {
        let mut bl = TrieBuilder::new();
        for (k, s, f) in es {
            bl.insert(&to_syllables(k), Phrase::new(*s, *f)).unwrap();
        }
        let mut v = vec![];
        bl.write(&mut v).unwrap();
        v
    };
    let word = mk(&[(&[a], "測", 10), (&[b], "試", 10)]);
    let tsi = mk(&[(&[a, b], "測試", 100)]);
    let mut k = 0usize;
    for line in stdin.lock().lines() {
        let line = line.unwrap();
        let w: Vec<&str> = line.split(' ').collect();
        if w[0] != "X" {
            writeln!(out, "-").unwrap();
            out.flush().unwrap();
            continue;
        }
        let role = w[1];
        let bytes = unhex(w[2]);
        k += 1;
        let dir = format!("{}/ctx-{}", workdir, k % 4);
        let _ = std::fs::remove_dir_all(&dir);
        std::fs::create_dir_all(format!("{}/sys/dictionary.d", dir)).unwrap();
        std::fs::create_dir_all(format!("{}/user", dir)).unwrap();
        std::fs::write(format!("{}/sys/word.dat", dir), if role == "word" { &bytes } else { &word }).unwrap();
        std::fs::write(format!("{}/sys/tsi.dat", dir), if role == "tsi" { &bytes } else { &tsi }).unwrap();
        for f in ["symbols.dat", "swkb.dat"] {
            let _ = std::fs::copy(format!("{}/tests/data/{}", repo, f), format!("{}/sys/{}", dir, f));
        }
        if role == "dropin" {
            std::fs::write(format!("{}/sys/dictionary.d/10-extra.dat", dir), &bytes).unwrap();
        }
        let userpath = format!("{}/user/chewing.dat", dir);
        if role == "user" {
            std::fs::write(&userpath, &bytes).unwrap();
        }
        let sys = CString::new(format!("{}/sys", dir)).unwrap();
        let usr = CString::new(userpath).unwrap();
        let res = unsafe {
            let ctx = chewing_new2(sys.as_ptr(), usr.as_ptr(), None, std::ptr::null_mut());
            if ctx.is_null() {
                "null".to_string()
            } else {
                // use the context: type a reading, look at the buffer, commit
                for key in "hk4g4".bytes() {
                    chewing_handle_Default(ctx, key as i32);
                }
                let _ = chewing_buffer_Check(ctx);
                chewing_handle_Enter(ctx);
                chewing_delete(ctx);
                "ctx".to_string()
            }
        };
        writeln!(out, "X {} {}", role, res).unwrap();
        out.flush().unwrap();
    }
}

fn main() {
    let args: Vec<String> = std::env::args().collect();
    let a: Vec<&str> = args.iter().map(|s| s.as_str()).collect();
    match a[1..] {
        ["gen", tier, part, out] => gen_cases(tier, part, out),
        ["views", cases, out] => run_cases(cases, out, &["worker"], &|t| matches!(t, "T" | "W" | "O" | "Q" | "N")),
        ["worker"] => worker(),
        ["oracle", tier, out] => oracle(tier, out),
        ["check", cases, out] => check_file(cases, out),
        ["ctxgen", tier, out] => ctxgen(tier, out),
        ["ctx", cases, out, workdir] => {
            std::fs::create_dir_all(workdir).unwrap();
            run_cases(cases, out, &["ctxworker", workdir], &|t| t == "X")
        }
        ["ctxworker", workdir] => ctxworker(workdir),
        _ => {
            eprintln!("usage: c11 gen|views|oracle|ctxgen|ctx ...");
            std::process::exit(2);
        }
    }
}
