//! C20: the dictionary compiler (chewing-cli init-database) and dumper (chewing-cli dump).
//!   c20 run <quick|thorough> <cases-out> <impl-out> <oracle.json>
//!        generated sources (well-formed + every single-line corruption by class) x back end x
//!        --csv x --keep-word-freq x --skip-invalid through the REAL chewing-cli binary built from the
//!        working tree; writes the case file for the model driver, the implementation results, and
//!        evaluates the property oracles on the implementation alone
//!   c20 replay <cases-file-with-one-R-line>
//! The binary is found through VERIF_CLI (default /verif/_build/cargo/release/chewing-cli).
use std::collections::BTreeMap;
use std::fmt::Write as _;
use std::io::{BufWriter, Write};
use std::path::{Path, PathBuf};
use std::process::Command;
use vharness::util::{json_str, seed_from_env, Rng};

fn cli_path() -> String {
    std::env::var("VERIF_CLI").unwrap_or_else(|_| "/verif/_build/cargo/release/chewing-cli".to_string())
}

// ------------------------------------------------------------------ records and source lines

#[derive(Clone, Debug)]
struct Rec {
    phrase: String,
    freq: u64,
    syls: Vec<String>,
}

const INITIALS: &[&str] = &["", "ㄅ", "ㄆ", "ㄇ", "ㄈ", "ㄉ", "ㄊ", "ㄋ", "ㄌ", "ㄍ", "ㄎ", "ㄏ", "ㄐ", "ㄑ", "ㄒ", "ㄓ", "ㄔ", "ㄕ", "ㄖ", "ㄗ", "ㄘ", "ㄙ"];
const MEDIALS: &[&str] = &["", "ㄧ", "ㄨ", "ㄩ"];
const RIMES: &[&str] = &["", "ㄚ", "ㄛ", "ㄜ", "ㄝ", "ㄞ", "ㄟ", "ㄠ", "ㄡ", "ㄢ", "ㄣ", "ㄤ", "ㄥ", "ㄦ"];
const TONES: &[&str] = &["", "˙", "ˊ", "ˇ", "ˋ", "ˉ"];

fn gen_syl(rng: &mut Rng) -> String {
    loop {
        let s = format!("{}{}{}{}", rng.pick(INITIALS), rng.pick(MEDIALS), rng.pick(RIMES), rng.pick(TONES));
        if !s.is_empty() {
            return s;
        }
    }
}

fn gen_char(rng: &mut Rng) -> char {
    loop {
        let c = match rng.below(12) {
            0 => rng.range(0x41, 0x7a) as u32,
            1 => rng.range(0xc0, 0x24f) as u32,
            2 => rng.range(0x3105, 0x3129) as u32, // bopomofo letters are legal phrase characters
            3 => rng.range(0x20000, 0x2a6df) as u32,
            4 => rng.range(0x1f300, 0x1f5ff) as u32,
            _ => rng.range(0x4e00, 0x9fff) as u32,
        };
        if let Some(ch) = char::from_u32(c) {
            if ch.is_alphanumeric() || c >= 0x1f300 {
                return ch;
            }
        }
    }
}

fn gen_freq(rng: &mut Rng) -> u64 {
    match rng.below(10) {
        0 => 0,
        1 => 1,
        2 => u32::MAX as u64,
        3 => 65536,
        _ => rng.below(200000),
    }
}

fn gen_rec(rng: &mut Rng, small_alphabet: bool) -> Rec {
    let len = match rng.below(8) {
        0..=2 => 1,
        3 => 2,
        4 => 11,
        _ => rng.range(2, 6) as usize,
    };
    let mut phrase: String = (0..len)
        .map(|_| if small_alphabet { *rng.pick(&['測', '試', '策', '士', '冊', '市']) } else { gen_char(rng) })
        .collect();
    // a '#' inside the phrase (not at its start, where it would read as a comment) is an ordinary character
    if len >= 2 && rng.chance(1, 8) {
        let at = 1 + rng.below(len as u64 - 1) as usize;
        phrase = phrase.chars().enumerate().map(|(i, c)| if i == at { '#' } else { c }).collect();
    }
    let syls = (0..len)
        .map(|_| if small_alphabet { rng.pick(&["ㄘㄜˋ", "ㄕˋ", "ㄙ", "ㄧㄠˋ"]).to_string() } else { gen_syl(rng) })
        .collect();
    Rec { phrase, freq: gen_freq(rng), syls }
}

/// a well-formed source line in one of the styles the tool documents
fn fmt_line(rng: &mut Rng, r: &Rec, csv: bool) -> String {
    let comment = if rng.chance(1, 4) { " # not official 備註" } else { "" };
    if csv {
        match rng.below(4) {
            0 => format!("\"{}\",{},\"{}{}\"", r.phrase, r.freq, r.syls.join(" "), comment),
            1 => format!("{},{},{}{}", r.phrase, r.freq, r.syls.join("\u{3000}"), comment),
            2 => format!("{},\"{}\",{}{}", r.phrase, r.freq, r.syls.join(" "), comment),
            _ => format!("{},{},{}{}", r.phrase, r.freq, r.syls.join(" "), comment),
        }
    } else {
        match rng.below(4) {
            0 => format!("{}     {} {}{}", r.phrase, r.freq, r.syls.join(" "), comment),
            1 => format!("{} {} {}  {}", r.phrase, r.freq, r.syls.join("  "), comment.trim_start()),
            _ => format!("{} {} {}{}", r.phrase, r.freq, r.syls.join(" "), comment),
        }
    }
}

const CLASSES: &[&str] = &[
    "missing-syllables", "missing-freq", "bad-number-suffix", "negative-number", "number-overflow", "fullwidth-digits",
    "plus-number", "unknown-symbol", "cjk-in-syllable", "repeated-component", "out-of-order", "tone-first", "stray-comma",
    "space-in-phrase", "leading-delimiter", "unbalanced-quote", "tab-separated", "empty-line", "only-delimiters",
    "comment-line", "comment-after-freq", "ideographic-space", "wrong-delimiter", "trailing-delimiter", "first-tone-mark",
];

/// one corrupted variant of a well-formed record line
fn corrupt_line(class: &str, r: &Rec, csv: bool) -> String {
    let d = if csv { "," } else { " " };
    let syl = r.syls.join(" ");
    match class {
        "missing-syllables" => format!("{}{}{}", r.phrase, d, r.freq),
        "missing-freq" => format!("{}{}{}", r.phrase, d, syl),
        "bad-number-suffix" => format!("{}{}{}x{}{}", r.phrase, d, r.freq, d, syl),
        "negative-number" => format!("{}{}-{}{}{}", r.phrase, d, r.freq, d, syl),
        "number-overflow" => format!("{}{}4294967296{}{}", r.phrase, d, d, syl),
        "fullwidth-digits" => format!("{}{}１２{}{}", r.phrase, d, d, syl),
        "plus-number" => format!("{}{}+{}{}{}", r.phrase, d, r.freq, d, syl),
        "unknown-symbol" => format!("{}{}{}{}{}q", r.phrase, d, r.freq, d, syl),
        "cjk-in-syllable" => format!("{}{}{}{}測 {}", r.phrase, d, r.freq, d, syl),
        "repeated-component" => format!("{}{}{}{}ㄘㄘㄜ {}", r.phrase, d, r.freq, d, syl),
        "out-of-order" => format!("{}{}{}{}ㄜㄘ {}", r.phrase, d, r.freq, d, syl),
        "tone-first" => format!("{}{}{}{}ˋㄕ {}", r.phrase, d, r.freq, d, syl),
        "stray-comma" => format!("{}{}{}{},{}", r.phrase, d, r.freq, d, syl.replace(' ', ",")),
        "space-in-phrase" => format!("{} 又{}{}{}{}", r.phrase, d, r.freq, d, syl),
        "leading-delimiter" => format!("{}{}{}{}{}{}{}", d, d, r.phrase, d, r.freq, d, syl),
        "unbalanced-quote" => format!("\"{}{}{}{}{}\"\"", r.phrase, d, r.freq, d, syl),
        "tab-separated" => format!("{}\t{}\t{}", r.phrase, r.freq, syl),
        "empty-line" => String::new(),
        "only-delimiters" => format!("{}{}{}", d, d, d),
        "comment-line" => "# 這是註解 comment".to_string(),
        "comment-after-freq" => format!("{}{}{}{}# {}", r.phrase, d, r.freq, d, syl),
        "ideographic-space" => format!("{}\u{3000}{}\u{3000}{}", r.phrase, r.freq, syl),
        "wrong-delimiter" => {
            if csv {
                format!("{} {} {}", r.phrase, r.freq, syl)
            } else {
                format!("{},{},{}", r.phrase, r.freq, syl)
            }
        }
        "trailing-delimiter" => format!("{}{}{}{}{}{}{}", r.phrase, d, r.freq, d, syl, d, d),
        "first-tone-mark" => format!("{}{}{}{}ㄅˉ {}", r.phrase, d, r.freq, d, syl),
        _ => unreachable!(),
    }
}

/// classes that are malformed whatever the flags (the oracle's own, model-independent judgement):
/// the frequency of a multi-character phrase is not a u32, or a syllable token is not a syllable
fn surely_malformed(class: &str, r: &Rec) -> bool {
    let multi = r.phrase.chars().count() != 1;
    match class {
        "bad-number-suffix" | "negative-number" | "number-overflow" | "fullwidth-digits" => multi,
        "unknown-symbol" | "cjk-in-syllable" | "repeated-component" | "out-of-order" | "tone-first" => true,
        _ => false,
    }
}

// ------------------------------------------------------------------ running the tool

#[derive(Clone, Copy, Debug)]
struct Cfg {
    sqlite: bool,
    csv: bool,
    keep: bool,
    skip: bool,
}

struct Outcome {
    exit: i32,
    errs: Vec<u64>,
    out_exists: bool,
    dump: Option<Vec<String>>, // sorted lines (header included in csv mode)
    dump_exit: i32,
}

static COUNTER: std::sync::atomic::AtomicU64 = std::sync::atomic::AtomicU64::new(0);

fn scratch() -> PathBuf {
    let base = std::env::var("VERIF_SCRATCH").unwrap_or_else(|_| "/verif/_build/work/c20-scratch".to_string());
    let n = COUNTER.fetch_add(1, std::sync::atomic::Ordering::SeqCst);
    let d = PathBuf::from(base).join(format!("p{}-{}", std::process::id(), n));
    let _ = std::fs::remove_dir_all(&d);
    std::fs::create_dir_all(&d).expect("scratch");
    d
}

fn dump(out: &Path, csv: bool) -> (i32, Vec<String>) {
    let mut c = Command::new(cli_path());
    c.arg("dump");
    if csv {
        c.arg("--csv");
    }
    c.arg(out);
    let o = c.output().expect("spawn chewing-cli dump");
    let mut lines: Vec<String> = String::from_utf8_lossy(&o.stdout).split('\n').map(|s| s.to_string()).collect();
    if lines.last().map(|l| l.is_empty()).unwrap_or(false) {
        lines.pop();
    }
    lines.sort();
    (o.status.code().unwrap_or(-1), lines)
}

fn compile(dir: &Path, src: &Path, name: &str, cfg: Cfg) -> (i32, Vec<u64>, PathBuf) {
    let out = dir.join(format!("{}.{}", name, if cfg.sqlite { "sqlite3" } else { "dat" }));
    let mut c = Command::new(cli_path());
    c.arg("init-database").arg("-t").arg(if cfg.sqlite { "sqlite" } else { "trie" });
    if cfg.csv {
        c.arg("--csv");
    }
    if cfg.keep {
        c.arg("--keep-word-freq");
    }
    if cfg.skip {
        c.arg("--skip-invalid");
    }
    c.arg(src).arg(&out);
    let o = c.output().expect("spawn chewing-cli init-database");
    let mut errs = vec![];
    // a report is any stderr line that names "line <number>" (wording beyond that is not fixed by the property)
    for l in String::from_utf8_lossy(&o.stderr).lines() {
        if let Some(i) = l.find("line ") {
            let digits: String = l[i + 5..].chars().take_while(|c| c.is_ascii_digit()).collect();
            if let Ok(n) = digits.parse::<u64>() {
                errs.push(n);
            }
        }
    }
    (o.status.code().unwrap_or(-1), errs, out)
}

fn run_tool(text: &str, cfg: Cfg) -> (Outcome, Option<Outcome>, Vec<String>) {
    let dir = scratch();
    let src = dir.join("in.src");
    std::fs::write(&src, text).unwrap();
    let (exit, errs, out) = compile(&dir, &src, "out", cfg);
    let out_exists = out.exists();
    let mut first = Outcome { exit, errs, out_exists, dump: None, dump_exit: 0 };
    let mut second = None;
    let mut raw_dump: Vec<String> = vec![];
    if out_exists {
        let (de, lines) = dump(&out, cfg.csv);
        first.dump_exit = de;
        // compile the dump again with the same flags and dump that
        let src2 = dir.join("dump.src");
        let mut t = lines_unsorted_for_recompile(&out, cfg.csv);
        raw_dump = if t.is_empty() { vec![] } else { t.split('\n').map(|x| x.to_string()).collect() };
        if !t.is_empty() {
            t.push('\n');
        }
        std::fs::write(&src2, t).unwrap();
        let (e2, errs2, out2) = compile(&dir, &src2, "out2", cfg);
        let o2_exists = out2.exists();
        let mut s = Outcome { exit: e2, errs: errs2, out_exists: o2_exists, dump: None, dump_exit: 0 };
        if o2_exists {
            let (de2, l2) = dump(&out2, cfg.csv);
            s.dump = Some(l2);
            s.dump_exit = de2;
        }
        second = Some(s);
        first.dump = Some(lines);
    }
    let _ = std::fs::remove_dir_all(&dir);
    (first, second, raw_dump)
}

/// the dump exactly as the tool prints it (order kept), for feeding it back
fn lines_unsorted_for_recompile(out: &Path, csv: bool) -> String {
    let mut c = Command::new(cli_path());
    c.arg("dump");
    if csv {
        c.arg("--csv");
    }
    c.arg(out);
    let o = c.output().expect("spawn dump");
    String::from_utf8_lossy(&o.stdout).trim_end_matches('\n').to_string()
}

// ------------------------------------------------------------------ case encoding

fn cps(s: &str) -> String {
    if s.is_empty() {
        return "-".to_string();
    }
    s.chars().map(|c| (c as u32).to_string()).collect::<Vec<_>>().join(",")
}

fn fmt_outcome(o: &Outcome) -> String {
    let mut s = format!(
        "exit={} errs={} out={}",
        o.exit,
        if o.errs.is_empty() { "-".to_string() } else { o.errs.iter().map(|x| x.to_string()).collect::<Vec<_>>().join(",") },
        o.out_exists as u8
    );
    if let Some(d) = &o.dump {
        let _ = write!(s, " dump={}:", d.len());
        for l in d {
            s.push(' ');
            s.push_str(&cps(l));
        }
    }
    s
}

struct Source {
    lines: Vec<String>,
    /// Some(records in order) when every line is a well-formed record line (after the CSV header)
    recs: Option<Vec<Rec>>,
    /// (line index, class, record) of the corrupted line, if any
    corrupted: Option<(usize, String, Rec)>,
    /// for a source with one corrupted line: the records of all the OTHER lines, in order
    others: Option<Vec<Rec>>,
    csv: bool,
    kind: String,
}

fn gen_sources(tier: &str) -> Vec<Source> {
    let seed = seed_from_env();
    let mut out = vec![];
    let (nsrc, maxlines) = if tier == "thorough" { (60, 5000) } else { (14, 100) };
    for i in 0..nsrc {
        let mut rng = Rng::new(seed.wrapping_mul(2862933555777941757).wrapping_add(0xc20).wrapping_add(i as u64));
        let csv = i % 2 == 1;
        let n = match i % 7 {
            0 => 1,
            6 => maxlines,
            _ => rng.range(2, if i % 7 == 5 { maxlines as i64 / 4 } else { 25 }) as usize,
        };
        let small = i % 3 == 0;
        let mut recs: Vec<Rec> = vec![];
        for _ in 0..n {
            if !recs.is_empty() && rng.chance(1, 6) {
                // duplicate phrase+reading with another frequency
                let mut r = recs[rng.below(recs.len() as u64) as usize].clone();
                r.freq = gen_freq(&mut rng);
                recs.push(r);
            } else {
                recs.push(gen_rec(&mut rng, small));
            }
        }
        let mut lines = vec![];
        if csv {
            lines.push("詞(phrase),詞頻(freq),注音(bopomofo)".to_string());
        }
        for r in &recs {
            lines.push(fmt_line(&mut rng, r, csv));
        }
        out.push(Source { lines, recs: Some(recs), corrupted: None, others: None, csv, kind: "well-formed".to_string() });
    }
    // every single-line corruption by class of small base sources
    let nbase = if tier == "thorough" { 6 } else { 2 };
    for b in 0..nbase {
        let mut rng = Rng::new(seed.wrapping_mul(31).wrapping_add(0xbad).wrapping_add(b as u64));
        let csv = b % 2 == 1;
        let mut recs: Vec<Rec> = (0..5).map(|_| gen_rec(&mut rng, b % 3 == 0)).collect();
        recs[0] = Rec { phrase: "測".into(), freq: 77, syls: vec!["ㄘㄜˋ".into()] };
        recs[3] = Rec { phrase: "測試".into(), freq: 9318, syls: vec!["ㄘㄜˋ".into(), "ㄕˋ".into()] };
        let mut base = vec![];
        if csv {
            base.push("詞(phrase),詞頻(freq),注音(bopomofo)".to_string());
        }
        for r in &recs {
            base.push(format!("{}{}{}{}{}", r.phrase, if csv { "," } else { " " }, r.freq, if csv { "," } else { " " }, r.syls.join(" ")));
        }
        let off = if csv { 1 } else { 0 };
        for (li, r) in recs.iter().enumerate() {
            for class in CLASSES {
                let mut lines = base.clone();
                lines[li + off] = corrupt_line(class, r, csv);
                let others: Vec<Rec> = recs.iter().enumerate().filter(|(k, _)| *k != li).map(|(_, x)| x.clone()).collect();
                out.push(Source { lines, recs: None, corrupted: Some((li + off, class.to_string(), r.clone())), others: Some(others), csv, kind: class.to_string() });
            }
        }
        // two corrupted lines at once, first and last
        let mut lines = base.clone();
        lines[off] = corrupt_line("unknown-symbol", &recs[0], csv);
        let last = lines.len() - 1;
        lines[last] = corrupt_line("number-overflow", &recs[4], csv);
        out.push(Source { lines, recs: None, corrupted: None, others: None, csv, kind: "two-errors".to_string() });
    }
    out
}

fn configs(src: &Source, idx: usize) -> Vec<Cfg> {
    let mut v = vec![];
    for sqlite in [false, true] {
        for keep in [false, true] {
            for skip in [false, true] {
                // well-formed sources: all 8; corrupted: all 8 for every 3rd, else trie/sqlite alternate
                if src.recs.is_none() && idx % 3 != 0 && (sqlite != (idx % 2 == 0) || keep != (idx % 4 < 2)) {
                    continue;
                }
                v.push(Cfg { sqlite, csv: src.csv, keep, skip });
            }
        }
    }
    // the other input mode too (a CSV file read without --csv and vice versa) for small sources
    if src.lines.len() <= 30 && idx % 5 == 0 {
        v.push(Cfg { sqlite: false, csv: !src.csv, keep: false, skip: true });
    }
    v
}

/// what dump must print for a well-formed source: last record per key, single-char freq zeroed unless keep
fn expected_dump(recs: &[Rec], cfg: Cfg) -> Vec<String> {
    let mut m: BTreeMap<(Vec<String>, String), u64> = BTreeMap::new();
    for r in recs {
        let f = if r.phrase.chars().count() == 1 && !cfg.keep { 0 } else { r.freq };
        m.insert((r.syls.clone(), r.phrase.clone()), f);
    }
    let mut v: Vec<String> = m
        .iter()
        .map(|((s, p), f)| if cfg.csv { format!("{},{},{}", p, f, s.join("\u{3000}")) } else { format!("{} {} {}", p, f, s.join(" ")) })
        .collect();
    if cfg.csv {
        v.push("詞(phrase),詞頻(freq),注音(bopomofo)".to_string());
    }
    v.sort();
    v
}

fn run(tier: &str, cases: &str, impl_out: &str, oracle_out: &str) -> i32 {
    let sources = gen_sources(tier);
    let mut cw = BufWriter::new(std::fs::File::create(cases).expect("cases"));
    let mut iw = BufWriter::new(std::fs::File::create(impl_out).expect("impl"));
    let mut failures: Vec<(String, String, String)> = vec![];
    let mut evals = 0usize;
    let mut kinds: BTreeMap<String, usize> = BTreeMap::new();
    let mut sizes: BTreeMap<usize, usize> = BTreeMap::new();
    let mut nontrivial = 0usize;
    let mut id = 0usize;
    for (si, src) in sources.iter().enumerate() {
        *kinds.entry(if src.recs.is_some() { "well-formed".into() } else { src.kind.clone() }).or_insert(0) += 1;
        let bucket = match src.lines.len() {
            0..=10 => 10,
            11..=100 => 100,
            101..=1000 => 1000,
            _ => 5000,
        };
        *sizes.entry(bucket).or_insert(0) += 1;
        let text = src.lines.join("\n") + "\n";
        for cfg in configs(src, si) {
            let case = format!(
                "R {} {} {} {} {} {}",
                id,
                cfg.csv as u8,
                cfg.keep as u8,
                cfg.skip as u8,
                src.lines.len(),
                src.lines.iter().map(|l| cps(l)).collect::<Vec<_>>().join(" ")
            );
            let (first, second, raw_dump) = run_tool(&text, cfg);
            writeln!(cw, "{} D {} {}", case, raw_dump.len(), raw_dump.iter().map(|l| cps(l)).collect::<Vec<_>>().join(" ")).unwrap();
            evals += 1;
            write!(iw, "R {} {}", id, fmt_outcome(&first)).unwrap();
            if let Some(s) = &second {
                write!(iw, " | again {}", fmt_outcome(s)).unwrap();
            }
            writeln!(iw).unwrap();
            // ---- property oracles on the implementation ----
            let tag = format!("{}{}{}{}", if cfg.sqlite { "sqlite" } else { "trie" }, if cfg.csv { "+csv" } else { "" }, if cfg.keep { "+keep" } else { "" }, if cfg.skip { "+skip" } else { "" });
            let mut fail = |o: &str, d: String| failures.push((o.to_string(), case.chars().take(6000).collect(), format!("[{}] {}", tag, d)));
            if let Some(recs) = &src.recs {
                if cfg.csv == src.csv {
                    nontrivial += 1;
                    if first.exit != 0 || !first.errs.is_empty() {
                        fail("wellformed-rejected", format!("exit {} errors at lines {:?}", first.exit, first.errs));
                    } else if first.dump_exit != 0 {
                        fail("dump-failed", format!("dump exit {}", first.dump_exit));
                    } else {
                        let want = expected_dump(recs, cfg);
                        let got = first.dump.clone().unwrap_or_default();
                        if got != want {
                            let diff = want.iter().find(|l| !got.contains(l)).cloned().or_else(|| got.iter().find(|l| !want.contains(l)).cloned()).unwrap_or_default();
                            fail("dump-not-inverse", format!("{} lines dumped, {} expected; first differing record: {}", got.len(), want.len(), diff));
                        }
                        match &second {
                            Some(s) if s.exit == 0 && s.dump == first.dump => {}
                            Some(s) => fail("recompile-not-equivalent", format!("second compile exit {} errs {:?}, dump equal: {}", s.exit, s.errs, s.dump == first.dump)),
                            None => fail("recompile-not-equivalent", "no second compile".to_string()),
                        }
                    }
                }
            }
            if let Some((li, class, r)) = &src.corrupted {
                if cfg.csv == src.csv && surely_malformed(class, r) {
                    nontrivial += 1;
                    if !first.errs.contains(&(*li as u64 + 1)) {
                        fail("malformed-line-not-reported", format!("class {} at line {}: reported {:?}", class, li + 1, first.errs));
                    }
                    if !cfg.skip && (first.exit != 1 || first.out_exists) {
                        fail("malformed-produces-output", format!("class {} at line {}: exit {} output file {}", class, li + 1, first.exit, first.out_exists));
                    }
                    if cfg.skip && (first.exit != 0 || !first.out_exists) {
                        fail("skip-invalid-no-output", format!("class {}: exit {} output file {}", class, first.exit, first.out_exists));
                    }
                    // with --skip-invalid the well-formed records around the skipped line are compiled as written
                    if let (true, 0, Some(others), Some(got)) = (cfg.skip, first.exit, &src.others, &first.dump) {
                        let want = expected_dump(others, cfg);
                        if first.dump_exit == 0 && *got != want {
                            let diff = want.iter().find(|l| !got.contains(l)).cloned().or_else(|| got.iter().find(|l| !want.contains(l)).cloned()).unwrap_or_default();
                            fail("skipped-line-changes-other-records", format!("class {} at line {}: {} lines dumped, {} expected; first differing record: {}", class, li + 1, got.len(), want.len(), diff));
                        }
                    }
                }
            }
            id += 1;
        }
    }
    cw.flush().unwrap();
    iw.flush().unwrap();
    let mut j = String::new();
    let _ = write!(
        j,
        "{{\"evaluations\":{},\"sources\":{},\"nontrivial\":{},\"kinds\":{{{}}},\"lines_histogram\":{{{}}},\"failures\":[",
        evals,
        sources.len(),
        nontrivial,
        kinds.iter().map(|(k, v)| format!("{}:{}", json_str(k), v)).collect::<Vec<_>>().join(","),
        sizes.iter().map(|(k, v)| format!("\"<={}\":{}", k, v)).collect::<Vec<_>>().join(",")
    );
    for (i, (o, case, d)) in failures.iter().take(20).enumerate() {
        if i > 0 {
            j.push(',');
        }
        let _ = write!(j, "{{\"oracle\":{},\"case\":{},\"detail\":{}}}", json_str(o), json_str(case), json_str(d));
    }
    j.push_str("]}");
    std::fs::write(oracle_out, j).unwrap();
    if failures.is_empty() { 0 } else { 1 }
}

fn uncps(s: &str) -> String {
    if s == "-" {
        return String::new();
    }
    s.split(',').map(|x| char::from_u32(x.parse().unwrap()).unwrap()).collect()
}

/// re-run one R case line on both back ends; prints the outcomes
fn replay(path: &str) -> i32 {
    let txt = std::fs::read_to_string(path).expect("read case");
    let mut rc = 0;
    for line in txt.lines() {
        let t: Vec<&str> = line.split(' ').collect();
        if t.first() != Some(&"R") {
            continue;
        }
        let csv = t[2] == "1";
        let keep = t[3] == "1";
        let skip = t[4] == "1";
        let n: usize = t[5].parse().unwrap();
        let lines: Vec<String> = (0..n).map(|i| uncps(t[6 + i])).collect();
        let text = lines.join("\n") + "\n";
        for sqlite in [false, true] {
            let (first, second, _) = run_tool(&text, Cfg { sqlite, csv, keep, skip });
            println!("{} {}", if sqlite { "sqlite" } else { "trie" }, fmt_outcome(&first));
            if let Some(s) = second {
                println!("   again {}", fmt_outcome(&s));
            }
            if first.exit != 0 {
                rc = 1;
            }
        }
    }
    rc
}

fn main() {
    let args: Vec<String> = std::env::args().skip(1).collect();
    let rc = match args.first().map(|s| s.as_str()) {
        Some("run") => run(&args[1], &args[2], &args[3], &args[4]),
        Some("replay") => replay(&args[1]),
        _ => {
            eprintln!("usage: c20 run <tier> <cases> <impl> <oracle.json> | replay <case-file>");
            2
        }
    };
    std::process::exit(rc);
}
