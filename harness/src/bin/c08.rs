//! C08: committed choices are learned, persist, and eventually become the default.
//!   c08 run <tier> <out.json>
//! Scenarios on the real Editor with a FILE-BACKED user dictionary (so that close + reopen is real):
//! a key of 1..4 syllables with homophonous phrases (X at f0, others up to m < 1,000,000; X in the
//! system dictionary, only in the user dictionary, or nowhere), every syllable with its own words.
//! One repetition = type the syllables, open the list on the whole key, choose X, commit (Enter).
//! After every repetition: X's user frequency (vs estimate(pf, pf, max) recomputed here AND handed to the
//! Coq model as a case), X among the candidates, the conversion of the bare syllables; after
//! repetitions 1 and the last: drop the editor, reopen the file with an independent TrieBuf, compare.
//! A twin run with learning disabled must leave the user dictionary untouched.
use chewing::conversion::ChewingEngine;
use chewing::dictionary::{Dictionary, Layered, LookupStrategy, Phrase, TrieBuf};
use chewing::editor::keyboard::{KeyboardLayout, Qwerty};
use chewing::editor::{AbbrevTable, BasicEditor, Editor, EditorOptions, LaxUserFreqEstimate, SymbolSelector};
use chewing::zhuyin::Syllable;
use std::fmt::Write as _;
use std::path::{Path, PathBuf};
use vharness::util::{Rng, json_str, seed_from_env};

const READ: [(&str, &str); 10] = [
    ("hk4", "ㄘㄜˋ"),
    ("g4", "ㄕˋ"),
    ("5j/ ", "ㄓㄨㄥ"),
    ("jp6", "ㄨㄣˊ"),
    ("su3", "ㄋㄧˇ"),
    ("cl3", "ㄏㄠˇ"),
    ("ji3", "ㄨㄛˇ"),
    ("2k7", "ㄉㄜ˙"),
    ("xu.6", "ㄌㄧㄡˊ"),
    ("ul4", "ㄧㄠˋ"),
];
const MAX_USER_FREQ: u64 = 99_999_999;

fn cjk(rng: &mut Rng) -> char {
    char::from_u32(0x4e00 + rng.below(400) as u32).unwrap()
}

/// the specification of LaxUserFreqEstimate::estimate as learn_phrase calls it (orig = the phrase's own frequency)
fn expected_estimate(pf: u64, mf: u64) -> u64 {
    let base = (mf - pf) / 5 + 1;
    let delta = if pf >= mf { base.min(10) } else { base.max(10) };
    (pf + delta).min(MAX_USER_FREQ)
}

struct Scn {
    key_idx: Vec<usize>,
    x: String,
    others: Vec<(String, u32)>,
    x_sys: Option<u32>,
    x_user: Option<u32>,
    words: Vec<(usize, String, u32)>,
    /// the estimator's clock at start-up: a young profile, or one whose entries were last used long ago
    clock: u64,
}

fn key_of(s: &Scn) -> Vec<Syllable> {
    s.key_idx.iter().map(|i| READ[*i].1.parse().unwrap()).collect()
}

fn build(s: &Scn, user_path: &Path, learning: bool) -> Editor {
    let mut sys = TrieBuf::new_in_memory();
    let k = key_of(s);
    if let Some(f) = s.x_sys {
        let _ = sys.as_dict_mut().unwrap().add_phrase(&k, Phrase::new(s.x.as_str(), f));
    }
    for (t, f) in &s.others {
        let _ = sys.as_dict_mut().unwrap().add_phrase(&k, Phrase::new(t.as_str(), *f));
    }
    for (i, t, f) in &s.words {
        let syl: Syllable = READ[*i].1.parse().unwrap();
        let _ = sys.as_dict_mut().unwrap().add_phrase(&[syl], Phrase::new(t.as_str(), *f));
    }
    let usr = TrieBuf::open(user_path.to_path_buf()).expect("open user dictionary");
    let dict = Layered::new(vec![Box::new(sys)], Box::new(usr));
    let sym = SymbolSelector::new(std::io::Cursor::new(String::new())).unwrap();
    let mut ed = Editor::new(Box::new(ChewingEngine::new()), dict, LaxUserFreqEstimate::new(s.clock), AbbrevTable::new(), sym);
    let mut o: EditorOptions = ed.editor_options();
    o.disable_auto_learn_phrase = !learning;
    o.auto_shift_cursor = false;
    ed.set_editor_options(o);
    ed
}

fn type_key(ed: &mut Editor, s: &Scn) {
    for i in &s.key_idx {
        for ch in READ[*i].0.bytes() {
            ed.process_keyevent(Qwerty.map_ascii(ch));
        }
    }
}

fn user_entries(path: &Path) -> Vec<(Vec<Syllable>, String, u32)> {
    match TrieBuf::open(path.to_path_buf()) {
        Ok(t) => {
            let mut v: Vec<_> = t.entries().map(|(k, p)| (k, p.as_str().to_string(), p.freq())).collect();
            v.sort();
            v
        }
        Err(_) => vec![],
    }
}

#[derive(Default)]
struct Out {
    fails: Vec<(String, String, String)>,
    cases: Vec<(u64, u64, u64)>,
    scenarios: usize,
    repetitions: usize,
    reopen_checks: usize,
    default_after: std::collections::BTreeMap<usize, usize>,
    never_default: usize,
    by_len: [usize; 5],
}

fn describe(s: &Scn) -> String {
    format!(
        "clock={} key={} X={} x_sys={:?} x_user={:?} others={:?} words={:?}",
        s.clock,
        s.key_idx.iter().map(|i| READ[*i].1).collect::<Vec<_>>().join(" "),
        s.x,
        s.x_sys,
        s.x_user,
        s.others,
        s.words.iter().map(|(i, t, f)| format!("{}:{}:{}", READ[*i].1, t, f)).collect::<Vec<_>>()
    )
}

fn scenario(rng: &mut Rng, n: usize, dir: &Path, out: &mut Out, reps: usize) {
    let len = 1 + rng.below(4) as usize;
    let key_idx: Vec<usize> = (0..len).map(|_| rng.below(READ.len() as u64) as usize).collect();
    let x: String = (0..len).map(|_| cjk(rng)).collect();
    let big = |rng: &mut Rng| -> u32 {
        match rng.below(4) {
            0 => rng.below(50) as u32,
            1 => rng.below(5000) as u32,
            2 => rng.below(1_000_000) as u32,
            _ => 999_999 - rng.below(10) as u32,
        }
    };
    let nother = 1 + rng.below(3) as usize;
    let mut others = vec![];
    while others.len() < nother {
        let t: String = (0..len).map(|_| cjk(rng)).collect();
        if t != x && !others.iter().any(|(o, _)| *o == t) {
            others.push((t, big(rng)));
        }
    }
    let m = others.iter().map(|(_, f)| *f).max().unwrap();
    let f0 = if rng.chance(3, 4) { rng.below(m as u64 + 1) as u32 } else { big(rng) };
    let (x_sys, x_user) = match rng.below(4) {
        0 => (None, None),
        1 => (None, Some(f0)),
        _ => (Some(f0), None),
    };
    let mut words = vec![];
    let mut seen = std::collections::BTreeSet::new();
    for i in &key_idx {
        if seen.insert(*i) {
            for _ in 0..(1 + rng.below(2)) {
                let t = cjk(rng).to_string();
                if len > 1 || t != x {
                    words.push((*i, t, big(rng)));
                }
            }
        }
    }
    if len == 1 {
        words.retain(|(_, t, _)| *t != x && !others.iter().any(|(o, _)| o == t));
    }
    let clock = *rng.pick(&[0u64, 0, 17, 4_500, 60_000, 1_000_000]);
    let s = Scn { key_idx, x, others, x_sys, x_user, words, clock };
    let desc = describe(&s);
    out.scenarios += 1;
    out.by_len[len] += 1;
    let path: PathBuf = dir.join(format!("user-{}.dat", n));
    let _ = std::fs::remove_file(&path);
    let k = key_of(&s);
    // initial user entry
    if let Some(f) = s.x_user {
        let mut t = TrieBuf::open(path.clone()).unwrap();
        let _ = t.as_dict_mut().unwrap().update_phrase(&k, Phrase::new(s.x.as_str(), f), f, 0);
        let _ = t.as_dict_mut().unwrap().flush();
        drop(t);
    }
    // ---- learning disabled: nothing changes
    {
        let before = user_entries(&path);
        let mut ed = build(&s, &path, false);
        type_key(&mut ed, &s);
        ed.process_keyevent(Qwerty.map_ascii(b'\n'));
        let _ = ed.commit();
        drop(ed);
        let after = user_entries(&path);
        if before != after {
            out.fails.push(("learned-although-disabled".into(), format!("{} before={:?} after={:?}", desc, before, after), desc.clone()));
        }
    }
    // ---- repetitions
    let mut ed = build(&s, &path, true);
    let mut became_default: Option<usize> = None;
    for rep in 1..=reps {
        out.repetitions += 1;
        // what learn_phrase will see
        let all: Vec<(String, u32)> = {
            let l: Vec<Phrase> = ed.user_dict().lookup_all_phrases(&k, LookupStrategy::Standard);
            // the layered view: system phrases merged with the user's (maximal frequency)
            let mut v: Vec<(String, u32)> = vec![];
            if let Some(f) = s.x_sys {
                v.push((s.x.clone(), f));
            }
            for (t, f) in &s.others {
                v.push((t.clone(), *f));
            }
            if len == 1 {
                // a one-syllable key: the syllable's own words are homophones of X too
                for (i, t, f) in &s.words {
                    if *i == s.key_idx[0] && !v.iter().any(|(o, _)| o == t) {
                        v.push((t.clone(), *f));
                    }
                }
            }
            for p in l {
                match v.iter_mut().find(|(t, _)| t == p.as_str()) {
                    Some(e) => e.1 = e.1.max(p.freq()),
                    None => v.push((p.as_str().to_string(), p.freq())),
                }
            }
            v
        };
        let pf = all.iter().find(|(t, _)| *t == s.x).map(|(_, f)| *f as u64);
        let mf = all.iter().map(|(_, f)| *f as u64).max().unwrap_or(0);
        type_key(&mut ed, &s);
        if ed.len() != len {
            out.fails.push(("typing-failed".into(), format!("{} buffer has {} symbols", desc, ed.len()), desc.clone()));
            return;
        }
        // open the list on the whole key and choose X
        ed.process_keyevent(Qwerty.map(chewing::editor::keyboard::KeyCode::Home));
        ed.process_keyevent(Qwerty.map(chewing::editor::keyboard::KeyCode::Down));
        let cands = ed.all_candidates().unwrap_or_default();
        let chosen = match cands.iter().position(|c| *c == s.x) {
            Some(i) => {
                let _ = ed.select(i);
                true
            }
            None => {
                if rep > 1 || s.x_sys.is_some() || s.x_user.is_some() {
                    out.fails.push(("not-a-candidate".into(), format!("{} repetition {}: candidates {:?}", desc, rep, cands), desc.clone()));
                    return;
                }
                // X is in no dictionary yet: the user picks the characters one by one is out of scope here;
                // teach it through the API once (learn_phrase), as chewing_userphrase_add does
                let _ = ed.cancel_selecting();
                let _ = ed.learn_phrase(&k, &s.x);
                false
            }
        };
        if chosen {
            if ed.display() != s.x {
                out.fails.push(("choice-not-displayed".into(), format!("{} repetition {}: display {}", desc, rep, ed.display()), desc.clone()));
            }
            ed.process_keyevent(Qwerty.map(chewing::editor::keyboard::KeyCode::Enter));
            if ed.display_commit() != s.x {
                out.fails.push(("commit-differs".into(), format!("{} repetition {}: committed {}", desc, rep, ed.display_commit()), desc.clone()));
            }
        } else {
            ed.clear();
        }
        // recorded?
        let got = ed.user_dict().lookup_all_phrases(&k, LookupStrategy::Standard).into_iter().find(|p| p.as_str() == s.x).map(|p| p.freq() as u64);
        match (got, pf) {
            (None, _) => {
                out.fails.push(("not-recorded".into(), format!("{} repetition {}", desc, rep), desc.clone()));
                return;
            }
            (Some(g), Some(pf)) if chosen => {
                out.cases.push((pf, mf, g));
                if g < pf {
                    out.fails.push(("frequency-lowered".into(), format!("{} repetition {}: {} -> {}", desc, rep, pf, g), desc.clone()));
                }
                let want = expected_estimate(pf, mf);
                if g != want {
                    out.fails.push(("trajectory-differs-from-estimate".into(), format!("{} repetition {}: freq {} max {} -> {} (expected {})", desc, rep, pf, mf, g, want), desc.clone()));
                }
            }
            _ => {}
        }
        // offered as a candidate from now on
        type_key(&mut ed, &s);
        ed.process_keyevent(Qwerty.map(chewing::editor::keyboard::KeyCode::Home));
        ed.process_keyevent(Qwerty.map(chewing::editor::keyboard::KeyCode::Down));
        let cands = ed.all_candidates().unwrap_or_default();
        if !cands.contains(&s.x) {
            out.fails.push(("not-a-candidate".into(), format!("{} after repetition {}: candidates {:?}", desc, rep, cands), desc.clone()));
        }
        ed.clear();
        // the default conversion of the bare syllables
        type_key(&mut ed, &s);
        let disp = ed.display();
        ed.clear();
        if disp == s.x && became_default.is_none() {
            became_default = Some(rep);
        }
        if disp != s.x && became_default.is_some() {
            out.fails.push(("default-lost-again".into(), format!("{} repetition {}: display {}", desc, rep, disp), desc.clone()));
            became_default = None;
        }
        // persistence: close and reopen
        if rep == 1 || rep == reps {
            out.reopen_checks += 1;
            drop(ed);
            let ents = user_entries(&path);
            let f = ents.iter().find(|(kk, t, _)| *kk == k && *t == s.x).map(|(_, _, f)| *f as u64);
            if f != got {
                out.fails.push(("lost-after-reopen".into(), format!("{} repetition {}: in memory {:?}, in the reopened file {:?}", desc, rep, got, f), desc.clone()));
            }
            ed = build(&s, &path, true);
            type_key(&mut ed, &s);
            ed.process_keyevent(Qwerty.map(chewing::editor::keyboard::KeyCode::Home));
            ed.process_keyevent(Qwerty.map(chewing::editor::keyboard::KeyCode::Down));
            let cands = ed.all_candidates().unwrap_or_default();
            if !cands.contains(&s.x) {
                out.fails.push(("not-a-candidate-after-reopen".into(), format!("{} repetition {}: candidates {:?}", desc, rep, cands), desc.clone()));
            }
            ed.clear();
        }
    }
    drop(ed);
    let _ = std::fs::remove_file(&path);
    match became_default {
        Some(r) => *out.default_after.entry(r).or_insert(0) += 1,
        None => {
            out.never_default += 1;
            out.fails.push((format!("not-default-within-{}-len{}", reps, len), desc.clone(), desc));
        }
    }
}

fn main() {
    let args: Vec<String> = std::env::args().skip(1).collect();
    if args.len() < 3 || args[0] != "run" {
        eprintln!("usage: c08 run <tier> <out.json>");
        std::process::exit(2);
    }
    let tier = &args[1];
    let seed = seed_from_env();
    let n = std::env::var("VERIF_C08_SCENARIOS").ok().and_then(|s| s.parse().ok()).unwrap_or(if tier == "thorough" { 2000 } else { 150 });
    let dir = std::env::temp_dir().join(format!("vharness-c08-{}", std::process::id()));
    std::fs::create_dir_all(&dir).unwrap();
    let mut out = Out::default();
    for i in 0..n {
        let mut rng = Rng::new(seed.wrapping_mul(8_000_009).wrapping_add(i as u64));
        scenario(&mut rng, i, &dir, &mut out, 64);
    }
    let _ = std::fs::remove_dir_all(&dir);
    let mut js = String::from("{");
    let _ = write!(
        js,
        "\"scenarios\":{},\"repetitions\":{},\"reopen_checks\":{},\"never_default\":{},\"by_len\":[{},{},{},{}],",
        out.scenarios, out.repetitions, out.reopen_checks, out.never_default, out.by_len[1], out.by_len[2], out.by_len[3], out.by_len[4]
    );
    let da: Vec<String> = out.default_after.iter().map(|(k, v)| format!("\"{}\":{}", k, v)).collect();
    let _ = write!(js, "\"default_after\":{{{}}},", da.join(","));
    let cs: Vec<String> = out.cases.iter().map(|(a, b, c)| format!("[{},{},{}]", a, b, c)).collect();
    let _ = write!(js, "\"cases\":[{}],\"failures\":[", cs.join(","));
    for (i, (sig, det, sc)) in out.fails.iter().enumerate() {
        if i > 0 {
            js.push(',');
        }
        let _ = write!(js, "{{\"signature\":{},\"detail\":{},\"scenario\":{}}}", json_str(sig), json_str(det), json_str(sc));
    }
    js.push_str("]}");
    std::fs::write(&args[2], &js).unwrap();
    println!(
        "{{\"scenarios\":{},\"repetitions\":{},\"reopen_checks\":{},\"never_default\":{},\"failures\":{},\"estimate_cases\":{}}}",
        out.scenarios,
        out.repetitions,
        out.reopen_checks,
        out.never_default,
        out.fails.len(),
        out.cases.len()
    );
}
