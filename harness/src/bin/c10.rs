//! C10: user-dictionary durability and atomic replacement (TrieBuf writer protocol).
//!
//!   c10 explore <max_ops> <alphabet> <crash 0|1> <out.trace> <out.json>
//!        enumerate EVERY interleaving of the foreground histories (at most max_ops calls
//!        including the final close, calls taken from the alphabet) with the writer's
//!        progress points (the writer thread is parked at each hook point and released one
//!        step at a time), print one trace line per complete schedule and - with crash=1 -
//!        per crash point (a child process that executes the schedule prefix and aborts),
//!        and evaluate the property oracles on the implementation.
//!   c10 random <n> <max_ops> <out.trace> <out.json>   seeded random longer schedules
//!   c10 corpus <file> <out.trace> <out.json>          schedules from a file
//!   c10 editor <out.trace> <out.json>   the same overlap driven through the C API:
//!        chewing_userphrase_add / a key event (reopen+flush) / chewing_delete
//!   c10 run <tokens...>          run one schedule, print its trace line
//!   c10 replay <name|tokens...>  run one schedule with the oracles; exit 1 when one fails
//!   c10 crash-child <dir> <tokens...>   (internal) execute the prefix, then abort()
//!
//! Schedule tokens: u (update a fresh key), v (raise the value of persisted key 1),
//! d (remove persisted key 0), a (add key 1: rejected while visible), b (add key 7), e (remove key 7),
//! f (flush), r (reopen), x (close = drop), W (writer advances to its next point),
//! ! (the process dies here; last token only).
//!
//! Observation after each token (identical format on the model side, ocaml/c10):
//!   before close:  D<dirty>H<0 none|1 busy|2 finished>M[k=v,..]P[k=v,..]
//!   after close:   C<0 drop blocked|1 drop returned>P[..]
//!   after !:       P[..]          (P! when the file does not load)
use chewing::dictionary::{Dictionary, DictionaryBuilder, DictionaryMut, Phrase, Trie, TrieBuf, TrieBuilder};
use chewing::dictionary::verif_hooks;
use chewing::zhuyin::{Bopomofo, Syllable};
use std::cell::Cell;
use std::collections::{BTreeMap, HashSet};
use std::fmt::Write as _;
use std::io::Write as _;
use std::path::{Path, PathBuf};
use std::sync::{Condvar, Mutex};
use std::time::{Duration, Instant};
use vharness::util::json_str;

const NKEYS: usize = 8;
const PHRASE: &str = "測";

fn key_syllable(k: usize) -> Syllable {
    use Bopomofo::*;
    let initials = [B, P, M, F, D, T, N, L];
    chewing::syl![initials[k], A]
}

fn key_of(syllables: &[Syllable], phrase: &str) -> Option<usize> {
    if syllables.len() != 1 || phrase != PHRASE {
        return None;
    }
    (0..NKEYS).find(|&k| key_syllable(k) == syllables[0])
}

// ---------------------------------------------------------------- controller

#[derive(Default)]
struct Ctl {
    run_id: u64,
    writer_started: u64,
    parked: Option<String>,
    release: bool,
    writer_done: u64,
    joins_started: u64,
    joins_done: u64,
    drop_done: bool,
    points_seen: BTreeMap<String, u64>,
}

static CTL: Mutex<Option<Ctl>> = Mutex::new(None);
static CV: Condvar = Condvar::new();
static WATCH: Mutex<Option<PathBuf>> = Mutex::new(None);
static RUN_ID: std::sync::atomic::AtomicU64 = std::sync::atomic::AtomicU64::new(0);

thread_local! {
    /// 0: a thread we did not start (the writer); 1: controller; 2: the drop thread
    static ROLE: Cell<u8> = const { Cell::new(0) };
}

fn with_ctl<R>(f: impl FnOnce(&mut Ctl) -> R) -> R {
    let mut g = CTL.lock().unwrap();
    f(g.as_mut().unwrap())
}

fn callback(name: &str, path: &Path) {
    {
        let w = WATCH.lock().unwrap();
        if w.as_deref() != Some(path) {
            return;
        }
    }
    match ROLE.with(|r| r.get()) {
        1 => {}
        2 => {
            with_ctl(|c| match name {
                "drop_before_join" => c.joins_started += 1,
                "drop_after_join" => c.joins_done += 1,
                _ => {}
            });
            CV.notify_all();
        }
        _ => {
            // a writer thread.  Every execution has its own directory, so a thread that
            // outlived its execution (possible only when drop does not join it) no longer
            // matches WATCH and runs free; one that is parked when its execution ends is
            // woken by the change of run_id.
            let mut g = CTL.lock().unwrap();
            let my_run = g.as_ref().unwrap().run_id;
            *g.as_mut().unwrap().points_seen.entry(name.to_string()).or_insert(0) += 1;
            match name {
                "before_rename" => {}
                "writer_done" => {
                    g.as_mut().unwrap().writer_done += 1;
                    CV.notify_all();
                }
                _ => {
                    if name == "writer_start" {
                        g.as_mut().unwrap().writer_started += 1;
                    }
                    g.as_mut().unwrap().parked = Some(name.to_string());
                    CV.notify_all();
                    while g.as_ref().unwrap().run_id == my_run && !g.as_ref().unwrap().release {
                        g = CV.wait(g).unwrap();
                    }
                    if g.as_ref().unwrap().run_id == my_run {
                        g.as_mut().unwrap().release = false;
                    }
                }
            }
        }
    }
}

const WAIT: Duration = Duration::from_secs(20);

/// wait until cond holds on the controller state; false on timeout
fn wait_for(cond: impl Fn(&Ctl) -> bool) -> bool {
    let t0 = Instant::now();
    let mut g = CTL.lock().unwrap();
    loop {
        if cond(g.as_ref().unwrap()) {
            return true;
        }
        if t0.elapsed() > WAIT {
            return false;
        }
        g = CV.wait_timeout(g, Duration::from_millis(200)).unwrap().0;
    }
}

// ---------------------------------------------------------------- independent reader

/// structural check of the DER envelope: one SEQUENCE spanning the whole file whose
/// elements are well-formed TLVs that fill it exactly
fn der_envelope_ok(bytes: &[u8]) -> bool {
    fn tlv(b: &[u8]) -> Option<(u8, &[u8], &[u8])> {
        if b.len() < 2 {
            return None;
        }
        let tag = b[0];
        let (len, hdr) = if b[1] < 0x80 {
            (b[1] as usize, 2)
        } else {
            let n = (b[1] & 0x7f) as usize;
            if n == 0 || n > 4 || b.len() < 2 + n {
                return None;
            }
            let mut l = 0usize;
            for i in 0..n {
                l = (l << 8) | b[2 + i] as usize;
            }
            (l, 2 + n)
        };
        if b.len() < hdr + len {
            return None;
        }
        Some((tag, &b[hdr..hdr + len], &b[hdr + len..]))
    }
    let Some((tag, mut body, rest)) = tlv(bytes) else { return false };
    if tag != 0x30 || !rest.is_empty() {
        return false;
    }
    let mut n = 0;
    while !body.is_empty() {
        let Some((_, _, r)) = tlv(body) else { return false };
        body = r;
        n += 1;
    }
    n >= 5
}

type Table = Option<BTreeMap<usize, u32>>;

fn table_of(entries: impl Iterator<Item = (Vec<Syllable>, Phrase)>) -> BTreeMap<usize, u32> {
    let mut t = BTreeMap::new();
    for (syl, ph) in entries {
        if let Some(k) = key_of(&syl, ph.as_str()) {
            // a later entry of the same key replaces the earlier one (TrieBuilder::insert)
            t.insert(k, ph.freq());
        } else {
            t.insert(99, ph.freq());
        }
    }
    t
}

/// what an independent reader sees at the path: None when the bytes are not a
/// well-formed document or Trie::open fails
fn disk_table(path: &Path) -> Table {
    let bytes = std::fs::read(path).ok()?;
    if !der_envelope_ok(&bytes) {
        return None;
    }
    let trie = Trie::open(path).ok()?;
    Some(table_of(trie.entries()))
}

fn fmt_table(t: &Table) -> String {
    match t {
        None => "!".to_string(),
        Some(m) => {
            let mut s = String::from("[");
            for (i, (k, v)) in m.iter().enumerate() {
                if i > 0 {
                    s.push(',');
                }
                let _ = write!(s, "{}={}", k, v);
            }
            s.push(']');
            s
        }
    }
}

// ---------------------------------------------------------------- one execution

struct Failure {
    oracle: &'static str,
    detail: String,
}

struct Exec {
    dir: PathBuf,
    path: PathBuf,
    dict: Option<TrieBuf>,
    drop_thread: Option<std::thread::JoinHandle<()>>,
    closed_seen: bool,
    last_mem: Option<BTreeMap<usize, u32>>,
    n_u: u32,
    mem_at_close: Option<BTreeMap<usize, u32>>,
    initial: BTreeMap<usize, u32>,
    last_old: Option<Table>,
    last_new: Option<BTreeMap<usize, u32>>,
    spawned: u64,
    obs: Vec<String>,
    failures: Vec<Failure>,
    hang: bool,
}

fn fresh_dir(base: &Path, tag: &str) -> PathBuf {
    static N: std::sync::atomic::AtomicU64 = std::sync::atomic::AtomicU64::new(0);
    let d = base.join(format!("{}-{}", tag, N.fetch_add(1, std::sync::atomic::Ordering::SeqCst)));
    let _ = std::fs::remove_dir_all(&d);
    std::fs::create_dir_all(&d).unwrap();
    d
}

impl Exec {
    fn new(dir: PathBuf) -> Exec {
        let path = dir.join("chewing.dat");
        // the initial file is written by the builder directly: keys 0 and 1 -> 1
        *WATCH.lock().unwrap() = None;
        let mut b = TrieBuilder::new();
        for k in 0..2 {
            b.insert(&[key_syllable(k)], Phrase::new(PHRASE, 1)).unwrap();
        }
        b.build(&path).unwrap();
        let run_id = RUN_ID.fetch_add(1, std::sync::atomic::Ordering::SeqCst) + 1;
        *CTL.lock().unwrap() = Some(Ctl { run_id, ..Ctl::default() });
        CV.notify_all();
        *WATCH.lock().unwrap() = Some(path.clone());
        let dict = TrieBuf::open(&path).unwrap();
        let initial = disk_table(&path).expect("initial file loads");
        Exec {
            dir,
            path,
            dict: Some(dict),
            drop_thread: None,
            closed_seen: false,
            last_mem: None,
            n_u: 0,
            mem_at_close: None,
            initial,
            last_old: None,
            last_new: None,
            spawned: 0,
            obs: vec![],
            failures: vec![],
            hang: false,
        }
    }

    fn writer_parked(&self) -> bool {
        with_ctl(|c| c.parked.is_some())
    }

    fn closing(&self) -> bool {
        self.dict.is_none()
    }

    fn drop_returned(&self) -> bool {
        with_ctl(|c| c.drop_done)
    }

    fn mem_table(&self) -> BTreeMap<usize, u32> {
        table_of(self.dict.as_ref().unwrap().entries())
    }

    fn observe(&mut self, tok: char) {
        // reopen, flush and the writer never change what the dictionary shows
        if let Some(d) = &self.dict {
            let m = table_of(d.entries());
            if matches!(tok, 'f' | 'r' | 'W') {
                if let Some(prev) = &self.last_mem {
                    if prev != &m {
                        self.failures.push(Failure {
                            oracle: "contents-changed-without-change",
                            detail: format!("the dictionary showed {} before and {} after '{}'", fmt_table(&Some(prev.clone())), fmt_table(&Some(m.clone())), tok),
                        });
                    }
                }
            }
            self.last_mem = Some(m);
        }
        let p = disk_table(&self.path);
        if p.is_none() {
            self.failures.push(Failure { oracle: "not-loadable", detail: "the file at the dictionary path does not load".into() });
        }
        // old-or-new: the path holds what it held when the latest writer was spawned, or that writer's snapshot
        if let Some(pt) = &p {
            let ok = match (&self.last_old, &self.last_new) {
                (Some(old), Some(new)) => old.as_ref() == Some(pt) || new == pt,
                _ => &self.initial == pt,
            } || (self.closing() && self.mem_at_close.as_ref() == Some(pt)); // drop's own final flush
            if !ok {
                self.failures.push(Failure {
                    oracle: "not-old-or-new",
                    detail: format!("path holds {} but previous={} new={}", fmt_table(&p),
                        self.last_old.as_ref().map(fmt_table).unwrap_or_else(|| fmt_table(&Some(self.initial.clone()))),
                        self.last_new.as_ref().map(|n| fmt_table(&Some(n.clone()))).unwrap_or_default()),
                });
            }
        }
        let o = if let Some(d) = &self.dict {
            let h = match d.verif_writer_state() {
                None => 0,
                Some(false) => 1,
                Some(true) => 2,
            };
            format!("D{}H{}M{}P{}", d.verif_dirty() as u8, h, fmt_table(&Some(self.mem_table())), fmt_table(&p))
        } else {
            let c = self.drop_returned();
            if c && !self.closed_seen {
                self.closed_seen = true;
                // durability: drop has returned, so the file must show what the dictionary showed
                if p.as_ref() != self.mem_at_close.as_ref() {
                    self.failures.push(Failure {
                        oracle: "lost-after-close",
                        detail: format!("dictionary showed {} when close was called, file holds {} after drop returned",
                            fmt_table(&self.mem_at_close.clone()), fmt_table(&p)),
                    });
                }
            }
            format!("C{}P{}", c as u8, fmt_table(&p))
        };
        self.obs.push(o);
    }

    /// after a foreground call that may have spawned a writer: wait until it is parked
    fn settle_spawn(&mut self, before: Option<bool>) {
        let after = self.dict.as_ref().unwrap().verif_writer_state();
        if before.is_none() && after.is_some() {
            self.spawned += 1;
            if !wait_for(|c| c.parked.is_some()) {
                self.hang = true;
            }
        }
    }

    /// after close was called: wait until drop returned or is blocked in a join on a parked writer
    fn settle_drop(&mut self) {
        if !wait_for(|c| c.drop_done || (c.joins_started > c.joins_done && c.parked.is_some())) {
            self.hang = true;
        }
    }

    fn step(&mut self, tok: char, index: usize) {
        match tok {
            'W' => {
                if self.writer_parked() {
                    let done0 = with_ctl(|c| {
                        c.parked = None;
                        c.release = true;
                        c.writer_done
                    });
                    CV.notify_all();
                    if !wait_for(|c| c.parked.is_some() || c.writer_done > done0) {
                        self.hang = true;
                    }
                    if let Some(d) = &self.dict {
                        // is_finished() becomes true shortly after the closure returned
                        if with_ctl(|c| c.writer_done > done0) {
                            let t0 = Instant::now();
                            while d.verif_writer_state() == Some(false) && t0.elapsed() < WAIT {
                                std::thread::yield_now();
                            }
                        }
                    } else {
                        self.settle_drop();
                    }
                }
            }
            'x' => {
                if let Some(d) = self.dict.take() {
                    self.mem_at_close = Some(table_of(d.entries()));
                    self.drop_thread = Some(
                        std::thread::Builder::new()
                            .name("drop".into())
                            .spawn(move || {
                                ROLE.with(|r| r.set(2));
                                drop(d);
                                with_ctl(|c| c.drop_done = true);
                                CV.notify_all();
                            })
                            .unwrap(),
                    );
                    self.settle_drop();
                }
            }
            _ if self.closing() => {}
            'f' => {
                let d = self.dict.as_mut().unwrap();
                let before = d.verif_writer_state();
                let old = disk_table(&self.path);
                let new = table_of(d.entries());
                let _ = d.flush();
                let after = d.verif_writer_state();
                if before.is_none() && after.is_some() {
                    self.last_old = Some(old);
                    self.last_new = Some(new);
                }
                self.settle_spawn(before);
            }
            'r' => {
                let _ = self.dict.as_mut().unwrap().reopen();
            }
            'u' | 'v' | 'd' | 'a' | 'b' | 'e' => {
                let d = self.dict.as_mut().unwrap();
                match tok {
                    'u' => {
                        let k = 2 + self.n_u as usize;
                        let v = 10 + self.n_u;
                        self.n_u += 1;
                        let _ = d.update_phrase(&[key_syllable(k % NKEYS)], Phrase::new(PHRASE, v), v, v as u64);
                    }
                    'v' => {
                        let v = 20 + index as u32;
                        let _ = d.update_phrase(&[key_syllable(1)], Phrase::new(PHRASE, v), v, v as u64);
                    }
                    'd' => {
                        let _ = d.remove_phrase(&[key_syllable(0)], PHRASE);
                    }
                    'a' => {
                        let _ = d.add_phrase(&[key_syllable(1)], Phrase::new(PHRASE, 99));
                    }
                    'e' => {
                        // removes the key `b` adds: a phrase that exists only as a pending entry or in a snapshot
                        // that is still being written (seeded change C10-E)
                        let _ = d.remove_phrase(&[key_syllable(7)], PHRASE);
                    }
                    _ => {
                        let _ = d.add_phrase(&[key_syllable(7)], Phrase::new(PHRASE, 5));
                    }
                }
            }
            _ => {}
        }
        self.observe(tok);
    }

    fn finish(mut self) -> (Vec<String>, Vec<Failure>, bool, BTreeMap<String, u64>) {
        // let everything run to completion so that no thread outlives the execution
        let t0 = Instant::now();
        loop {
            let parked = with_ctl(|c| {
                if c.parked.is_some() {
                    c.parked = None;
                    c.release = true;
                    true
                } else {
                    false
                }
            });
            CV.notify_all();
            let drop_pending = self.drop_thread.as_ref().map(|h| !h.is_finished()).unwrap_or(false);
            let busy = self.dict.as_ref().map(|d| d.verif_writer_state() == Some(false)).unwrap_or(false)
                || with_ctl(|c| c.writer_started > c.writer_done);
            if !parked && !drop_pending && !busy {
                break;
            }
            if t0.elapsed() > WAIT {
                self.hang = true;
                break;
            }
            std::thread::sleep(Duration::from_micros(200));
        }
        if let Some(h) = self.drop_thread.take() {
            if h.is_finished() {
                let _ = h.join();
            }
        }
        *WATCH.lock().unwrap() = None;
        drop(self.dict.take());
        let seen = with_ctl(|c| std::mem::take(&mut c.points_seen));
        let _ = std::fs::remove_dir_all(&self.dir);
        (std::mem::take(&mut self.obs), std::mem::take(&mut self.failures), self.hang, seen)
    }
}

fn run_tokens(base: &Path, tag: &str, toks: &[char]) -> (Vec<String>, Vec<Failure>, bool, BTreeMap<String, u64>) {
    let mut e = Exec::new(fresh_dir(base, tag));
    for (i, &t) in toks.iter().enumerate() {
        e.step(t, i);
        if e.hang {
            break;
        }
    }
    e.finish()
}

fn line(toks: &[char], obs: &[String]) -> String {
    let t: Vec<String> = toks.iter().map(|c| c.to_string()).collect();
    format!("{} | {}", t.join(" "), obs.join(" "))
}

// ---------------------------------------------------------------- crash children

fn crash_child(dir: &Path, toks: &[char]) -> ! {
    let mut e = Exec::new(dir.to_path_buf());
    for (i, &t) in toks.iter().enumerate() {
        e.step(t, i);
    }
    // sidecar for the parent's old-or-new oracle
    let mut s = String::new();
    let _ = writeln!(s, "initial {}", fmt_table(&Some(e.initial.clone())));
    if let (Some(o), Some(n)) = (&e.last_old, &e.last_new) {
        let _ = writeln!(s, "old {}", fmt_table(o));
        let _ = writeln!(s, "new {}", fmt_table(&Some(n.clone())));
    }
    if let Some(m) = &e.mem_at_close {
        let _ = writeln!(s, "atclose {}", fmt_table(&Some(m.clone())));
    }
    let _ = std::fs::write(dir.join("sidecar.txt"), s);
    // the process dies here, with the writer thread parked wherever the prefix left it
    std::process::abort();
}

fn run_crash(base: &Path, exe: &Path, toks: &[char]) -> (String, Vec<Failure>) {
    let dir = fresh_dir(base, "crash");
    let t: String = toks.iter().collect();
    let st = std::process::Command::new(exe)
        .arg("crash-child")
        .arg(&dir)
        .arg(&t)
        .stdout(std::process::Stdio::null())
        .stderr(std::process::Stdio::null())
        .status();
    let mut fails = vec![];
    let died = matches!(&st, Ok(s) if !s.success());
    if !died {
        fails.push(Failure { oracle: "crash-child-did-not-die", detail: format!("{:?}", st) });
    }
    let path = dir.join("chewing.dat");
    let p = disk_table(&path);
    let side = std::fs::read_to_string(dir.join("sidecar.txt")).unwrap_or_default();
    let get = |k: &str| side.lines().find_map(|l| l.strip_prefix(k).map(|r| r.trim().to_string()));
    let shown = fmt_table(&p);
    if p.is_none() {
        fails.push(Failure { oracle: "not-loadable-after-crash", detail: "the file at the dictionary path does not load after the process died".into() });
    } else {
        let mut allowed = vec![];
        match (get("old "), get("new ")) {
            (Some(o), Some(n)) => {
                allowed.push(o);
                allowed.push(n);
            }
            _ => allowed.extend(get("initial ")),
        }
        // drop's own final flush writes the contents at close
        allowed.extend(get("atclose "));
        if !allowed.contains(&shown) {
            fails.push(Failure { oracle: "not-old-or-new-after-crash", detail: format!("file holds {} but allowed are {:?}", shown, allowed) });
        }
    }
    // a later session in the directory the dead process left behind (whatever temporary files are still there): a
    // change that is accepted, flushed and closed normally must be on disk afterwards
    if p.is_some() {
        let recovered = (|| -> Option<Table> {
            let mut d = TrieBuf::open(&path).ok()?;
            d.update_phrase(&[key_syllable(6)], Phrase::new(PHRASE, 4242), 4242, 4242).ok()?;
            d.flush().ok()?;
            drop(d);
            Some(disk_table(&path))
        })();
        match recovered {
            Some(Some(t)) if t.get(&6) == Some(&4242) => {}
            Some(other) => fails.push(Failure {
                oracle: "change-after-a-crash-not-durable",
                detail: format!("after the crash a new session updated key 6 to 4242, flushed and closed; the file then holds {}", fmt_table(&other)),
            }),
            None => fails.push(Failure { oracle: "change-after-a-crash-not-durable", detail: "the session after the crash could not open / update / flush the dictionary".into() }),
        }
    }
    let _ = std::fs::remove_dir_all(&dir);
    let mut tk: Vec<char> = toks.to_vec();
    tk.push('!');
    let mut obs: Vec<String> = vec!["_".to_string(); toks.len()];
    obs.push(format!("P{}", shown));
    (line(&tk, &obs), fails)
}

// ---------------------------------------------------------------- exploration

struct Tier {
    max_ops: usize,      // foreground calls including the close
    alphabet: Vec<char>, // foreground calls other than close
    crash: bool,         // kill a child process at every node during or after a rewrite
}

/// enabled choices, derived from the implementation's state only
fn enabled(e: &Exec, tr: &Tier, ops_done: usize) -> Vec<char> {
    let mut v = vec![];
    if e.writer_parked() {
        v.push('W');
    }
    if !e.closing() {
        if ops_done + 1 < tr.max_ops {
            v.extend(tr.alphabet.iter());
        }
        v.push('x');
    }
    v
}

#[derive(Default)]
struct Stats {
    leaves: u64,
    crashes: u64,
    steps: u64,
    hangs: u64,
    with_writer: u64,
    lost_overlap: u64,
    points: BTreeMap<String, u64>,
    hist_ops: BTreeMap<usize, u64>,
    tok_hist: BTreeMap<char, u64>,
    samples: Vec<String>,
    fails: Vec<(String, Failure)>,
    crashed: HashSet<String>,
}

impl Stats {
    /// account for one finished execution and run its crash points
    fn account(&mut self, w: &mut impl std::io::Write, base: &Path, exe: &Path, path: &[char], e: Exec, crash: bool) {
        let crash_nodes: Vec<usize> = if crash {
            (1..=path.len()).filter(|&n| path[..n].contains(&'f') || path[..n].contains(&'x')).collect()
        } else {
            vec![]
        };
        let (obs, fl, hang, seen) = e.finish();
        for (k, v) in seen {
            *self.points.entry(k).or_insert(0) += v;
        }
        self.leaves += 1;
        self.steps += path.len() as u64;
        let sched: String = path.iter().collect();
        if hang {
            self.hangs += 1;
            self.fails.push((sched.clone(), Failure { oracle: "hang", detail: "no progress within 20 s".into() }));
        }
        if path.contains(&'W') {
            self.with_writer += 1;
        }
        // a change or the close overlapping an in-flight write: the situation the property is about
        let mut inflight = false;
        let mut overlap = false;
        for o in obs.iter() {
            if o.contains("H1") {
                inflight = true;
            }
            if inflight && (o.starts_with("D1H1") || o.starts_with("C0")) {
                overlap = true;
            }
        }
        if overlap {
            self.lost_overlap += 1;
        }
        *self.hist_ops.entry(path.iter().filter(|&&c| c != 'W' && c != '!').count()).or_insert(0) += 1;
        for c in path {
            *self.tok_hist.entry(*c).or_insert(0) += 1;
        }
        let l = line(path, &obs);
        if self.samples.len() < 6 && overlap {
            self.samples.push(l.clone());
        }
        writeln!(w, "{}", l).unwrap();
        for f in fl {
            self.fails.push((sched.clone(), f));
        }
        for n in crash_nodes {
            let key: String = path[..n].iter().collect();
            if self.crashed.insert(key.clone()) {
                let (l, fl) = run_crash(base, exe, &path[..n]);
                self.crashes += 1;
                writeln!(w, "{}", l).unwrap();
                for f in fl {
                    self.fails.push((format!("{}!", key), f));
                }
            }
        }
    }

    fn write_json(&self, json: &str, t0: Instant) {
        let mut j = String::new();
        let _ = write!(j, "{{\"schedules\":{},\"crash_points\":{},\"steps\":{},\"hangs\":{},\"schedules_with_writer_steps\":{},\"schedules_with_overlap\":{},\"wall_s\":{:.1},",
            self.leaves, self.crashes, self.steps, self.hangs, self.with_writer, self.lost_overlap, t0.elapsed().as_secs_f64());
        let _ = write!(j, "\"writer_points_seen\":{{{}}},", self.points.iter().map(|(k, v)| format!("{}:{}", json_str(k), v)).collect::<Vec<_>>().join(","));
        let _ = write!(j, "\"foreground_ops_histogram\":{{{}}},", self.hist_ops.iter().map(|(k, v)| format!("\"{}\":{}", k, v)).collect::<Vec<_>>().join(","));
        let _ = write!(j, "\"token_histogram\":{{{}}},", self.tok_hist.iter().map(|(k, v)| format!("\"{}\":{}", k, v)).collect::<Vec<_>>().join(","));
        let _ = write!(j, "\"samples\":[{}],", self.samples.iter().map(|s| json_str(s)).collect::<Vec<_>>().join(","));
        let _ = write!(j, "\"failures\":[{}]}}", self.fails.iter().take(200).map(|(s, f)| format!("{{\"oracle\":{},\"schedule\":{},\"detail\":{}}}", json_str(f.oracle), json_str(s), json_str(&f.detail))).collect::<Vec<_>>().join(","));
        std::fs::write(json, j).unwrap();
    }
}

fn work_base() -> PathBuf {
    let base = PathBuf::from(format!("/tmp/c10/run-{}", std::process::id()));
    std::fs::create_dir_all(&base).unwrap();
    base
}

/// every interleaving: stateless depth-first search - rerun from scratch with a forced
/// prefix, then take the first enabled choice until the schedule is complete, remembering
/// the alternatives at every depth
fn explore(tr: &Tier, out: &str, json: &str) -> i32 {
    let base = work_base();
    let exe = std::env::current_exe().unwrap();
    let mut w = std::io::BufWriter::new(std::fs::File::create(out).unwrap());
    let mut st = Stats::default();
    let mut prefix: Vec<char> = vec![];
    let t0 = Instant::now();
    loop {
        let mut e = Exec::new(fresh_dir(&base, "run"));
        let mut path: Vec<char> = vec![];
        let mut alts: Vec<Vec<char>> = vec![];
        let mut ops_done = 0usize;
        loop {
            let en = enabled(&e, tr, ops_done);
            if en.is_empty() || e.hang {
                break;
            }
            let depth = path.len();
            let c = if depth < prefix.len() {
                if !en.contains(&prefix[depth]) {
                    e.failures.push(Failure { oracle: "nondeterministic-enabledness", detail: format!("choice {} no longer enabled at depth {}", prefix[depth], depth) });
                    break;
                }
                prefix[depth]
            } else {
                en[0]
            };
            alts.push(en);
            path.push(c);
            if c != 'W' {
                ops_done += 1;
            }
            e.step(c, depth);
        }
        st.account(&mut w, &base, &exe, &path, e, tr.crash);
        if st.hangs >= 3 {
            break;
        }
        // backtrack: deepest position with an untried alternative
        let mut next: Option<Vec<char>> = None;
        for d in (0..path.len()).rev() {
            let i = alts[d].iter().position(|&c| c == path[d]).unwrap();
            if i + 1 < alts[d].len() {
                let mut p = path[..d].to_vec();
                p.push(alts[d][i + 1]);
                next = Some(p);
                break;
            }
        }
        match next {
            Some(p) => prefix = p,
            None => break,
        }
    }
    w.flush().unwrap();
    let _ = std::fs::remove_dir_all(&base);
    st.write_json(json, t0);
    0
}

/// seeded random schedules beyond the exhaustive bound: longer histories, all change kinds,
/// the writer advanced at random; the last node of each is also a crash point
fn random(n: u64, max_ops: usize, out: &str, json: &str) -> i32 {
    let base = work_base();
    let exe = std::env::current_exe().unwrap();
    let mut w = std::io::BufWriter::new(std::fs::File::create(out).unwrap());
    let mut st = Stats::default();
    let t0 = Instant::now();
    let seed = vharness::util::seed_from_env();
    let tr = Tier { max_ops, alphabet: vec!['u', 'v', 'd', 'a', 'b', 'e', 'f', 'r'], crash: false };
    for case in 0..n {
        let mut rng = vharness::util::Rng::new(seed.wrapping_mul(0x9E37_79B9).wrapping_add(case));
        let mut e = Exec::new(fresh_dir(&base, "run"));
        let mut path: Vec<char> = vec![];
        let mut ops_done = 0usize;
        let want_ops = 2 + rng.below(max_ops as u64 - 1) as usize;
        loop {
            let en = enabled(&e, &tr, ops_done);
            if en.is_empty() || e.hang {
                break;
            }
            let depth = path.len();
            let c = if en[0] == 'W' && (en.len() == 1 || rng.chance(1, 2)) {
                'W'
            } else if e.closing() {
                'W'
            } else if ops_done + 1 >= want_ops {
                'x'
            } else {
                // flush and reopen as often as all changes together, as the editor does
                match rng.below(10) {
                    0..=2 => 'f',
                    3..=4 => 'r',
                    5..=6 => 'u',
                    7 => 'v',
                    8 => 'd',
                    _ => *rng.pick(&['a', 'b']),
                }
            };
            if !en.contains(&c) {
                continue;
            }
            path.push(c);
            if c != 'W' {
                ops_done += 1;
            }
            e.step(c, depth);
        }
        // one crash point per case: a random prefix
        let cut = 1 + rng.below(path.len() as u64) as usize;
        st.account(&mut w, &base, &exe, &path, e, false);
        let key: String = path[..cut].iter().collect();
        if st.crashed.insert(key.clone()) {
            let (l, fl) = run_crash(&base, &exe, &path[..cut]);
            st.crashes += 1;
            writeln!(w, "{}", l).unwrap();
            for f in fl {
                st.fails.push((format!("{}!", key), f));
            }
        }
    }
    w.flush().unwrap();
    let _ = std::fs::remove_dir_all(&base);
    st.write_json(json, t0);
    0
}

/// hand-written and previously failing schedules, one per line ('#' starts a comment)
fn corpus(file: &str, out: &str, json: &str) -> i32 {
    let base = work_base();
    let exe = std::env::current_exe().unwrap();
    let mut w = std::io::BufWriter::new(std::fs::File::create(out).unwrap());
    let mut st = Stats::default();
    let t0 = Instant::now();
    for l in std::fs::read_to_string(file).unwrap_or_default().lines() {
        let l = l.split('#').next().unwrap().trim();
        if l.is_empty() {
            continue;
        }
        let toks: Vec<char> = l.chars().filter(|c| !c.is_whitespace()).collect();
        if toks.last() == Some(&'!') {
            let (l, fl) = run_crash(&base, &exe, &toks[..toks.len() - 1]);
            st.crashes += 1;
            writeln!(w, "{}", l).unwrap();
            for f in fl {
                st.fails.push((toks.iter().collect(), f));
            }
        } else {
            let mut e = Exec::new(fresh_dir(&base, "run"));
            for (i, &t) in toks.iter().enumerate() {
                e.step(t, i);
                if e.hang {
                    break;
                }
            }
            st.account(&mut w, &base, &exe, &toks, e, true);
        }
    }
    w.flush().unwrap();
    let _ = std::fs::remove_dir_all(&base);
    st.write_json(json, t0);
    0
}

// ---------------------------------------------------------------- the editor / C API flow

struct SendPtr(*mut chewing_capi::setup::ChewingContext);
unsafe impl Send for SendPtr {}

fn disk_phrases(path: &Path) -> Option<std::collections::BTreeSet<String>> {
    let bytes = std::fs::read(path).ok()?;
    if !der_envelope_ok(&bytes) {
        return None;
    }
    let trie = Trie::open(path).ok()?;
    Some(trie.entries().map(|(_, p)| p.as_str().to_string()).collect())
}

/// release the parked writer and wait until it is parked again or done; false if none was parked
fn ctl_writer_step() -> bool {
    let r = with_ctl(|c| {
        if c.parked.is_some() {
            c.parked = None;
            c.release = true;
            Some(c.writer_done)
        } else {
            None
        }
    });
    CV.notify_all();
    match r {
        None => false,
        Some(done0) => {
            wait_for(|c| c.parked.is_some() || c.writer_done > done0);
            if with_ctl(|c| c.writer_done > done0) {
                // let the thread's is_finished() become true before the foreground looks at it
                std::thread::sleep(Duration::from_millis(2));
            }
            true
        }
    }
}

/// process_keyevent calls reopen()+flush() after every key that changed the dictionary and
/// chewing_delete drops the editor: the same schedules, driven through the C API.
///   add A; key (flush: writer 1 parked); k1 writer steps; add B; [key]; k2 writer steps;
///   chewing_delete; the writer(s) run to completion.  Afterwards both phrases must be in
///   the file; at every step the file must load.
fn editor(out: &str, json: &str) -> i32 {
    use chewing_capi::input::chewing_handle_Esc;
    use chewing_capi::setup::{chewing_delete, chewing_new2};
    use chewing_capi::userphrase::chewing_userphrase_add;
    use std::ffi::CString;
    let base = work_base();
    let mut st = Stats::default();
    let t0 = Instant::now();
    let sys = CString::new("/repo/tests/data").unwrap();
    let reading = CString::new("ㄘㄜˋ ㄕˋ").unwrap();
    let (pa, pb) = ("策試", "策士");
    let (ca, cb) = (CString::new(pa).unwrap(), CString::new(pb).unwrap());
    let mut lines = vec![];
    for second_key in [false, true] {
        for k1 in 0..=6usize {
            for k2 in 0..=(6 - k1) {
                let dir = fresh_dir(&base, "ed");
                let path = dir.join("chewing.dat");
                let cpath = CString::new(path.display().to_string()).unwrap();
                let run_id = RUN_ID.fetch_add(1, std::sync::atomic::Ordering::SeqCst) + 1;
                *CTL.lock().unwrap() = Some(Ctl { run_id, ..Ctl::default() });
                CV.notify_all();
                *WATCH.lock().unwrap() = Some(path.clone());
                let sched = format!("editor:addA key W{} addB {}W{} delete", k1, if second_key { "key " } else { "" }, k2);
                let mut fails: Vec<Failure> = vec![];
                let mut loadable = |what: &str, fails: &mut Vec<Failure>| {
                    if disk_phrases(&path).is_none() {
                        fails.push(Failure { oracle: "not-loadable", detail: format!("the user dictionary file does not load after {}", what) });
                    }
                };
                let mut spawned = false;
                let ctx = unsafe { chewing_new2(sys.as_ptr(), cpath.as_ptr(), None, std::ptr::null_mut()) };
                if ctx.is_null() {
                    st.fails.push((sched.clone(), Failure { oracle: "editor-setup", detail: "chewing_new2 returned NULL".into() }));
                    break;
                }
                unsafe {
                    chewing_userphrase_add(ctx, ca.as_ptr(), reading.as_ptr());
                    chewing_handle_Esc(ctx);
                }
                if wait_for_short(|c| c.parked.is_some()) {
                    spawned = true;
                }
                loadable("the first flush", &mut fails);
                for _ in 0..k1 {
                    ctl_writer_step();
                    loadable("a writer step", &mut fails);
                }
                unsafe {
                    chewing_userphrase_add(ctx, cb.as_ptr(), reading.as_ptr());
                    if second_key {
                        chewing_handle_Esc(ctx);
                    }
                }
                if !with_ctl(|c| c.parked.is_some()) && second_key {
                    // the first writer had finished: this key's flush may have spawned the next one
                    wait_for_short(|c| c.parked.is_some());
                }
                for _ in 0..k2 {
                    ctl_writer_step();
                    loadable("a writer step", &mut fails);
                }
                let p = SendPtr(ctx);
                let h = std::thread::Builder::new()
                    .name("drop".into())
                    .spawn(move || {
                        ROLE.with(|r| r.set(2));
                        let p = p;
                        unsafe { chewing_delete(p.0) };
                        with_ctl(|c| c.drop_done = true);
                        CV.notify_all();
                    })
                    .unwrap();
                let t1 = Instant::now();
                let mut closed_checked = false;
                loop {
                    wait_for_short(|c| c.drop_done || (c.joins_started > c.joins_done && c.parked.is_some()));
                    if with_ctl(|c| c.drop_done) {
                        // chewing_delete returned: both phrases must be in the file now
                        let got = disk_phrases(&path);
                        closed_checked = true;
                        let ok = got.as_ref().map(|g| g.contains(pa) && g.contains(pb)).unwrap_or(false);
                        if !ok {
                            fails.push(Failure {
                                oracle: "lost-after-close",
                                detail: format!("chewing_delete returned; user dictionary file holds {:?}, expected both {} and {}", got, pa, pb),
                            });
                        }
                        break;
                    }
                    if !ctl_writer_step() && t1.elapsed() > WAIT {
                        fails.push(Failure { oracle: "hang", detail: "chewing_delete does not return".into() });
                        break;
                    }
                    loadable("a writer step during chewing_delete", &mut fails);
                }
                // let a writer that outlived the context (possible only without the join) finish
                let t2 = Instant::now();
                while (ctl_writer_step() || with_ctl(|c| c.writer_started > c.writer_done)) && t2.elapsed() < WAIT {}
                if h.is_finished() {
                    let _ = h.join();
                }
                *WATCH.lock().unwrap() = None;
                let _ = std::fs::remove_dir_all(&dir);
                for (k, v) in with_ctl(|c| std::mem::take(&mut c.points_seen)) {
                    *st.points.entry(k).or_insert(0) += v;
                }
                st.leaves += 1;
                if spawned {
                    st.with_writer += 1;
                    st.lost_overlap += 1;
                }
                lines.push(format!("{} | spawned={} closed_checked={} failures={}", sched, spawned as u8, closed_checked as u8, fails.len()));
                for f in fails {
                    st.fails.push((sched.clone(), f));
                }
            }
        }
    }
    st.samples = lines.iter().take(3).cloned().collect();
    std::fs::write(out, "").unwrap();
    std::fs::write(format!("{}.editor.txt", out), lines.join("\n")).unwrap();
    let _ = std::fs::remove_dir_all(&base);
    st.write_json(json, t0);
    for (s, f) in st.fails.iter().take(5) {
        println!("ORACLE {} : {} : {}", f.oracle, s, f.detail);
    }
    st.fails.len() as i32
}

/// two dictionaries that live side by side in ONE directory (and one process), changed and flushed at the same time,
/// their writers running freely: after both are closed normally each file holds exactly its own accepted changes -
/// and at no moment of the run is either file something that does not load.  (Real timing, no scheduling: the
/// writers of the two dictionaries overlap because the flushes are issued back to back.)
fn pair(rounds: usize, out: &str, json: &str) -> i32 {
    let base = work_base();
    let mut st = Stats::default();
    let t0 = Instant::now();
    let mut lines = vec![];
    *WATCH.lock().unwrap() = None;
    for round in 0..rounds {
        let dir = fresh_dir(&base, "pair");
        let paths = [dir.join("first.dat"), dir.join("second.dat")];
        let sched = format!("pair:round {} (keys 0..{} / 4..{}, {} flushes)", round, 2 + round % 3, 6 + round % 3, 1 + round % 2);
        let mut fails: Vec<Failure> = vec![];
        // the initial files: key 0 -> 1 in the first, key 4 -> 1 in the second
        for (i, p) in paths.iter().enumerate() {
            let mut b = TrieBuilder::new();
            b.insert(&[key_syllable(4 * i)], Phrase::new(PHRASE, 1)).unwrap();
            b.build(p).unwrap();
        }
        let mut want: [BTreeMap<usize, u32>; 2] = [BTreeMap::new(), BTreeMap::new()];
        want[0].insert(0, 1);
        want[1].insert(4, 1);
        let mut dicts = [TrieBuf::open(&paths[0]).unwrap(), TrieBuf::open(&paths[1]).unwrap()];
        for f in 0..(1 + round % 2) {
            for (i, d) in dicts.iter_mut().enumerate() {
                for k in 0..(2 + round % 3) {
                    let key = 4 * i + k;
                    let freq = (10 * (round + 1) + f + k) as u32;
                    d.update_phrase(&[key_syllable(key)], Phrase::new(PHRASE, freq), freq, 0).unwrap();
                    want[i].insert(key, freq);
                }
            }
            // both flushes back to back: the two writers run at the same time
            for d in dicts.iter_mut() {
                let _ = d.flush();
            }
            for p in &paths {
                if disk_table(p).is_none() {
                    fails.push(Failure { oracle: "not-loadable", detail: format!("{} does not load while the two writers run", p.display()) });
                }
            }
            if round % 4 == 3 {
                for d in dicts.iter_mut() {
                    let _ = d.reopen();
                }
            }
        }
        let [d0, d1] = dicts;
        drop(d0);
        drop(d1);
        for (i, p) in paths.iter().enumerate() {
            match disk_table(p) {
                None => fails.push(Failure { oracle: "not-loadable", detail: format!("{} does not load after both dictionaries were closed", p.display()) }),
                Some(got) => {
                    if got != want[i] {
                        fails.push(Failure {
                            oracle: "lost-after-close",
                            detail: format!("{} holds {} after flush and close, accepted changes {}", p.file_name().unwrap().to_string_lossy(), fmt_table(&Some(got)), fmt_table(&Some(want[i].clone()))),
                        });
                    }
                }
            }
        }
        // nothing but the two dictionaries is left behind in their directory
        let left: Vec<String> = std::fs::read_dir(&dir).map(|r| r.filter_map(|e| e.ok()).map(|e| e.file_name().to_string_lossy().to_string()).filter(|n| n != "first.dat" && n != "second.dat").collect()).unwrap_or_default();
        if !left.is_empty() {
            fails.push(Failure { oracle: "staging-file-left-behind", detail: format!("{:?}", left) });
        }
        let _ = std::fs::remove_dir_all(&dir);
        st.leaves += 1;
        st.with_writer += 1;
        lines.push(format!("{} | failures={}", sched, fails.len()));
        for f in fails {
            st.fails.push((sched.clone(), f));
        }
    }
    st.samples = lines.iter().take(3).cloned().collect();
    std::fs::write(out, "").unwrap();
    std::fs::write(format!("{}.pair.txt", out), lines.join("\n")).unwrap();
    let _ = std::fs::remove_dir_all(&base);
    st.write_json(json, t0);
    for (s, f) in st.fails.iter().take(5) {
        println!("ORACLE {} : {} : {}", f.oracle, s, f.detail);
    }
    st.fails.len() as i32
}

fn wait_for_short(cond: impl Fn(&Ctl) -> bool) -> bool {
    let t0 = Instant::now();
    let mut g = CTL.lock().unwrap();
    loop {
        if cond(g.as_ref().unwrap()) {
            return true;
        }
        if t0.elapsed() > Duration::from_millis(1500) {
            return false;
        }
        g = CV.wait_timeout(g, Duration::from_millis(50)).unwrap().0;
    }
}

fn parse_tokens(args: &[String]) -> Vec<char> {
    args.iter().flat_map(|a| a.chars()).filter(|c| !c.is_whitespace()).collect()
}

fn named(name: &str) -> Option<&'static str> {
    match name {
        // DESIGN section 9 row 8: update, flush, update, close while the first writer runs
        "pinned-lost-update" => Some("ufuxWWWWWW"),
        "pinned-lost-update-2" => Some("ufufxWWWWWW"),
        _ => None,
    }
}

fn main() {
    ROLE.with(|r| r.set(1));
    verif_hooks::set_callback(Some(Box::new(callback)));
    let args: Vec<String> = std::env::args().skip(1).collect();
    let code = match args.first().map(|s| s.as_str()) {
        Some("explore") => {
            let tr = Tier { max_ops: args[1].parse().unwrap(), alphabet: args[2].chars().collect(), crash: args[3] == "1" };
            explore(&tr, &args[4], &args[5])
        }
        Some("random") => random(args[1].parse().unwrap(), args[2].parse().unwrap(), &args[3], &args[4]),
        Some("corpus") => corpus(&args[1], &args[2], &args[3]),
        Some("pair") => pair(args[1].parse().unwrap(), &args[2], &args[3]),
        Some("editor") => {
            editor(&args[1], &args[2]);
            0
        }
        Some("replay") if args.get(1).map(|a| a.starts_with("editor:")).unwrap_or(false) => {
            // the C API campaign is half a second: replay all of it
            let base = work_base();
            let n = editor(&format!("{}/ed.trace", base.display()), &format!("{}/ed.json", base.display()));
            let _ = std::fs::remove_dir_all(&base);
            println!("editor campaign: {} oracle failures", n);
            if n > 0 { 1 } else { 0 }
        }
        Some("replay") if args.get(1).map(|a| a.starts_with("pair:")).unwrap_or(false) => {
            // real timing: replay the whole (short) campaign
            let base = work_base();
            let n = pair(40, &format!("{}/pair.trace", base.display()), &format!("{}/pair.json", base.display()));
            let _ = std::fs::remove_dir_all(&base);
            println!("two-dictionaries campaign: {} oracle failures", n);
            if n > 0 { 1 } else { 0 }
        }
        Some("crash-child") => crash_child(Path::new(&args[1]), &parse_tokens(&args[2..])),
        Some("run") | Some("replay") => {
            let toks: Vec<char> = match named(args.get(1).map(|s| s.as_str()).unwrap_or("")) {
                Some(t) => t.chars().collect(),
                None => parse_tokens(&args[1..]),
            };
            let base = work_base();
            let exe = std::env::current_exe().unwrap();
            let (l, fl) = if toks.last() == Some(&'!') {
                run_crash(&base, &exe, &toks[..toks.len() - 1])
            } else {
                let (obs, fl, hang, _) = run_tokens(&base, "run", &toks);
                let mut fl = fl;
                if hang {
                    fl.push(Failure { oracle: "hang", detail: "no progress within 20 s".into() });
                }
                (line(&toks, &obs), fl)
            };
            let _ = std::fs::remove_dir_all(&base);
            println!("{}", l);
            for f in &fl {
                println!("ORACLE {} : {}", f.oracle, f.detail);
            }
            if args[0] == "replay" && !fl.is_empty() { 1 } else { 0 }
        }
        _ => {
            eprintln!("usage: c10 explore <max_ops> <alphabet> <crash> <out.trace> <out.json> | random <n> <max_ops> <out> <json> | corpus <file> <out> <json> | run <tokens> | replay <name|tokens>");
            2
        }
    };
    std::process::exit(code);
}
