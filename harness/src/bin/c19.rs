//! C19 (legacy user data migration) and the legacy-loader part of C12.
//!   c19 views   <quick|thorough> <cases-out> <impl-out>   generated legacy files: harness writers (P),
//!                                                         hook-level loaders (L), real UserDictionaryLoader (M)
//!   c19 corrupt <quick|thorough> <out.json>               every single-byte overwrite x 7 values + every truncation
//!                                                         of small valid files, implementation in a worker process
//!                                                         (catch_unwind + watchdog), compared with the model driver
//!   c19 oracle  <quick|thorough> <out.json>               property oracles on the implementation alone
//!   c19 replay  <load|migrate|store> ...                  re-run one input
//!   c19 worker  <cases> <start>                           (internal) implementation side of the cases file
//! Case file format (shared with ocaml/c19): see `emit_*` below.
use chewing::dictionary::{Dictionary, Phrase, Trie, UserDictionaryLoader};
use chewing::zhuyin::Syllable;
use std::collections::BTreeMap;
use std::fmt::Write as _;
use std::io::{BufRead, BufReader, BufWriter, Write};
use std::path::{Path, PathBuf};
use std::process::{Command, Stdio};
use std::time::{Duration, Instant};
use vharness::util::{catch, json_str, seed_from_env, Rng};

// ------------------------------------------------------------------ legacy records and independent writers

#[derive(Clone, Debug)]
pub struct LRec {
    pub phrase: String,
    pub syls: Vec<u16>,
    pub user: i32,
    pub time: i32,
    pub max: i32,
    pub orig: i32,
    pub deleted: bool,
}

impl LRec {
    fn dead(&self) -> bool {
        self.deleted || self.user < 0 || self.time < 0 || self.max < 0 || self.orig < 0
    }
}

const FIELD: usize = 125;

/// binary uhash.dat as the legacy C engine wrote it on a little-endian machine:
/// "CBiH", int lifetime, then one 125-byte field per record:
/// int userfreq, recentTime, maxfreq, origfreq; u8 n; n x u16 phone; u8 bytes; phrase; zero padding.
/// A removed record keeps its layout with the first phrase byte cleared.
pub fn write_bin(lifetime: i32, recs: &[LRec]) -> Vec<u8> {
    let mut out = Vec::new();
    out.extend_from_slice(b"CBiH");
    out.extend_from_slice(&lifetime.to_le_bytes());
    for r in recs {
        let mut f = Vec::with_capacity(FIELD);
        for v in [r.user, r.time, r.max, r.orig] {
            f.extend_from_slice(&v.to_le_bytes());
        }
        f.push(r.syls.len() as u8);
        for s in &r.syls {
            f.extend_from_slice(&s.to_le_bytes());
        }
        let pb = r.phrase.as_bytes();
        f.push(pb.len() as u8);
        let at = f.len();
        f.extend_from_slice(pb);
        if r.deleted && !pb.is_empty() {
            f[at] = 0;
        }
        assert!(f.len() <= FIELD, "record does not fit the legacy field");
        f.resize(FIELD, 0);
        out.extend_from_slice(&f);
    }
    out
}

/// text uhash.dat: lifetime line, then "phrase phone.. userfreq recentTime maxfreq origfreq" per line
pub fn write_text(lifetime: i64, recs: &[LRec]) -> Vec<u8> {
    let mut s = String::new();
    let _ = writeln!(s, "{}", lifetime);
    for r in recs {
        s.push_str(&r.phrase);
        for p in &r.syls {
            let _ = write!(s, " {}", p);
        }
        let _ = writeln!(s, " {} {} {} {}", r.user, r.time, r.max, r.orig);
    }
    s.into_bytes()
}

// ------------------------------------------------------------------ generators

fn gen_char(rng: &mut Rng) -> char {
    loop {
        let c = match rng.below(10) {
            0 => rng.range(0x21, 0x7e) as u32,          // 1 byte, printable, no space
            1 => rng.range(0xa1, 0x7ff) as u32,         // 2 bytes
            2..=6 => rng.range(0x4e00, 0x9fff) as u32,  // 3 bytes, CJK
            7 => rng.range(0x800, 0xffff) as u32,       // 3 bytes, anything
            _ => rng.range(0x10000, 0x2ffff) as u32,    // 4 bytes
        };
        if let Some(ch) = char::from_u32(c) {
            if !ch.is_whitespace() && !ch.is_control() && c != 0xfeff {
                return ch;
            }
        }
    }
}

fn gen_syl(rng: &mut Rng) -> u16 {
    if rng.chance(1, 10) {
        return rng.range(1, 65535) as u16;
    }
    loop {
        let v = ((rng.below(22) << 9) | (rng.below(4) << 7) | (rng.below(14) << 3) | rng.below(6)) as u16;
        if v != 0 {
            return v;
        }
    }
}

fn gen_freq(rng: &mut Rng) -> i32 {
    match rng.below(12) {
        0 => 0,
        1 => 1,
        2 => i32::MAX,
        3 => i32::MAX - 1,
        4 => 65535,
        5 => 65536,
        _ => rng.range(0, 100000) as i32,
    }
}

/// one record; `len` syllables/characters
fn gen_rec(rng: &mut Rng, len: usize, allow_dead: bool) -> LRec {
    let phrase: String = (0..len).map(|_| gen_char(rng)).collect();
    let syls = (0..len).map(|_| gen_syl(rng)).collect();
    let orig = gen_freq(rng);
    let user = orig.max(gen_freq(rng)); // the legacy engine keeps user >= orig
    let max = user.max(gen_freq(rng));
    let time = gen_freq(rng);
    let mut r = LRec { phrase, syls, user, time, max, orig, deleted: false };
    if allow_dead && rng.chance(1, 5) {
        match rng.below(5) {
            0 => r.deleted = true,
            1 => r.user = -1 - rng.below(1000) as i32,
            2 => r.time = i32::MIN,
            3 => r.max = -1,
            _ => r.orig = -(rng.below(i32::MAX as u64) as i32) - 1,
        }
    }
    r
}

/// a record list with pairwise distinct (syllables, phrase) keys
pub fn gen_store(rng: &mut Rng, max_recs: usize, allow_dead: bool) -> Vec<LRec> {
    let n = match rng.below(8) {
        0 => 0,
        1 => 1,
        2 => max_recs,
        _ => rng.below(max_recs as u64 + 1) as usize,
    };
    let mut seen = std::collections::BTreeSet::new();
    let mut out = Vec::new();
    while out.len() < n {
        let len = match rng.below(6) {
            0 => 1,
            1 => 11,
            _ => rng.range(1, 11) as usize,
        };
        let r = gen_rec(rng, len, allow_dead);
        if seen.insert((r.syls.clone(), r.phrase.clone())) {
            out.push(r);
        }
    }
    out
}

pub fn gen_lifetime(rng: &mut Rng) -> i64 {
    match rng.below(10) {
        0 => 0,
        1 => 65535,
        2 => 65536,
        3 => 70000,
        4 => (1i64 << 31) - 1,
        5 => 1i64 << 31,
        6 => rng.range(0, 65535),
        _ => rng.range(0, 1i64 << 31),
    }
}

// ------------------------------------------------------------------ canonical output

fn hex(b: &[u8]) -> String {
    let mut s = String::with_capacity(b.len() * 2 + 1);
    if b.is_empty() {
        s.push('-');
    }
    for x in b {
        let _ = write!(s, "{:02x}", x);
    }
    s
}

fn unhex(s: &str) -> Vec<u8> {
    if s == "-" {
        return vec![];
    }
    (0..s.len() / 2).map(|i| u8::from_str_radix(&s[2 * i..2 * i + 2], 16).unwrap()).collect()
}

/// "syl,syl;hexphrase;freq;time"  (time omitted when with_time is false)
fn fmt_entry(syls: &[u16], phrase: &[u8], freq: u64, time: Option<u64>) -> String {
    let mut s = String::new();
    for (i, x) in syls.iter().enumerate() {
        if i > 0 {
            s.push(',');
        }
        let _ = write!(s, "{}", x);
    }
    if syls.is_empty() {
        s.push('-');
    }
    let _ = write!(s, ";{};{}", hex(phrase), freq);
    if let Some(t) = time {
        let _ = write!(s, ";{}", t);
    }
    s
}

fn fmt_loaded(r: Result<std::io::Result<Vec<(Vec<Syllable>, Phrase)>>, String>) -> String {
    match r {
        Err(_) => "panic".to_string(),
        Ok(Err(_)) => "err".to_string(),
        Ok(Ok(v)) => {
            let mut s = format!("ok {}", v.len());
            for (syls, p) in &v {
                let su: Vec<u16> = syls.iter().map(|x| x.to_u16()).collect();
                s.push(' ');
                s.push_str(&fmt_entry(&su, p.as_str().as_bytes(), p.freq() as u64, Some(p.last_used().unwrap_or(0))));
            }
            s
        }
    }
}

fn load_line(bytes: &[u8]) -> String {
    let b1 = bytes.to_vec();
    let b2 = bytes.to_vec();
    let rb = catch(move || chewing::dictionary::verif_uhash::load_bin(&b1));
    let rt = catch(move || chewing::dictionary::verif_uhash::load_text(&b2));
    format!("bin={} text={}", fmt_loaded(rb).replace(' ', "_"), fmt_loaded(rt).replace(' ', "_"))
}

type Key = (Vec<u16>, Vec<u8>);

fn dict_entries(d: &dyn Dictionary) -> Vec<(Key, u32)> {
    let mut v: Vec<(Key, u32)> = d
        .entries()
        .map(|(s, p)| ((s.iter().map(|x| x.to_u16()).collect(), p.as_str().as_bytes().to_vec()), p.freq()))
        .collect();
    v.sort();
    v
}

fn fmt_entries(v: &[(Key, u32)]) -> String {
    let mut s = format!("ok {}", v.len());
    for ((syls, p), f) in v {
        s.push(' ');
        s.push_str(&fmt_entry(syls, p, *f as u64, None));
    }
    s
}

static DIR_COUNTER: std::sync::atomic::AtomicU64 = std::sync::atomic::AtomicU64::new(0);

fn scratch_dir() -> PathBuf {
    let base = std::env::var("VERIF_SCRATCH").unwrap_or_else(|_| "/verif/_build/work/c19-scratch".to_string());
    let n = DIR_COUNTER.fetch_add(1, std::sync::atomic::Ordering::SeqCst);
    let d = PathBuf::from(base).join(format!("p{}-{}", std::process::id(), n));
    let _ = std::fs::remove_dir_all(&d);
    std::fs::create_dir_all(&d).expect("scratch dir");
    d
}

/// first start-up over a directory that holds only uhash.dat = bytes
fn migrate_line(bytes: &[u8]) -> String {
    let dir = scratch_dir();
    std::fs::write(dir.join("uhash.dat"), bytes).expect("write uhash.dat");
    let target = dir.join("chewing.dat");
    let r = catch(move || UserDictionaryLoader::new().userphrase_path(&target).load().map(|d| dict_entries(d.as_ref())));
    let s = match r {
        Err(_) => "panic".to_string(),
        Ok(Err(_)) => "err".to_string(),
        Ok(Ok(v)) => fmt_entries(&v),
    };
    let _ = std::fs::remove_dir_all(&dir);
    s
}

// ------------------------------------------------------------------ cases

fn emit_rec(s: &mut String, r: &LRec) {
    let _ = write!(s, " {} {} {} {} {} {}", r.deleted as u8, r.user, r.time, r.max, r.orig, r.syls.len());
    for p in &r.syls {
        let _ = write!(s, " {}", p);
    }
    let _ = write!(s, " {}", hex(r.phrase.as_bytes()));
}

/// P <id> <b|t> <lifetime> <n> {<deleted> <user> <time> <max> <orig> <nsyl> syl.. <hexphrase>}
fn emit_p(id: usize, kind: char, lifetime: i64, recs: &[LRec]) -> String {
    let mut s = format!("P {} {} {} {}", id, kind, lifetime, recs.len());
    for r in recs {
        emit_rec(&mut s, r);
    }
    s
}

struct Sizes {
    files: usize,
    max_recs: usize,
    migrate_every: usize,
}

fn sizes(tier: &str) -> Sizes {
    if tier == "thorough" {
        Sizes { files: 400, max_recs: 2000, migrate_every: 1 }
    } else {
        Sizes { files: 120, max_recs: 50, migrate_every: 1 }
    }
}

/// implementation result of one case line (None for definitions)
fn run_case(line: &str, bases: &mut BTreeMap<String, Vec<u8>>) -> Option<String> {
    let t: Vec<&str> = line.split(' ').collect();
    match t[0] {
        "B" => {
            bases.insert(t[1].to_string(), unhex(t[2]));
            None
        }
        "L" => Some(format!("L {} {}", t[1], load_line(&unhex(t[2])))),
        "C" => {
            let mut b = bases[t[2]].clone();
            let off: usize = t[3].parse().unwrap();
            b[off] = t[4].parse().unwrap();
            Some(format!("C {} {}", t[1], load_line(&b)))
        }
        "T" => {
            let b = &bases[t[2]];
            let n: usize = t[3].parse().unwrap();
            Some(format!("T {} {}", t[1], load_line(&b[..n])))
        }
        "X" => {
            let mut b = bases[t[2]].clone();
            b.extend_from_slice(&unhex(t[3]));
            Some(format!("X {} {}", t[1], load_line(&b)))
        }
        "M" => Some(format!("M {} {}", t[1], migrate_line(&unhex(t[2])))),
        "MC" => {
            let mut b = bases[t[2]].clone();
            let off: usize = t[3].parse().unwrap();
            b[off] = t[4].parse().unwrap();
            Some(format!("MC {} {}", t[1], migrate_line(&b)))
        }
        "P" => {
            // the harness-side writer
            let kind = t[2];
            let lifetime: i64 = t[3].parse().unwrap();
            let n: usize = t[4].parse().unwrap();
            let mut i = 5;
            let mut recs = vec![];
            for _ in 0..n {
                let deleted = t[i] == "1";
                let user = t[i + 1].parse().unwrap();
                let time = t[i + 2].parse().unwrap();
                let max = t[i + 3].parse().unwrap();
                let orig = t[i + 4].parse().unwrap();
                let ns: usize = t[i + 5].parse().unwrap();
                let syls = (0..ns).map(|k| t[i + 6 + k].parse().unwrap()).collect();
                let phrase = String::from_utf8(unhex(t[i + 6 + ns])).unwrap();
                i += 7 + ns;
                recs.push(LRec { phrase, syls, user, time, max, orig, deleted });
            }
            let bytes = if kind == "b" { write_bin(lifetime as i32, &recs) } else { write_text(lifetime, &recs) };
            Some(format!("P {} {}", t[1], hex(&bytes)))
        }
        _ => panic!("unknown case {}", t[0]),
    }
}

fn views(tier: &str, cases_path: &str, impl_path: &str) -> i32 {
    let sz = sizes(tier);
    let seed = seed_from_env();
    let mut cw = BufWriter::new(std::fs::File::create(cases_path).expect("create cases"));
    let mut iw = BufWriter::new(std::fs::File::create(impl_path).expect("create impl"));
    let mut bases = BTreeMap::new();
    let mut id = 0usize;
    let mut emit = |line: String, cw: &mut BufWriter<std::fs::File>, iw: &mut BufWriter<std::fs::File>| {
        writeln!(cw, "{}", line).unwrap();
        if let Some(r) = run_case(&line, &mut bases) {
            writeln!(iw, "{}", r).unwrap();
        }
    };
    // golden files of the repository first
    for g in ["golden-uhash-le-64.dat", "golden-uhash-text.dat"] {
        if let Ok(b) = std::fs::read(Path::new("/repo/tests/data").join(g)) {
            emit(format!("L {} {}", id, hex(&b)), &mut cw, &mut iw);
            emit(format!("M {} {}", id + 1, hex(&b)), &mut cw, &mut iw);
            id += 2;
        }
    }
    for f in 0..sz.files {
        let mut rng = Rng::new(seed.wrapping_mul(1000003).wrapping_add(f as u64));
        // most files are small; a few reach the tier's maximum
        let max = if f % 10 == 9 { sz.max_recs } else { sz.max_recs.min(12) };
        let binary = f % 2 == 0;
        let recs = gen_store(&mut rng, max, binary);
        let lifetime = gen_lifetime(&mut rng);
        let (kind, bytes) = if binary {
            ('b', write_bin(lifetime as i32, &recs))
        } else {
            ('t', write_text(lifetime, &recs))
        };
        let lt = if binary { (lifetime as i32) as i64 } else { lifetime };
        emit(emit_p(id, kind, lt, &recs), &mut cw, &mut iw);
        emit(format!("L {} {}", id + 1, hex(&bytes)), &mut cw, &mut iw);
        id += 2;
        if f % sz.migrate_every == 0 {
            emit(format!("M {} {}", id, hex(&bytes)), &mut cw, &mut iw);
            id += 1;
        }
        // duplicate keys: the later record wins
        if f % 7 == 3 && !recs.is_empty() {
            let mut dup = recs.clone();
            let mut r = recs[rng.below(recs.len() as u64) as usize].clone();
            r.user = gen_freq(&mut rng);
            r.deleted = false;
            dup.push(r);
            let bytes = if binary { write_bin(0, &dup) } else { write_text(0, &dup) };
            emit(format!("M {} {}", id, hex(&bytes)), &mut cw, &mut iw);
            id += 1;
        }
    }
    cw.flush().unwrap();
    iw.flush().unwrap();
    0
}

// ------------------------------------------------------------------ corrupt sweep (C12 legacy part)

fn small_bases(tier: &str) -> Vec<(char, Vec<u8>)> {
    let seed = seed_from_env();
    let mut v = vec![];
    let golden = |n: &str| std::fs::read(Path::new("/repo/tests/data").join(n)).ok();
    if let Some(b) = golden("golden-uhash-le-64.dat") {
        v.push(('b', b));
    }
    if let Some(b) = golden("golden-uhash-text.dat") {
        v.push(('t', b));
    }
    let n = if tier == "thorough" { 12 } else { 3 };
    for i in 0..n {
        let mut rng = Rng::new(seed.wrapping_mul(7919).wrapping_add(i as u64));
        let nrec = 1 + (i % 3) as usize;
        let mut recs = vec![];
        for k in 0..nrec {
            let len = if k == 0 && i % 4 == 1 { 11 } else { rng.range(1, 4) as usize };
            recs.push(gen_rec(&mut rng, len, true));
        }
        v.push(('b', write_bin(gen_lifetime(&mut rng) as i32, &recs)));
        let trecs: Vec<LRec> = recs.iter().filter(|r| !r.dead()).cloned().collect();
        let mut t = write_text(gen_lifetime(&mut rng) & 0xffff, &trecs);
        if i % 3 == 2 {
            // CRLF line ends and no final newline
            t = String::from_utf8(t).unwrap().replace('\n', "\r\n").trim_end().as_bytes().to_vec();
        }
        v.push(('t', t));
    }
    v
}

fn corrupt_cases(tier: &str, path: &str) -> usize {
    let mut w = BufWriter::new(std::fs::File::create(path).expect("create cases"));
    let mut id = 0usize;
    for (bi, (_, b)) in small_bases(tier).iter().enumerate() {
        writeln!(w, "B b{} {}", bi, hex(b)).unwrap();
        writeln!(w, "L {} {}", id, hex(b)).unwrap();
        id += 1;
        for off in 0..b.len() {
            let o = b[off];
            let mut vals = vec![0x00u8, 0x01, 0x7f, 0x80, 0xff, o.wrapping_add(1), o.wrapping_sub(1)];
            vals.sort();
            vals.dedup();
            for v in vals {
                if v != o {
                    writeln!(w, "C {} b{} {} {}", id, bi, off, v).unwrap();
                    id += 1;
                }
            }
        }
        for n in 0..b.len() {
            writeln!(w, "T {} b{} {}", id, bi, n).unwrap();
            id += 1;
        }
        for ext in ["00", "ff", "0a", "310a", "43426948"] {
            writeln!(w, "X {} b{} {}", id, bi, ext).unwrap();
            id += 1;
        }
        // through the real loader as well, for a slice of the single-byte edits
        let stride = if tier == "thorough" { 1 } else { 5 };
        for off in (0..b.len()).step_by(stride) {
            for v in [0x00u8, 0xff, 0x80] {
                if v != b[off] {
                    writeln!(w, "MC {} b{} {} {}", id, bi, off, v).unwrap();
                    id += 1;
                }
            }
        }
    }
    w.flush().unwrap();
    id
}

/// implementation side of a cases file, one result line per case on stdout, starting at case line `start`
fn worker(cases: &str, start: usize) -> i32 {
    let f = BufReader::new(std::fs::File::open(cases).expect("open cases"));
    let mut bases = BTreeMap::new();
    let out = std::io::stdout();
    let mut n = 0usize;
    for line in f.lines() {
        let line = line.unwrap();
        if line.starts_with("B ") {
            run_case(&line, &mut bases);
            continue;
        }
        if n >= start {
            let r = run_case(&line, &mut bases).unwrap();
            let mut o = out.lock();
            writeln!(o, "{}", r).unwrap();
            o.flush().unwrap();
        }
        n += 1;
    }
    0
}

/// run the worker under a watchdog; a dead or silent worker is restarted after the offending case
fn supervised(cases: &str, total: usize, case_lines: &[String], impl_out: &str, per_case: Duration) -> (Vec<String>, Vec<String>) {
    let exe = std::env::current_exe().expect("current_exe");
    let mut w = BufWriter::new(std::fs::File::create(impl_out).expect("create impl"));
    let mut done = 0usize;
    let mut aborts = vec![];
    let mut hangs = vec![];
    while done < total {
        let mut child = Command::new(&exe)
            .args(["worker", cases, &done.to_string()])
            .stdout(Stdio::piped())
            .stderr(Stdio::null())
            .spawn()
            .expect("spawn worker");
        let stdout = child.stdout.take().unwrap();
        let (tx, rx) = std::sync::mpsc::channel::<String>();
        let th = std::thread::spawn(move || {
            for l in BufReader::new(stdout).lines() {
                match l {
                    Ok(l) => {
                        if tx.send(l).is_err() {
                            break;
                        }
                    }
                    Err(_) => break,
                }
            }
        });
        loop {
            match rx.recv_timeout(per_case) {
                Ok(l) => {
                    writeln!(w, "{}", l).unwrap();
                    done += 1;
                }
                Err(std::sync::mpsc::RecvTimeoutError::Timeout) => {
                    let _ = child.kill();
                    let c = &case_lines[done];
                    let head: Vec<&str> = c.split(' ').take(2).collect();
                    writeln!(w, "{} {} hang", head[0], head[1]).unwrap();
                    hangs.push(c.clone());
                    done += 1;
                    break;
                }
                Err(std::sync::mpsc::RecvTimeoutError::Disconnected) => {
                    let _ = child.wait();
                    if done < total {
                        let c = &case_lines[done];
                        let head: Vec<&str> = c.split(' ').take(2).collect();
                        writeln!(w, "{} {} abort", head[0], head[1]).unwrap();
                        aborts.push(c.clone());
                        done += 1;
                    }
                    break;
                }
            }
        }
        let _ = child.wait();
        let _ = th.join();
    }
    w.flush().unwrap();
    (aborts, hangs)
}

fn driver_path() -> String {
    std::env::var("VERIF_DRIVER_C19").unwrap_or_else(|_| "/verif/_build/driver-c19".to_string())
}

/// expand a case line into the bytes it denotes
fn case_bytes(line: &str, bases: &BTreeMap<String, Vec<u8>>) -> Vec<u8> {
    let t: Vec<&str> = line.split(' ').collect();
    match t[0] {
        "L" | "M" => unhex(t[2]),
        "C" | "MC" => {
            let mut b = bases[t[2]].clone();
            b[t[3].parse::<usize>().unwrap()] = t[4].parse().unwrap();
            b
        }
        "T" => bases[t[2]][..t[3].parse::<usize>().unwrap()].to_vec(),
        "X" => {
            let mut b = bases[t[2]].clone();
            b.extend_from_slice(&unhex(t[3]));
            b
        }
        _ => vec![],
    }
}

fn corrupt(tier: &str, out_json: &str) -> i32 {
    let work = PathBuf::from(std::env::var("VERIF_WORK").unwrap_or_else(|_| "/verif/_build/work".to_string())).join(format!("c19-corrupt-{}", tier));
    std::fs::create_dir_all(&work).unwrap();
    let cases = work.join("cases.txt");
    let impl_out = work.join("impl.txt");
    let model_out = work.join("model.txt");
    let total = corrupt_cases(tier, cases.to_str().unwrap());
    let mut bases = BTreeMap::new();
    let mut case_lines = vec![];
    for l in BufReader::new(std::fs::File::open(&cases).unwrap()).lines() {
        let l = l.unwrap();
        if l.starts_with("B ") {
            let t: Vec<&str> = l.split(' ').collect();
            bases.insert(t[1].to_string(), unhex(t[2]));
        } else {
            case_lines.push(l);
        }
    }
    // the model's prediction, concurrently
    let drv = driver_path();
    let model_child = Command::new(&drv).args(["views", cases.to_str().unwrap(), model_out.to_str().unwrap()]).spawn();
    let t0 = Instant::now();
    let (aborts, hangs) = supervised(cases.to_str().unwrap(), total, &case_lines, impl_out.to_str().unwrap(), Duration::from_secs(10));
    let model_ok = match model_child {
        Ok(mut c) => c.wait().map(|s| s.success()).unwrap_or(false),
        Err(_) => false,
    };
    let impl_lines: Vec<String> = BufReader::new(std::fs::File::open(&impl_out).unwrap()).lines().map(|l| l.unwrap()).collect();
    let model_lines: Vec<String> = if model_ok {
        BufReader::new(std::fs::File::open(&model_out).unwrap()).lines().map(|l| l.unwrap()).collect()
    } else {
        vec![]
    };
    let mut mismatches = vec![];
    let mut panics = vec![];
    let mut outcomes: BTreeMap<String, usize> = BTreeMap::new();
    for (i, il) in impl_lines.iter().enumerate() {
        let is_panic = il.contains("=panic") || il.ends_with(" panic") || il.ends_with(" abort");
        let class = if is_panic {
            "panic"
        } else if il.ends_with(" hang") {
            "hang"
        } else if il.contains("bin=ok") || il.contains("text=ok") || il.contains(" ok ") {
            "ok"
        } else {
            "err"
        };
        *outcomes.entry(class.to_string()).or_insert(0) += 1;
        if is_panic {
            panics.push(i);
        }
        if model_ok && model_lines.get(i).map(|m| m != il).unwrap_or(true) {
            mismatches.push(i);
        }
    }
    let describe = |i: usize| -> String {
        let c = &case_lines[i];
        format!(
            "{{\"case\":{},\"bytes\":{},\"impl\":{},\"model\":{}}}",
            json_str(&c.chars().take(200).collect::<String>()),
            json_str(&hex(&case_bytes(c, &bases))),
            json_str(&impl_lines[i].chars().take(600).collect::<String>()),
            json_str(&model_lines.get(i).cloned().unwrap_or_default().chars().take(600).collect::<String>())
        )
    };
    let list = |v: &[usize]| -> String { v.iter().take(5).map(|&i| describe(i)).collect::<Vec<_>>().join(",") };
    let mut j = String::new();
    let _ = write!(
        j,
        "{{\"evaluations\":{},\"base_files\":{},\"model_ran\":{},\"wall_s\":{:.1},\"outcomes\":{{{}}},\"n_mismatches\":{},\"n_panics\":{},\"n_hangs\":{},\"n_aborts\":{},\"mismatches\":[{}],\"panics\":[{}],\"hangs\":[{}],\"aborts\":[{}]}}",
        impl_lines.len(),
        bases.len(),
        model_ok,
        t0.elapsed().as_secs_f64(),
        outcomes.iter().map(|(k, v)| format!("{}:{}", json_str(k), v)).collect::<Vec<_>>().join(","),
        mismatches.len(),
        panics.len(),
        hangs.len(),
        aborts.len(),
        list(&mismatches),
        list(&panics),
        hangs.iter().take(5).map(|c| json_str(c)).collect::<Vec<_>>().join(","),
        aborts.iter().take(5).map(|c| json_str(c)).collect::<Vec<_>>().join(",")
    );
    std::fs::write(out_json, j).expect("write json");
    if !model_ok {
        return 3;
    }
    if mismatches.is_empty() && panics.is_empty() && hangs.is_empty() && aborts.is_empty() { 0 } else { 1 }
}

// ------------------------------------------------------------------ replay

fn replay(args: &[String]) -> i32 {
    match args.first().map(|s| s.as_str()) {
        Some("load") => {
            let b = unhex(&args[1]);
            let l = load_line(&b);
            println!("{}", l);
            if l.contains("panic") { 1 } else { 0 }
        }
        Some("migrate") => {
            let b = unhex(&args[1]);
            let l = migrate_line(&b);
            println!("{}", l);
            if l.contains("panic") { 1 } else { 0 }
        }
        _ => {
            eprintln!("usage: c19 replay load|migrate <hex>");
            2
        }
    }
}

fn main() {
    let args: Vec<String> = std::env::args().skip(1).collect();
    let rc = match args.first().map(|s| s.as_str()) {
        Some("views") => views(&args[1], &args[2], &args[3]),
        Some("corrupt") => corrupt(&args[1], &args[2]),
        Some("worker") => worker(&args[1], args[2].parse().unwrap()),
        Some("replay") => replay(&args[1..]),
        _ => {
            eprintln!("usage: c19 views|corrupt|oracle|replay ...");
            2
        }
    };
    std::process::exit(rc);
}
