//! C19 (legacy user data migration) and the legacy-loader part of C12.
//!   c19 views   <quick|thorough> <cases-out> <impl-out>   generated legacy files: harness writers (P),
//!                                                         hook-level loaders (L), real UserDictionaryLoader (M)
//!   c19 corrupt <quick|thorough> <out.json>               every single-byte overwrite x 7 values + every truncation
//!                                                         of small valid files, implementation in a worker process
//!                                                         (catch_unwind + watchdog), compared with the model driver
//!   c19 oracle  <quick|thorough> <out.json>               property oracles on the implementation alone
//!   c19 replay  <load|migrate|store> ...                  re-run one input
//!   c19 worker  <cases> <start>                           (internal) implementation side of the cases file
//! Case file format (shared with ocaml/c19): see `emit_*` below.
use chewing::dictionary::{Dictionary, DictionaryMut, Phrase, Trie, UserDictionaryLoader};
use chewing::zhuyin::Syllable;
use std::collections::BTreeMap;
use std::fmt::Write as _;
use std::io::{BufRead, BufReader, BufWriter, Write};
use std::path::{Path, PathBuf};
use std::process::{Command, Stdio};
use std::time::{Duration, Instant};
use vharness::util::{catch, json_str, seed_from_env, Rng};

// ------------------------------------------------------------------ legacy records and independent writers

#[derive(Clone, Debug)]
pub struct LRec {
    pub phrase: String,
    pub syls: Vec<u16>,
    pub user: i32,
    pub time: i32,
    pub max: i32,
    pub orig: i32,
    pub deleted: bool,
}

impl LRec {
    fn dead(&self) -> bool {
        self.deleted || self.user < 0 || self.time < 0 || self.max < 0 || self.orig < 0
    }
}

const FIELD: usize = 125;

/// binary uhash.dat as the legacy C engine wrote it on a little-endian machine:
/// "CBiH", int lifetime, then one 125-byte field per record:
/// int userfreq, recentTime, maxfreq, origfreq; u8 n; n x u16 phone; u8 bytes; phrase; zero padding.
/// A removed record keeps its layout with the first phrase byte cleared.
pub fn write_bin(lifetime: i32, recs: &[LRec]) -> Vec<u8> {
    let mut out = Vec::new();
    out.extend_from_slice(b"CBiH");
    out.extend_from_slice(&lifetime.to_le_bytes());
    for r in recs {
        let mut f = Vec::with_capacity(FIELD);
        for v in [r.user, r.time, r.max, r.orig] {
            f.extend_from_slice(&v.to_le_bytes());
        }
        f.push(r.syls.len() as u8);
        for s in &r.syls {
            f.extend_from_slice(&s.to_le_bytes());
        }
        let pb = r.phrase.as_bytes();
        f.push(pb.len() as u8);
        let at = f.len();
        f.extend_from_slice(pb);
        if r.deleted && !pb.is_empty() {
            f[at] = 0;
        }
        assert!(f.len() <= FIELD, "record does not fit the legacy field");
        f.resize(FIELD, 0);
        out.extend_from_slice(&f);
    }
    out
}

/// text uhash.dat: lifetime line, then "phrase phone.. userfreq recentTime maxfreq origfreq" per line
pub fn write_text(lifetime: i64, recs: &[LRec]) -> Vec<u8> {
    let mut s = String::new();
    let _ = writeln!(s, "{}", lifetime);
    for r in recs {
        s.push_str(&r.phrase);
        for p in &r.syls {
            let _ = write!(s, " {}", p);
        }
        let _ = writeln!(s, " {} {} {} {}", r.user, r.time, r.max, r.orig);
    }
    s.into_bytes()
}

// ------------------------------------------------------------------ generators

fn gen_char(rng: &mut Rng) -> char {
    loop {
        let c = match rng.below(10) {
            0 => rng.range(0x21, 0x7e) as u32,          // 1 byte, printable, no space
            1 => rng.range(0xa1, 0x7ff) as u32,         // 2 bytes
            2..=6 => rng.range(0x4e00, 0x9fff) as u32,  // 3 bytes, CJK
            7 => rng.range(0x800, 0xffff) as u32,       // 3 bytes, anything
            _ => rng.range(0x10000, 0x2ffff) as u32,    // 4 bytes
        };
        if let Some(ch) = char::from_u32(c) {
            if !ch.is_whitespace() && !ch.is_control() && c != 0xfeff {
                return ch;
            }
        }
    }
}

fn gen_syl(rng: &mut Rng) -> u16 {
    if rng.chance(1, 10) {
        return rng.range(1, 65535) as u16;
    }
    loop {
        let v = ((rng.below(22) << 9) | (rng.below(4) << 7) | (rng.below(14) << 3) | rng.below(6)) as u16;
        if v != 0 {
            return v;
        }
    }
}

fn gen_freq(rng: &mut Rng) -> i32 {
    match rng.below(12) {
        0 => 0,
        1 => 1,
        2 => i32::MAX,
        3 => i32::MAX - 1,
        4 => 65535,
        5 => 65536,
        _ => rng.range(0, 100000) as i32,
    }
}

/// one record; `len` syllables/characters
fn gen_rec(rng: &mut Rng, len: usize, allow_dead: bool) -> LRec {
    let phrase: String = (0..len).map(|_| gen_char(rng)).collect();
    let syls = (0..len).map(|_| gen_syl(rng)).collect();
    let orig = gen_freq(rng);
    let user = orig.max(gen_freq(rng)); // the legacy engine keeps user >= orig
    let max = user.max(gen_freq(rng));
    let time = gen_freq(rng);
    let mut r = LRec { phrase, syls, user, time, max, orig, deleted: false };
    if allow_dead && rng.chance(1, 5) {
        match rng.below(5) {
            0 => r.deleted = true,
            1 => r.user = -1 - rng.below(1000) as i32,
            2 => r.time = i32::MIN,
            3 => r.max = -1,
            _ => r.orig = -(rng.below(i32::MAX as u64) as i32) - 1,
        }
    }
    r
}

/// a record list with pairwise distinct (syllables, phrase) keys
pub fn gen_store(rng: &mut Rng, max_recs: usize, allow_dead: bool) -> Vec<LRec> {
    let n = match rng.below(8) {
        0 => 0,
        1 => 1,
        2 => max_recs,
        _ => rng.below(max_recs as u64 + 1) as usize,
    };
    let mut seen = std::collections::BTreeSet::new();
    let mut out = Vec::new();
    while out.len() < n {
        let len = match rng.below(6) {
            0 => 1,
            1 => 11,
            _ => rng.range(1, 11) as usize,
        };
        let r = gen_rec(rng, len, allow_dead);
        if seen.insert((r.syls.clone(), r.phrase.clone())) {
            out.push(r);
        }
    }
    out
}

pub fn gen_lifetime(rng: &mut Rng) -> i64 {
    match rng.below(10) {
        0 => 0,
        1 => 65535,
        2 => 65536,
        3 => 70000,
        4 => (1i64 << 31) - 1,
        5 => 1i64 << 31,
        6 => rng.range(0, 65535),
        _ => rng.range(0, 1i64 << 31),
    }
}

// ------------------------------------------------------------------ canonical output

fn hex(b: &[u8]) -> String {
    let mut s = String::with_capacity(b.len() * 2 + 1);
    if b.is_empty() {
        s.push('-');
    }
    for x in b {
        let _ = write!(s, "{:02x}", x);
    }
    s
}

fn unhex(s: &str) -> Vec<u8> {
    if s == "-" {
        return vec![];
    }
    (0..s.len() / 2).map(|i| u8::from_str_radix(&s[2 * i..2 * i + 2], 16).unwrap()).collect()
}

/// "syl,syl;hexphrase;freq;time"  (time omitted when with_time is false)
fn fmt_entry(syls: &[u16], phrase: &[u8], freq: u64, time: Option<u64>) -> String {
    let mut s = String::new();
    for (i, x) in syls.iter().enumerate() {
        if i > 0 {
            s.push(',');
        }
        let _ = write!(s, "{}", x);
    }
    if syls.is_empty() {
        s.push('-');
    }
    let _ = write!(s, ";{};{}", hex(phrase), freq);
    if let Some(t) = time {
        let _ = write!(s, ";{}", t);
    }
    s
}

fn fmt_loaded(r: Result<std::io::Result<Vec<(Vec<Syllable>, Phrase)>>, String>) -> String {
    match r {
        Err(_) => "panic".to_string(),
        Ok(Err(_)) => "err".to_string(),
        Ok(Ok(v)) => {
            let mut s = format!("ok {}", v.len());
            for (syls, p) in &v {
                let su: Vec<u16> = syls.iter().map(|x| x.to_u16()).collect();
                s.push(' ');
                s.push_str(&fmt_entry(&su, p.as_str().as_bytes(), p.freq() as u64, Some(p.last_used().unwrap_or(0))));
            }
            s
        }
    }
}

fn load_line(bytes: &[u8]) -> String {
    let b1 = bytes.to_vec();
    let b2 = bytes.to_vec();
    let rb = catch(move || chewing::dictionary::verif_uhash::load_bin(&b1));
    let rt = catch(move || chewing::dictionary::verif_uhash::load_text(&b2));
    format!("bin={} text={}", fmt_loaded(rb).replace(' ', "_"), fmt_loaded(rt).replace(' ', "_"))
}

type Key = (Vec<u16>, Vec<u8>);

fn dict_entries(d: &dyn Dictionary) -> Vec<(Key, u32)> {
    let mut v: Vec<(Key, u32)> = d
        .entries()
        .map(|(s, p)| ((s.iter().map(|x| x.to_u16()).collect(), p.as_str().as_bytes().to_vec()), p.freq()))
        .collect();
    v.sort();
    v
}

fn fmt_entries(v: &[(Key, u32)]) -> String {
    let mut s = format!("ok {}", v.len());
    for ((syls, p), f) in v {
        s.push(' ');
        s.push_str(&fmt_entry(syls, p, *f as u64, None));
    }
    s
}

static DIR_COUNTER: std::sync::atomic::AtomicU64 = std::sync::atomic::AtomicU64::new(0);

fn scratch_dir() -> PathBuf {
    let base = std::env::var("VERIF_SCRATCH").unwrap_or_else(|_| "/verif/_build/work/c19-scratch".to_string());
    let n = DIR_COUNTER.fetch_add(1, std::sync::atomic::Ordering::SeqCst);
    let d = PathBuf::from(base).join(format!("p{}-{}", std::process::id(), n));
    let _ = std::fs::remove_dir_all(&d);
    std::fs::create_dir_all(&d).expect("scratch dir");
    d
}

/// first start-up over a directory that holds only uhash.dat = bytes
fn migrate_line(bytes: &[u8]) -> String {
    let dir = scratch_dir();
    std::fs::write(dir.join("uhash.dat"), bytes).expect("write uhash.dat");
    let target = dir.join("chewing.dat");
    let r = catch(move || UserDictionaryLoader::new().userphrase_path(&target).load().map(|d| dict_entries(d.as_ref())));
    let s = match r {
        Err(_) => "panic".to_string(),
        Ok(Err(_)) => "err".to_string(),
        Ok(Ok(v)) => fmt_entries(&v),
    };
    let _ = std::fs::remove_dir_all(&dir);
    s
}

// ------------------------------------------------------------------ cases

fn emit_rec(s: &mut String, r: &LRec) {
    let _ = write!(s, " {} {} {} {} {} {}", r.deleted as u8, r.user, r.time, r.max, r.orig, r.syls.len());
    for p in &r.syls {
        let _ = write!(s, " {}", p);
    }
    let _ = write!(s, " {}", hex(r.phrase.as_bytes()));
}

/// P <id> <b|t> <lifetime> <n> {<deleted> <user> <time> <max> <orig> <nsyl> syl.. <hexphrase>}
fn emit_p(id: usize, kind: char, lifetime: i64, recs: &[LRec]) -> String {
    let mut s = format!("P {} {} {} {}", id, kind, lifetime, recs.len());
    for r in recs {
        emit_rec(&mut s, r);
    }
    s
}

struct Sizes {
    files: usize,
    max_recs: usize,
    migrate_every: usize,
}

fn sizes(tier: &str) -> Sizes {
    if tier == "thorough" {
        Sizes { files: 400, max_recs: 2000, migrate_every: 1 }
    } else {
        Sizes { files: 120, max_recs: 50, migrate_every: 1 }
    }
}

/// implementation result of one case line (None for definitions)
fn run_case(line: &str, bases: &mut BTreeMap<String, Vec<u8>>) -> Option<String> {
    let t: Vec<&str> = line.split(' ').collect();
    match t[0] {
        "B" => {
            bases.insert(t[1].to_string(), unhex(t[2]));
            None
        }
        "L" => Some(format!("L {} {}", t[1], load_line(&unhex(t[2])))),
        "C" => {
            let mut b = bases[t[2]].clone();
            let off: usize = t[3].parse().unwrap();
            b[off] = t[4].parse().unwrap();
            Some(format!("C {} {}", t[1], load_line(&b)))
        }
        "T" => {
            let b = &bases[t[2]];
            let n: usize = t[3].parse().unwrap();
            Some(format!("T {} {}", t[1], load_line(&b[..n])))
        }
        "X" => {
            let mut b = bases[t[2]].clone();
            b.extend_from_slice(&unhex(t[3]));
            Some(format!("X {} {}", t[1], load_line(&b)))
        }
        "M" => Some(format!("M {} {}", t[1], migrate_line(&unhex(t[2])))),
        "MC" => {
            let mut b = bases[t[2]].clone();
            let off: usize = t[3].parse().unwrap();
            b[off] = t[4].parse().unwrap();
            Some(format!("MC {} {}", t[1], migrate_line(&b)))
        }
        "S" => Some(format!("S {} {}", t[1], sqlite_v1_line(&t))),
        "P" => {
            // the harness-side writer
            let kind = t[2];
            let lifetime: i64 = t[3].parse().unwrap();
            let n: usize = t[4].parse().unwrap();
            let mut i = 5;
            let mut recs = vec![];
            for _ in 0..n {
                let deleted = t[i] == "1";
                let user = t[i + 1].parse().unwrap();
                let time = t[i + 2].parse().unwrap();
                let max = t[i + 3].parse().unwrap();
                let orig = t[i + 4].parse().unwrap();
                let ns: usize = t[i + 5].parse().unwrap();
                let syls = (0..ns).map(|k| t[i + 6 + k].parse().unwrap()).collect();
                let phrase = String::from_utf8(unhex(t[i + 6 + ns])).unwrap();
                i += 7 + ns;
                recs.push(LRec { phrase, syls, user, time, max, orig, deleted });
            }
            let bytes = if kind == "b" { write_bin(lifetime as i32, &recs) } else { write_text(lifetime, &recs) };
            Some(format!("P {} {}", t[1], hex(&bytes)))
        }
        _ => panic!("unknown case {}", t[0]),
    }
}

fn views(tier: &str, cases_path: &str, impl_path: &str) -> i32 {
    let sz = sizes(tier);
    let seed = seed_from_env();
    let mut cw = BufWriter::new(std::fs::File::create(cases_path).expect("create cases"));
    let mut iw = BufWriter::new(std::fs::File::create(impl_path).expect("create impl"));
    let mut bases = BTreeMap::new();
    let mut id = 0usize;
    let mut emit = |line: String, cw: &mut BufWriter<std::fs::File>, iw: &mut BufWriter<std::fs::File>| {
        writeln!(cw, "{}", line).unwrap();
        if let Some(r) = run_case(&line, &mut bases) {
            writeln!(iw, "{}", r).unwrap();
        }
    };
    // golden files of the repository first
    for g in ["golden-uhash-le-64.dat", "golden-uhash-text.dat"] {
        if let Ok(b) = std::fs::read(Path::new("/repo/tests/data").join(g)) {
            emit(format!("L {} {}", id, hex(&b)), &mut cw, &mut iw);
            emit(format!("M {} {}", id + 1, hex(&b)), &mut cw, &mut iw);
            id += 2;
        }
    }
    for f in 0..sz.files {
        let mut rng = Rng::new(seed.wrapping_mul(1000003).wrapping_add(f as u64));
        // most files are small; a few reach the tier's maximum
        let max = if f % 10 == 9 { sz.max_recs } else { sz.max_recs.min(12) };
        let binary = f % 2 == 0;
        let recs = gen_store(&mut rng, max, binary);
        let lifetime = gen_lifetime(&mut rng);
        let (kind, bytes) = if binary {
            ('b', write_bin(lifetime as i32, &recs))
        } else {
            ('t', write_text(lifetime, &recs))
        };
        let lt = if binary { (lifetime as i32) as i64 } else { lifetime };
        emit(emit_p(id, kind, lt, &recs), &mut cw, &mut iw);
        emit(format!("L {} {}", id + 1, hex(&bytes)), &mut cw, &mut iw);
        id += 2;
        if f % sz.migrate_every == 0 {
            emit(format!("M {} {}", id, hex(&bytes)), &mut cw, &mut iw);
            id += 1;
        }
        // duplicate keys: the later record wins
        if f % 7 == 3 && !recs.is_empty() {
            let mut dup = recs.clone();
            let mut r = recs[rng.below(recs.len() as u64) as usize].clone();
            r.user = gen_freq(&mut rng);
            r.deleted = false;
            dup.push(r);
            let bytes = if binary { write_bin(0, &dup) } else { write_text(0, &dup) };
            emit(format!("M {} {}", id, hex(&bytes)), &mut cw, &mut iw);
            id += 1;
        }
    }
    cw.flush().unwrap();
    iw.flush().unwrap();
    0
}

// ------------------------------------------------------------------ corrupt sweep (C12 legacy part)

fn small_bases(tier: &str) -> Vec<(char, Vec<u8>)> {
    let seed = seed_from_env();
    let mut v = vec![];
    let golden = |n: &str| std::fs::read(Path::new("/repo/tests/data").join(n)).ok();
    if let Some(b) = golden("golden-uhash-le-64.dat") {
        v.push(('b', b));
    }
    if let Some(b) = golden("golden-uhash-text.dat") {
        v.push(('t', b));
    }
    let n = if tier == "thorough" { 12 } else { 3 };
    for i in 0..n {
        let mut rng = Rng::new(seed.wrapping_mul(7919).wrapping_add(i as u64));
        let nrec = 1 + (i % 3) as usize;
        let mut recs = vec![];
        for k in 0..nrec {
            let len = if k == 0 && i % 4 == 1 { 11 } else { rng.range(1, 4) as usize };
            recs.push(gen_rec(&mut rng, len, true));
        }
        v.push(('b', write_bin(gen_lifetime(&mut rng) as i32, &recs)));
        let trecs: Vec<LRec> = recs.iter().filter(|r| !r.dead()).cloned().collect();
        let mut t = write_text(gen_lifetime(&mut rng) & 0xffff, &trecs);
        if i % 3 == 2 {
            // CRLF line ends and no final newline
            t = String::from_utf8(t).unwrap().replace('\n', "\r\n").trim_end().as_bytes().to_vec();
        }
        v.push(('t', t));
    }
    v
}

fn corrupt_cases(tier: &str, path: &str) -> usize {
    let mut w = BufWriter::new(std::fs::File::create(path).expect("create cases"));
    let mut id = 0usize;
    for (bi, (kind, b)) in small_bases(tier).iter().enumerate() {
        writeln!(w, "B b{} {}", bi, hex(b)).unwrap();
        writeln!(w, "L {} {}", id, hex(b)).unwrap();
        id += 1;
        if *kind == 'b' {
            // the two length bytes of every 125-byte record of a binary file take ALL 256 values (a bound
            // check that is off by one shows at exactly one of them: seeded change C12-B)
            let mut rec = 8usize;
            while rec + 125 <= b.len() {
                let n = b[rec + 16] as usize;
                let mut offs = vec![rec + 16];
                if 17 + 2 * n < 125 {
                    offs.push(rec + 17 + 2 * n);
                }
                for off in offs {
                    for v in 0..=255u8 {
                        if v != b[off] {
                            writeln!(w, "C {} b{} {} {}", id, bi, off, v).unwrap();
                            id += 1;
                        }
                    }
                }
                rec += 125;
            }
        }
        for off in 0..b.len() {
            let o = b[off];
            let mut vals = vec![0x00u8, 0x01, 0x7f, 0x80, 0xff, o.wrapping_add(1), o.wrapping_sub(1)];
            vals.sort();
            vals.dedup();
            for v in vals {
                if v != o {
                    writeln!(w, "C {} b{} {} {}", id, bi, off, v).unwrap();
                    id += 1;
                }
            }
        }
        for n in 0..b.len() {
            writeln!(w, "T {} b{} {}", id, bi, n).unwrap();
            id += 1;
        }
        for ext in ["00", "ff", "0a", "310a", "43426948"] {
            writeln!(w, "X {} b{} {}", id, bi, ext).unwrap();
            id += 1;
        }
        // through the real loader as well, for a slice of the single-byte edits
        let stride = if tier == "thorough" { 1 } else { 5 };
        for off in (0..b.len()).step_by(stride) {
            for v in [0x00u8, 0xff, 0x80] {
                if v != b[off] {
                    writeln!(w, "MC {} b{} {} {}", id, bi, off, v).unwrap();
                    id += 1;
                }
            }
        }
    }
    w.flush().unwrap();
    id
}

/// implementation side of a cases file, one result line per case on stdout, starting at case line `start`
fn worker(cases: &str, start: usize) -> i32 {
    let f = BufReader::new(std::fs::File::open(cases).expect("open cases"));
    let mut bases = BTreeMap::new();
    let out = std::io::stdout();
    let mut n = 0usize;
    for line in f.lines() {
        let line = line.unwrap();
        if line.starts_with("B ") {
            run_case(&line, &mut bases);
            continue;
        }
        if n >= start {
            let r = run_case(&line, &mut bases).unwrap();
            let mut o = out.lock();
            writeln!(o, "{}", r).unwrap();
            o.flush().unwrap();
        }
        n += 1;
    }
    0
}

/// run the worker under a watchdog; a dead or silent worker is restarted after the offending case
fn supervised(cases: &str, total: usize, case_lines: &[String], impl_out: &str, per_case: Duration) -> (Vec<String>, Vec<String>) {
    let exe = std::env::current_exe().expect("current_exe");
    let mut w = BufWriter::new(std::fs::File::create(impl_out).expect("create impl"));
    let mut done = 0usize;
    let mut aborts = vec![];
    let mut hangs = vec![];
    while done < total {
        let mut child = Command::new(&exe)
            .args(["worker", cases, &done.to_string()])
            .stdout(Stdio::piped())
            .stderr(Stdio::null())
            .spawn()
            .expect("spawn worker");
        let stdout = child.stdout.take().unwrap();
        let (tx, rx) = std::sync::mpsc::channel::<String>();
        let th = std::thread::spawn(move || {
            for l in BufReader::new(stdout).lines() {
                match l {
                    Ok(l) => {
                        if tx.send(l).is_err() {
                            break;
                        }
                    }
                    Err(_) => break,
                }
            }
        });
        loop {
            match rx.recv_timeout(per_case) {
                Ok(l) => {
                    writeln!(w, "{}", l).unwrap();
                    done += 1;
                }
                Err(std::sync::mpsc::RecvTimeoutError::Timeout) => {
                    let _ = child.kill();
                    let c = &case_lines[done];
                    let head: Vec<&str> = c.split(' ').take(2).collect();
                    writeln!(w, "{} {} hang", head[0], head[1]).unwrap();
                    hangs.push(c.clone());
                    done += 1;
                    break;
                }
                Err(std::sync::mpsc::RecvTimeoutError::Disconnected) => {
                    let _ = child.wait();
                    if done < total {
                        let c = &case_lines[done];
                        let head: Vec<&str> = c.split(' ').take(2).collect();
                        writeln!(w, "{} {} abort", head[0], head[1]).unwrap();
                        aborts.push(c.clone());
                        done += 1;
                    }
                    break;
                }
            }
        }
        let _ = child.wait();
        let _ = th.join();
    }
    w.flush().unwrap();
    (aborts, hangs)
}

fn driver_path() -> String {
    std::env::var("VERIF_DRIVER_C19").unwrap_or_else(|_| "/verif/_build/driver-c19".to_string())
}

/// expand a case line into the bytes it denotes
fn case_bytes(line: &str, bases: &BTreeMap<String, Vec<u8>>) -> Vec<u8> {
    let t: Vec<&str> = line.split(' ').collect();
    match t[0] {
        "L" | "M" => unhex(t[2]),
        "C" | "MC" => {
            let mut b = bases[t[2]].clone();
            b[t[3].parse::<usize>().unwrap()] = t[4].parse().unwrap();
            b
        }
        "T" => bases[t[2]][..t[3].parse::<usize>().unwrap()].to_vec(),
        "X" => {
            let mut b = bases[t[2]].clone();
            b.extend_from_slice(&unhex(t[3]));
            b
        }
        _ => vec![],
    }
}

fn corrupt(tier: &str, out_json: &str) -> i32 {
    let work = PathBuf::from(std::env::var("VERIF_WORK").unwrap_or_else(|_| "/verif/_build/work".to_string())).join(format!("c19-corrupt-{}", tier));
    std::fs::create_dir_all(&work).unwrap();
    let cases = work.join("cases.txt");
    let impl_out = work.join("impl.txt");
    let model_out = work.join("model.txt");
    let total = corrupt_cases(tier, cases.to_str().unwrap());
    let mut bases = BTreeMap::new();
    let mut case_lines = vec![];
    for l in BufReader::new(std::fs::File::open(&cases).unwrap()).lines() {
        let l = l.unwrap();
        if l.starts_with("B ") {
            let t: Vec<&str> = l.split(' ').collect();
            bases.insert(t[1].to_string(), unhex(t[2]));
        } else {
            case_lines.push(l);
        }
    }
    // the model's prediction, concurrently
    let drv = driver_path();
    let model_child = Command::new(&drv).args(["views", cases.to_str().unwrap(), model_out.to_str().unwrap()]).spawn();
    let t0 = Instant::now();
    let (aborts, hangs) = supervised(cases.to_str().unwrap(), total, &case_lines, impl_out.to_str().unwrap(), Duration::from_secs(10));
    let model_ok = match model_child {
        Ok(mut c) => c.wait().map(|s| s.success()).unwrap_or(false),
        Err(_) => false,
    };
    let impl_lines: Vec<String> = BufReader::new(std::fs::File::open(&impl_out).unwrap()).lines().map(|l| l.unwrap()).collect();
    let model_lines: Vec<String> = if model_ok {
        BufReader::new(std::fs::File::open(&model_out).unwrap()).lines().map(|l| l.unwrap()).collect()
    } else {
        vec![]
    };
    let mut mismatches = vec![];
    let mut panics = vec![];
    let mut outcomes: BTreeMap<String, usize> = BTreeMap::new();
    for (i, il) in impl_lines.iter().enumerate() {
        let is_panic = il.contains("=panic") || il.ends_with(" panic") || il.ends_with(" abort");
        let class = if is_panic {
            "panic"
        } else if il.ends_with(" hang") {
            "hang"
        } else if il.contains("bin=ok") || il.contains("text=ok") || il.contains(" ok ") {
            "ok"
        } else {
            "err"
        };
        *outcomes.entry(class.to_string()).or_insert(0) += 1;
        if is_panic {
            panics.push(i);
        }
        if model_ok && model_lines.get(i).map(|m| m != il).unwrap_or(true) {
            mismatches.push(i);
        }
    }
    let describe = |i: usize| -> String {
        let c = &case_lines[i];
        format!(
            "{{\"case\":{},\"bytes\":{},\"impl\":{},\"model\":{}}}",
            json_str(&c.chars().take(200).collect::<String>()),
            json_str(&hex(&case_bytes(c, &bases))),
            json_str(&impl_lines[i].chars().take(600).collect::<String>()),
            json_str(&model_lines.get(i).cloned().unwrap_or_default().chars().take(600).collect::<String>())
        )
    };
    let list = |v: &[usize]| -> String { v.iter().take(5).map(|&i| describe(i)).collect::<Vec<_>>().join(",") };
    let mut j = String::new();
    let _ = write!(
        j,
        "{{\"evaluations\":{},\"base_files\":{},\"model_ran\":{},\"wall_s\":{:.1},\"outcomes\":{{{}}},\"n_mismatches\":{},\"n_panics\":{},\"n_hangs\":{},\"n_aborts\":{},\"mismatches\":[{}],\"panics\":[{}],\"hangs\":[{}],\"aborts\":[{}]}}",
        impl_lines.len(),
        bases.len(),
        model_ok,
        t0.elapsed().as_secs_f64(),
        outcomes.iter().map(|(k, v)| format!("{}:{}", json_str(k), v)).collect::<Vec<_>>().join(","),
        mismatches.len(),
        panics.len(),
        hangs.len(),
        aborts.len(),
        list(&mismatches),
        list(&panics),
        hangs.iter().take(5).map(|c| json_str(c)).collect::<Vec<_>>().join(","),
        aborts.iter().take(5).map(|c| json_str(c)).collect::<Vec<_>>().join(",")
    );
    std::fs::write(out_json, j).expect("write json");
    if !model_ok {
        return 3;
    }
    if mismatches.is_empty() && panics.is_empty() && hangs.is_empty() && aborts.is_empty() { 0 } else { 1 }
}

// ------------------------------------------------------------------ legacy SQLite stores (written with rusqlite, independent of the implementation)

const V1_DDL: &str = "CREATE TABLE userphrase_v1 (time INTEGER,user_freq INTEGER,max_freq INTEGER,orig_freq INTEGER,length INTEGER,phone_0 INTEGER,phone_1 INTEGER,phone_2 INTEGER,phone_3 INTEGER,phone_4 INTEGER,phone_5 INTEGER,phone_6 INTEGER,phone_7 INTEGER,phone_8 INTEGER,phone_9 INTEGER,phone_10 INTEGER,phrase TEXT,PRIMARY KEY (phone_0,phone_1,phone_2,phone_3,phone_4,phone_5,phone_6,phone_7,phone_8,phone_9,phone_10,phrase));
CREATE TABLE config_v1 (id INTEGER,value INTEGER,PRIMARY KEY (id));";

const V2_DDL: &str = "CREATE TABLE dictionary_v1 (syllables BLOB NOT NULL, phrase TEXT NOT NULL, freq INTEGER NOT NULL, sort_id INTEGER, userphrase_id INTEGER, PRIMARY KEY (syllables, phrase)) WITHOUT ROWID;
CREATE TABLE userphrase_v2 (id INTEGER PRIMARY KEY, user_freq INTEGER, time INTEGER);
CREATE TABLE migration_v1 (name TEXT PRIMARY KEY) WITHOUT ROWID;
CREATE TABLE info_v1 (key TEXT PRIMARY KEY, value TEXT NOT NULL) WITHOUT ROWID;
INSERT INTO migration_v1 (name) VALUES ('migrate_from_userphrase_v1');
PRAGMA application_id = 1128809815;";

/// the older schema (libchewing 0.4/0.5): one row per phrase, eleven phone columns
pub fn write_sqlite_v1(path: &Path, lifetime: i64, recs: &[LRec]) {
    let conn = rusqlite::Connection::open(path).expect("create sqlite");
    conn.execute_batch(V1_DDL).expect("v1 ddl");
    conn.execute("INSERT INTO config_v1 VALUES (0, ?1)", [lifetime]).expect("config");
    for r in recs {
        let mut v: Vec<rusqlite::types::Value> = vec![
            (r.time as i64).into(),
            (r.user as i64).into(),
            (r.max as i64).into(),
            (r.orig as i64).into(),
            (r.syls.len() as i64).into(),
        ];
        for i in 0..11 {
            v.push((r.syls.get(i).copied().unwrap_or(0) as i64).into());
        }
        v.push(r.phrase.clone().into());
        conn.execute(
            "INSERT INTO userphrase_v1 VALUES (?1,?2,?3,?4,?5,?6,?7,?8,?9,?10,?11,?12,?13,?14,?15,?16,?17)",
            rusqlite::params_from_iter(v),
        )
        .expect("insert v1");
    }
    conn.close().expect("close");
}

/// the schema of the SQLite back end (dictionary_v1 + userphrase_v2); every third row has no user row
pub fn write_sqlite_v2(path: &Path, recs: &[LRec]) {
    let conn = rusqlite::Connection::open(path).expect("create sqlite");
    conn.execute_batch(V2_DDL).expect("v2 ddl");
    for (i, r) in recs.iter().enumerate() {
        let blob: Vec<u8> = r.syls.iter().flat_map(|s| s.to_le_bytes()).collect();
        if i % 3 == 2 {
            conn.execute(
                "INSERT INTO dictionary_v1 (syllables, phrase, freq) VALUES (?1, ?2, ?3)",
                rusqlite::params![blob, r.phrase, r.user as i64],
            )
            .expect("insert dict");
        } else {
            conn.execute("INSERT INTO userphrase_v2 (id, user_freq, time) VALUES (?1, ?2, ?3)", rusqlite::params![(i + 1) as i64, r.user as i64, r.time as i64])
                .expect("insert user");
            conn.execute(
                "INSERT INTO dictionary_v1 (syllables, phrase, freq, userphrase_id) VALUES (?1, ?2, ?3, ?4)",
                rusqlite::params![blob, r.phrase, r.orig as i64, (i + 1) as i64],
            )
            .expect("insert dict");
        }
    }
    conn.close().expect("close");
}

/// the legacy rows of a SQLite store, as sorted text lines
fn sqlite_legacy_rows(path: &Path) -> Vec<String> {
    let conn = match rusqlite::Connection::open_with_flags(path, rusqlite::OpenFlags::SQLITE_OPEN_READ_ONLY) {
        Ok(c) => c,
        Err(e) => return vec![format!("open error {e}")],
    };
    let mut out = vec![];
    let has = |t: &str| -> bool {
        conn.query_row("SELECT EXISTS (SELECT 1 FROM sqlite_master WHERE type='table' AND name=?1)", [t], |r| r.get::<_, bool>(0)).unwrap_or(false)
    };
    let mut dump = |sql: &str, tag: &str| {
        if let Ok(mut st) = conn.prepare(sql) {
            let n = st.column_count();
            let rows = st.query_map([], |row| {
                let mut s = String::from(tag);
                for i in 0..n {
                    let v: rusqlite::types::Value = row.get(i)?;
                    let _ = write!(s, "|{:?}", v);
                }
                Ok(s)
            });
            if let Ok(rows) = rows {
                for r in rows.flatten() {
                    out.push(r);
                }
            }
        }
    };
    if has("userphrase_v1") {
        dump("SELECT time,user_freq,max_freq,orig_freq,length,phone_0,phone_1,phone_2,phone_3,phone_4,phone_5,phone_6,phone_7,phone_8,phone_9,phone_10,phrase FROM userphrase_v1", "v1");
    } else {
        dump("SELECT hex(syllables),phrase,freq,userphrase_id FROM dictionary_v1", "d");
        dump("SELECT id,user_freq,time FROM userphrase_v2", "u");
    }
    out.sort();
    out
}

/// S <id> <n> {time user max orig len p0..p10 hexphrase}: open a v1 store with SqliteDictionary::open, list entries
fn sqlite_v1_line(t: &[&str]) -> String {
    let n: usize = t[2].parse().unwrap();
    let mut recs = vec![];
    let mut i = 3;
    for _ in 0..n {
        let time: i32 = t[i].parse().unwrap();
        let user: i32 = t[i + 1].parse().unwrap();
        let max: i32 = t[i + 2].parse().unwrap();
        let orig: i32 = t[i + 3].parse().unwrap();
        let len: usize = t[i + 4].parse().unwrap();
        let phones: Vec<u16> = (0..11).map(|k| t[i + 5 + k].parse().unwrap()).collect();
        let phrase = String::from_utf8(unhex(t[i + 16])).unwrap();
        i += 17;
        recs.push((LRec { phrase, syls: vec![], user, time, max, orig, deleted: false }, len, phones));
    }
    let dir = scratch_dir();
    let path = dir.join("chewing.sqlite3");
    {
        let conn = rusqlite::Connection::open(&path).expect("create sqlite");
        conn.execute_batch(V1_DDL).expect("v1 ddl");
        for (r, len, phones) in &recs {
            let mut v: Vec<rusqlite::types::Value> =
                vec![(r.time as i64).into(), (r.user as i64).into(), (r.max as i64).into(), (r.orig as i64).into(), (*len as i64).into()];
            for p in phones {
                v.push((*p as i64).into());
            }
            v.push(r.phrase.clone().into());
            let _ = conn.execute(
                "INSERT OR REPLACE INTO userphrase_v1 VALUES (?1,?2,?3,?4,?5,?6,?7,?8,?9,?10,?11,?12,?13,?14,?15,?16,?17)",
                rusqlite::params_from_iter(v),
            );
        }
        conn.close().expect("close");
    }
    let p2 = path.clone();
    let r = catch(move || chewing::dictionary::SqliteDictionary::open(&p2).map(|d| dict_entries(&d)));
    let s = match r {
        Err(_) => "panic".to_string(),
        Ok(Err(_)) => "err".to_string(),
        Ok(Ok(v)) => fmt_entries(&v),
    };
    let _ = std::fs::remove_dir_all(&dir);
    s
}

// ------------------------------------------------------------------ property oracles on the implementation

#[derive(Clone, Copy, Debug, PartialEq)]
enum Format {
    Bin,
    Text,
    SqliteV1,
    SqliteV2,
}

const FORMATS: [Format; 4] = [Format::Bin, Format::Text, Format::SqliteV1, Format::SqliteV2];

struct Store {
    fmt: Format,
    lifetime: i64,
    recs: Vec<LRec>,
    learn: Vec<Vec<(Vec<u16>, String, u32)>>,
    via_capi: bool,
}

fn composable_only(recs: &mut [LRec], rng: &mut Rng) {
    for r in recs.iter_mut() {
        for s in r.syls.iter_mut() {
            loop {
                let v = ((rng.below(22) << 9) | (rng.below(4) << 7) | (rng.below(14) << 3) | rng.below(6)) as u16;
                if v != 0 {
                    *s = v;
                    break;
                }
            }
        }
    }
}

fn gen_history(tier: &str, index: usize) -> Store {
    let seed = seed_from_env();
    let mut rng = Rng::new(seed.wrapping_mul(6364136223846793005).wrapping_add(0xc19).wrapping_add(index as u64));
    let fmt = FORMATS[index % 4];
    let big = if tier == "thorough" { 2000 } else { 50 };
    let max = if index % 16 >= 12 { big } else { 10 };
    let via_capi = index % 5 == 4;
    let mut recs = gen_store(&mut rng, max, fmt == Format::Bin);
    if via_capi || rng.chance(1, 2) {
        composable_only(&mut recs, &mut rng);
        // keys must stay distinct
        let mut seen = std::collections::BTreeSet::new();
        recs.retain(|r| seen.insert((r.syls.clone(), r.phrase.clone())));
    }
    // homographs: the same written phrase under a second reading (行 ㄒㄧㄥˊ / ㄏㄤˊ); relearning one
    // reading in a later session must leave the other one alone (seeded change C19-B)
    let mut homographs: Vec<usize> = vec![];
    if !recs.is_empty() && rng.chance(1, 2) {
        for _ in 0..(1 + rng.below(3)) {
            let i = rng.below(recs.len() as u64) as usize;
            if recs[i].dead() {
                continue;
            }
            let mut twin = vec![recs[i].clone()];
            composable_only(&mut twin, &mut rng);
            if !recs.iter().any(|r| r.syls == twin[0].syls && r.phrase == twin[0].phrase) {
                homographs.push(i);
                homographs.push(recs.len());
                recs.push(twin.pop().unwrap());
            }
        }
    }
    let lifetime = gen_lifetime(&mut rng);
    let sessions = (rng.range(1, 3) as usize).max(if homographs.is_empty() { 1 } else { 2 });
    let mut learn = vec![];
    for _ in 0..sessions {
        let mut l = vec![];
        for _ in 0..(rng.below(4) + (!homographs.is_empty()) as u64) {
            if !recs.is_empty() && (rng.chance(1, 3) || !homographs.is_empty() && rng.chance(1, 2)) && !via_capi {
                // relearn a migrated phrase with a higher frequency
                let pick = if !homographs.is_empty() && rng.chance(2, 3) { homographs[rng.below(homographs.len() as u64) as usize] } else { rng.below(recs.len() as u64) as usize };
                let r = &recs[pick];
                if !r.dead() {
                    l.push((r.syls.clone(), r.phrase.clone(), (r.user as u32).saturating_add(1 + rng.below(50) as u32)));
                    continue;
                }
            }
            let len = rng.range(1, 4) as usize;
            let mut r = vec![gen_rec(&mut rng, len, false)];
            composable_only(&mut r, &mut rng);
            l.push((r[0].syls.clone(), r[0].phrase.clone(), 1 + rng.below(5000) as u32));
        }
        learn.push(l);
    }
    Store { fmt, lifetime, recs, learn, via_capi }
}

fn write_store(dir: &Path, st: &Store) {
    match st.fmt {
        Format::Bin => std::fs::write(dir.join("uhash.dat"), write_bin(st.lifetime as i32, &st.recs)).unwrap(),
        Format::Text => std::fs::write(dir.join("uhash.dat"), write_text(st.lifetime, &st.recs)).unwrap(),
        Format::SqliteV1 => write_sqlite_v1(&dir.join("chewing.sqlite3"), st.lifetime, &st.recs),
        Format::SqliteV2 => write_sqlite_v2(&dir.join("chewing.sqlite3"), &st.recs),
    }
}

fn legacy_snapshot(dir: &Path, fmt: Format) -> Vec<String> {
    match fmt {
        Format::Bin | Format::Text => vec![hex(&std::fs::read(dir.join("uhash.dat")).unwrap_or_default())],
        _ => sqlite_legacy_rows(&dir.join("chewing.sqlite3")),
    }
}

fn expected_entries(st: &Store) -> BTreeMap<Key, u32> {
    let mut m = BTreeMap::new();
    for (i, r) in st.recs.iter().enumerate() {
        if r.dead() {
            continue;
        }
        let _ = i;
        m.insert((r.syls.clone(), r.phrase.as_bytes().to_vec()), r.user as u32);
    }
    m
}

/// wait until the background writer has replaced chewing.dat with a file of n entries (C10 owns the race)
fn wait_for_file(path: &Path, n: usize) -> bool {
    let t0 = Instant::now();
    loop {
        if let Ok(t) = Trie::open(path) {
            if t.entries().count() == n {
                return true;
            }
        }
        if t0.elapsed() > Duration::from_secs(20) {
            return false;
        }
        std::thread::sleep(Duration::from_millis(2));
    }
}

fn cmp_entries(got: &[(Key, u32)], want: &BTreeMap<Key, u32>, what: &str, fails: &mut Vec<(String, String)>) {
    let mut seen = BTreeMap::new();
    for (k, f) in got {
        if seen.insert(k.clone(), *f).is_some() {
            fails.push((format!("{}-duplicated", what), format!("key {} listed twice", fmt_entry(&k.0, &k.1, *f as u64, None))));
            return;
        }
    }
    for (k, f) in want {
        match seen.get(k) {
            None => {
                fails.push((format!("{}-missing", what), format!("{} absent ({} of {} entries present)", fmt_entry(&k.0, &k.1, *f as u64, None), seen.len(), want.len())));
                return;
            }
            Some(g) if g != f => {
                fails.push((format!("{}-freq", what), format!("{} has frequency {}", fmt_entry(&k.0, &k.1, *f as u64, None), g)));
                return;
            }
            _ => {}
        }
    }
    for (k, f) in &seen {
        if !want.contains_key(k) {
            fails.push((format!("{}-extra", what), format!("unexpected {}", fmt_entry(&k.0, &k.1, *f as u64, None))));
            return;
        }
    }
}

fn syl_string(s: &[u16]) -> String {
    s.iter().map(|x| Syllable::try_from(*x).map(|y| y.to_string()).unwrap_or_default()).collect::<Vec<_>>().join(" ")
}

/// one start-up through the Rust loader; returns the entries seen and persists `learn`
fn session_rust(target: &Path, learn: &[(Vec<u16>, String, u32)], expect_n: usize, reap: bool) -> Result<Vec<(Key, u32)>, String> {
    let t2 = target.to_path_buf();
    let learn = learn.to_vec();
    catch(move || -> Result<Vec<(Key, u32)>, String> {
        let mut d = UserDictionaryLoader::new().userphrase_path(&t2).load().map_err(|e| format!("load error {e}"))?;
        let seen = dict_entries(d.as_ref());
        if !learn.is_empty() {
            if !wait_for_file(&t2, expect_n) {
                return Err("chewing.dat never reached the migrated size".to_string());
            }
            let dm = d.as_dict_mut().ok_or("not mutable")?;
            if reap {
                let _ = dm.reopen();
            }
            for (syls, phrase, freq) in &learn {
                let ss: Vec<Syllable> = syls.iter().map(|x| Syllable::try_from(*x).unwrap()).collect();
                dm.update_phrase(&ss, Phrase::new(phrase.as_str(), *freq), *freq, 1).map_err(|e| format!("update error {e}"))?;
            }
            dm.flush().map_err(|e| format!("flush error {e}"))?;
        }
        drop(d);
        Ok(seen)
    })
    .unwrap_or_else(|p| Err(format!("panic: {p}")))
}

/// one start-up through chewing_new2; learning through chewing_userphrase_add
fn session_capi(target: &Path, learn: &[(Vec<u16>, String, u32)], expect_n: usize) -> Result<Vec<(Key, u32)>, String> {
    use chewing_capi::setup::{chewing_delete, chewing_new2};
    use chewing_capi::userphrase::{chewing_userphrase_add, chewing_userphrase_enumerate, chewing_userphrase_get, chewing_userphrase_has_next};
    use std::ffi::{CStr, CString};
    let sys = CString::new("/repo/tests/data").unwrap();
    let user = CString::new(target.to_str().unwrap()).unwrap();
    let mut seen = vec![];
    unsafe {
        let ctx = chewing_new2(sys.as_ptr(), user.as_ptr(), None, std::ptr::null_mut());
        if ctx.is_null() {
            return Err("chewing_new2 returned NULL".to_string());
        }
        chewing_userphrase_enumerate(ctx);
        loop {
            let (mut pl, mut bl) = (0u32, 0u32);
            if chewing_userphrase_has_next(ctx, &mut pl, &mut bl) != 1 {
                break;
            }
            let mut pb = vec![0u8; pl as usize + 1];
            let mut bb = vec![0u8; bl as usize + 1];
            if chewing_userphrase_get(ctx, pb.as_mut_ptr() as *mut _, pb.len() as u32, bb.as_mut_ptr() as *mut _, bb.len() as u32) != 0 {
                break;
            }
            let p = CStr::from_ptr(pb.as_ptr() as *const _).to_bytes().to_vec();
            let b = CStr::from_ptr(bb.as_ptr() as *const _).to_str().unwrap_or("").to_string();
            let syls: Vec<u16> = b.split(' ').filter(|x| !x.is_empty()).map(|x| x.parse::<Syllable>().map(|s| s.to_u16()).unwrap_or(0)).collect();
            seen.push(((syls, p), 0u32));
        }
        if !learn.is_empty() {
            if !wait_for_file(target, expect_n) {
                chewing_delete(ctx);
                return Err("chewing.dat never reached the migrated size".to_string());
            }
            for (syls, phrase, _) in learn {
                let p = CString::new(phrase.as_str()).unwrap();
                let b = CString::new(syl_string(syls)).unwrap();
                chewing_userphrase_add(ctx, p.as_ptr(), b.as_ptr());
            }
        }
        chewing_delete(ctx);
    }
    seen.sort();
    Ok(seen)
}

fn describe_store(st: &Store) -> String {
    let kind = match st.fmt {
        Format::Bin => 'b',
        Format::Text => 't',
        Format::SqliteV1 => '1',
        Format::SqliteV2 => '2',
    };
    let mut s = emit_p(0, kind, st.lifetime, &st.recs);
    s.truncate(4000);
    s
}

/// run one generated history; returns (oracle, detail) failures
fn run_history(st: &Store) -> Vec<(String, String)> {
    let mut fails = vec![];
    let dir = scratch_dir();
    write_store(&dir, st);
    let target = dir.join("chewing.dat");
    let legacy0 = legacy_snapshot(&dir, st.fmt);
    let mut want = expected_entries(st);
    let mut first = true;
    let mut sessions: Vec<Vec<(Vec<u16>, String, u32)>> = st.learn.clone();
    sessions.push(vec![]); // a final start-up without learning
    sessions.push(vec![]);
    for (si, learn) in sessions.iter().enumerate() {
        let n_before = want.len();
        let r = if st.via_capi { session_capi(&target, learn, n_before) } else { session_rust(&target, learn, n_before, si % 2 == 0) };
        match r {
            Err(e) => {
                fails.push((if first { "migration-failed".to_string() } else { "restart-failed".to_string() }, e));
                break;
            }
            Ok(seen) => {
                let what = if first { "migration" } else { "restart" };
                if st.via_capi {
                    // the C API shows phrase and reading only
                    let w0: BTreeMap<Key, u32> = want.keys().map(|k| (k.clone(), 0)).collect();
                    cmp_entries(&seen, &w0, what, &mut fails);
                } else {
                    cmp_entries(&seen, &want, what, &mut fails);
                }
            }
        }
        if !fails.is_empty() {
            break;
        }
        first = false;
        for (syls, phrase, freq) in learn {
            let k = (syls.clone(), phrase.as_bytes().to_vec());
            if st.via_capi {
                // frequency chosen by the editor's estimate; migrated entries are relearned only in the Rust flow
                want.entry(k).or_insert(u32::MAX);
            } else {
                want.insert(k, *freq);
            }
        }
        if st.via_capi {
            // read the frequencies back from the file: migrated ones must be unchanged
            if let Ok(t) = Trie::open(&target) {
                let file = dict_entries(&t);
                let mut w2 = want.clone();
                for (k, f) in &file {
                    if w2.get(k) == Some(&u32::MAX) {
                        w2.insert(k.clone(), *f);
                    }
                }
                cmp_entries(&file, &w2, "file", &mut fails);
                want = w2;
            }
        }
        let legacy = legacy_snapshot(&dir, st.fmt);
        if legacy != legacy0 {
            fails.push(("legacy-store-changed".to_string(), format!("after start-up {}: {} rows/bytes before, {} after", si + 1, legacy0.len(), legacy.len())));
            break;
        }
    }
    let _ = std::fs::remove_dir_all(&dir);
    fails
}

fn oracle(tier: &str, out: &str) -> i32 {
    let mut n = if tier == "thorough" { 1600 } else { 160 };
    let mut failures = vec![];
    let mut by_fmt: BTreeMap<String, usize> = BTreeMap::new();
    let mut hist: BTreeMap<usize, usize> = BTreeMap::new();
    let mut nontrivial = 0usize;
    let mut records = 0usize;
    let mut startups = 0usize;
    // corpus first: stores that failed once
    let mut corpus_fail = vec![];
    if let Ok(rd) = std::fs::read_dir("/verif/corpus") {
        let mut files: Vec<_> = rd.flatten().map(|e| e.path()).filter(|p| p.file_name().unwrap().to_string_lossy().starts_with("C19-")).collect();
        files.sort();
        for f in files {
            let txt = std::fs::read_to_string(&f).unwrap_or_default();
            let get = |key: &str| -> Option<String> {
                let k = format!("\"{}\": \"", key);
                let i = txt.find(&k)? + k.len();
                let j = txt[i..].find('"')? + i;
                Some(txt[i..j].to_string())
            };
            if let (Some(input), Some(expect)) = (get("input"), get("expect")) {
                let got = migrate_line(&unhex(&input));
                startups += 1;
                if got != expect {
                    corpus_fail.push((f.display().to_string(), input, got, expect));
                }
            }
        }
    }
    for i in 0..n {
        let st = gen_history(tier, i);
        *by_fmt.entry(format!("{:?}{}", st.fmt, if st.via_capi { "-capi" } else { "" })).or_insert(0) += 1;
        let bucket = match st.recs.len() {
            0 => 0,
            1..=10 => 10,
            11..=50 => 50,
            51..=500 => 500,
            _ => 2000,
        };
        *hist.entry(bucket).or_insert(0) += 1;
        records += st.recs.len();
        startups += st.learn.len() + 2;
        if st.recs.iter().any(|r| !r.dead()) && st.learn.iter().any(|l| !l.is_empty()) {
            nontrivial += 1;
        }
        let fails = run_history(&st);
        for (o, d) in fails {
            failures.push((o, i, describe_store(&st), d));
        }
        // a dozen failing histories say enough (a start-up that never writes its file costs a 20 s wait each)
        if failures.len() >= 12 {
            n = i + 1;
            break;
        }
    }
    let mut j = String::new();
    let _ = write!(
        j,
        "{{\"evaluations\":{},\"histories\":{},\"records\":{},\"nontrivial\":{},\"by_format\":{{{}}},\"records_histogram\":{{{}}},\"failures\":[",
        startups,
        n,
        records,
        nontrivial,
        by_fmt.iter().map(|(k, v)| format!("{}:{}", json_str(k), v)).collect::<Vec<_>>().join(","),
        hist.iter().map(|(k, v)| format!("\"<={}\":{}", k, v)).collect::<Vec<_>>().join(",")
    );
    let mut firstf = true;
    for (f, input, got, expect) in &corpus_fail {
        if !firstf {
            j.push(',');
        }
        firstf = false;
        let _ = write!(
            j,
            "{{\"oracle\":\"migration-incomplete\",\"replay\":[\"migrate\",{}],\"input\":{},\"detail\":{}}}",
            json_str(input),
            json_str(f),
            json_str(&format!("got {} expected {}", got, expect))
        );
    }
    for (o, i, store, d) in failures.iter().take(20) {
        if !firstf {
            j.push(',');
        }
        firstf = false;
        let _ = write!(
            j,
            "{{\"oracle\":{},\"replay\":[\"store\",{},\"{}\"],\"input\":{},\"detail\":{}}}",
            json_str(o),
            json_str(tier),
            i,
            json_str(store),
            json_str(d)
        );
    }
    j.push_str("]}");
    std::fs::write(out, j).expect("write json");
    if failures.is_empty() && corpus_fail.is_empty() { 0 } else { 1 }
}

// ------------------------------------------------------------------ replay

fn replay(args: &[String]) -> i32 {
    match args.first().map(|s| s.as_str()) {
        Some("load") => {
            let b = unhex(&args[1]);
            let l = load_line(&b);
            println!("{}", l);
            if l.contains("panic") { 1 } else { 0 }
        }
        Some("migrate") => {
            let b = unhex(&args[1]);
            let l = migrate_line(&b);
            println!("{}", l);
            if l.contains("panic") { 1 } else { 0 }
        }
        Some("store") => {
            let st = gen_history(&args[1], args[2].parse().unwrap());
            println!("{}", describe_store(&st));
            let fails = run_history(&st);
            for (o, d) in &fails {
                println!("FAIL {} {}", o, d);
            }
            if fails.is_empty() { 0 } else { 1 }
        }
        _ => {
            eprintln!("usage: c19 replay load|migrate <hex> | store <tier> <index>");
            2
        }
    }
}

/// Every start-up of this harness names the user dictionary file explicitly (userphrase_path / the userpath of
/// chewing_new2).  The per-user directory of the environment (CHEWING_USER_PATH) is then none of the loader's
/// business: it is pointed at a directory that holds a legacy store of its own, whose two records must never
/// show up in any migrated dictionary (they would be reported as `*-extra`, the records they displaced as
/// `*-missing`).
fn install_decoy_user_dir() -> PathBuf {
    let base = std::env::var("VERIF_SCRATCH").unwrap_or_else(|_| "/verif/_build/work/c19-scratch".to_string());
    let d = PathBuf::from(base).join(format!("decoy-{}", std::process::id()));
    let _ = std::fs::remove_dir_all(&d);
    std::fs::create_dir_all(&d).expect("decoy dir");
    let syl = |s: &str| s.parse::<Syllable>().expect("decoy syllable").to_u16();
    let recs = vec![
        LRec { phrase: "誘餌".to_string(), syls: vec![syl("ㄧㄡˋ"), syl("ㄦˇ")], user: 7, time: 1, max: 7, orig: 0, deleted: false },
        LRec { phrase: "餌".to_string(), syls: vec![syl("ㄦˇ")], user: 3, time: 2, max: 3, orig: 0, deleted: false },
    ];
    std::fs::write(d.join("uhash.dat"), write_text(5, &recs)).expect("decoy uhash.dat");
    // before any thread exists
    unsafe { std::env::set_var("CHEWING_USER_PATH", &d) };
    d
}

fn main() {
    let args: Vec<String> = std::env::args().skip(1).collect();
    let decoy = install_decoy_user_dir();
    let rc = match args.first().map(|s| s.as_str()) {
        Some("views") => views(&args[1], &args[2], &args[3]),
        Some("corrupt") => corrupt(&args[1], &args[2]),
        Some("oracle") => oracle(&args[1], &args[2]),
        Some("worker") => worker(&args[1], args[2].parse().unwrap()),
        Some("replay") => replay(&args[1..]),
        _ => {
            eprintln!("usage: c19 views|corrupt|oracle|replay ...");
            2
        }
    };
    let _ = std::fs::remove_dir_all(&decoy);
    std::process::exit(rc);
}
