//! vharness: drives /repo's current working tree for the correspondence checks
//! (model vs implementation) and evaluates the property oracles on the
//! implementation (the failing-input search).  One sub-command per property.
#![allow(clippy::all)]
mod c13;
mod util;

fn main() {
    let args: Vec<String> = std::env::args().collect();
    if args.len() < 2 {
        eprintln!("usage: vharness <cmd> ...");
        std::process::exit(2);
    }
    let rest = &args[2..];
    let code = match args[1].as_str() {
        "c13" => c13::main(rest),
        other => {
            eprintln!("unknown command {other}");
            2
        }
    };
    std::process::exit(code);
}
