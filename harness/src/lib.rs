//! vharness: shared helpers for the per-property harness binaries (src/bin/*.rs).
//! Each binary drives /repo's current working tree for one property group: it
//! prints the implementation side of the correspondence views and evaluates the
//! property oracles on the implementation (the failing-input search).
#![allow(clippy::all)]
pub mod util;
