//! PRNG, JSON helpers, panic capture.
use std::fmt::Write as _;

/// splitmix64-seeded xoshiro256** - every random choice of the harness comes
/// from one of these, seeded from VERIF_SEED and a case index.
#[derive(Clone)]
pub struct Rng {
    s: [u64; 4],
}

fn splitmix(x: &mut u64) -> u64 {
    *x = x.wrapping_add(0x9E3779B97F4A7C15);
    let mut z = *x;
    z = (z ^ (z >> 30)).wrapping_mul(0xBF58476D1CE4E5B9);
    z = (z ^ (z >> 27)).wrapping_mul(0x94D049BB133111EB);
    z ^ (z >> 31)
}

impl Rng {
    pub fn new(seed: u64) -> Rng {
        let mut x = seed;
        Rng {
            s: [splitmix(&mut x), splitmix(&mut x), splitmix(&mut x), splitmix(&mut x)],
        }
    }
    pub fn next(&mut self) -> u64 {
        let r = self.s[1].wrapping_mul(5).rotate_left(7).wrapping_mul(9);
        let t = self.s[1] << 17;
        self.s[2] ^= self.s[0];
        self.s[3] ^= self.s[1];
        self.s[1] ^= self.s[2];
        self.s[0] ^= self.s[3];
        self.s[2] ^= t;
        self.s[3] = self.s[3].rotate_left(45);
        r
    }
    pub fn below(&mut self, n: u64) -> u64 {
        if n == 0 { 0 } else { self.next() % n }
    }
    pub fn range(&mut self, lo: i64, hi: i64) -> i64 {
        lo + self.below((hi - lo + 1) as u64) as i64
    }
    pub fn chance(&mut self, num: u64, den: u64) -> bool {
        self.below(den) < num
    }
    pub fn pick<'a, T>(&mut self, xs: &'a [T]) -> &'a T {
        &xs[self.below(xs.len() as u64) as usize]
    }
}

pub fn json_str(s: &str) -> String {
    let mut o = String::with_capacity(s.len() + 2);
    o.push('"');
    for c in s.chars() {
        match c {
            '"' => o.push_str("\\\""),
            '\\' => o.push_str("\\\\"),
            '\n' => o.push_str("\\n"),
            '\r' => o.push_str("\\r"),
            '\t' => o.push_str("\\t"),
            c if (c as u32) < 0x20 => {
                let _ = write!(o, "\\u{:04x}", c as u32);
            }
            c => o.push(c),
        }
    }
    o.push('"');
    o
}

/// Run f, turning a panic into Err(message).  The default hook is silenced
/// while f runs so expected panics do not flood stderr.
pub fn catch<F: FnOnce() -> R + std::panic::UnwindSafe, R>(f: F) -> Result<R, String> {
    let prev = std::panic::take_hook();
    std::panic::set_hook(Box::new(|_| {}));
    let r = std::panic::catch_unwind(f);
    std::panic::set_hook(prev);
    r.map_err(|e| {
        if let Some(s) = e.downcast_ref::<&str>() {
            s.to_string()
        } else if let Some(s) = e.downcast_ref::<String>() {
            s.clone()
        } else {
            "panic".to_string()
        }
    })
}

pub fn seed_from_env() -> u64 {
    std::env::var("VERIF_SEED").ok().and_then(|s| s.parse::<i64>().ok()).unwrap_or(1) as u64
}
