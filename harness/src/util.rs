//! PRNG, JSON helpers, panic capture.
use std::fmt::Write as _;

/// splitmix64-seeded xoshiro256** - every random choice of the harness comes
/// from one of these, seeded from VERIF_SEED and a case index.
#[derive(Clone)]
pub struct Rng {
    s: [u64; 4],
}

fn splitmix(x: &mut u64) -> u64 {
    *x = x.wrapping_add(0x9E3779B97F4A7C15);
    let mut z = *x;
    z = (z ^ (z >> 30)).wrapping_mul(0xBF58476D1CE4E5B9);
    z = (z ^ (z >> 27)).wrapping_mul(0x94D049BB133111EB);
    z ^ (z >> 31)
}

impl Rng {
    pub fn new(seed: u64) -> Rng {
        let mut x = seed;
        Rng {
            s: [splitmix(&mut x), splitmix(&mut x), splitmix(&mut x), splitmix(&mut x)],
        }
    }
    pub fn next(&mut self) -> u64 {
        let r = self.s[1].wrapping_mul(5).rotate_left(7).wrapping_mul(9);
        let t = self.s[1] << 17;
        self.s[2] ^= self.s[0];
        self.s[3] ^= self.s[1];
        self.s[1] ^= self.s[2];
        self.s[0] ^= self.s[3];
        self.s[2] ^= t;
        self.s[3] = self.s[3].rotate_left(45);
        r
    }
    pub fn below(&mut self, n: u64) -> u64 {
        if n == 0 { 0 } else { self.next() % n }
    }
    pub fn range(&mut self, lo: i64, hi: i64) -> i64 {
        lo + self.below((hi - lo + 1) as u64) as i64
    }
    pub fn chance(&mut self, num: u64, den: u64) -> bool {
        self.below(den) < num
    }
    pub fn pick<'a, T>(&mut self, xs: &'a [T]) -> &'a T {
        &xs[self.below(xs.len() as u64) as usize]
    }
}

pub fn json_str(s: &str) -> String {
    let mut o = String::with_capacity(s.len() + 2);
    o.push('"');
    for c in s.chars() {
        match c {
            '"' => o.push_str("\\\""),
            '\\' => o.push_str("\\\\"),
            '\n' => o.push_str("\\n"),
            '\r' => o.push_str("\\r"),
            '\t' => o.push_str("\\t"),
            c if (c as u32) < 0x20 => {
                let _ = write!(o, "\\u{:04x}", c as u32);
            }
            c => o.push(c),
        }
    }
    o.push('"');
    o
}

/// Run f, turning a panic into Err(message).  The default hook is silenced
/// while f runs so expected panics do not flood stderr.
pub fn catch<F: FnOnce() -> R + std::panic::UnwindSafe, R>(f: F) -> Result<R, String> {
    let prev = std::panic::take_hook();
    std::panic::set_hook(Box::new(|_| {}));
    let r = std::panic::catch_unwind(f);
    std::panic::set_hook(prev);
    r.map_err(|e| {
        if let Some(s) = e.downcast_ref::<&str>() {
            s.to_string()
        } else if let Some(s) = e.downcast_ref::<String>() {
            s.clone()
        } else {
            "panic".to_string()
        }
    })
}

pub fn seed_from_env() -> u64 {
    std::env::var("VERIF_SEED").ok().and_then(|s| s.parse::<i64>().ok()).unwrap_or(1) as u64
}

/// One DER TLV with a definite length at `*p`: (start, len) of its content; `*p` moves past it.
fn der_tlv(b: &[u8], p: &mut usize, tag: u8) -> Option<(usize, usize)> {
    if *b.get(*p)? != tag {
        return None;
    }
    let l0 = *b.get(*p + 1)? as usize;
    let (len, hdr) = if l0 < 0x80 {
        (l0, 2)
    } else {
        let n = l0 & 0x7f;
        let mut v = 0usize;
        for k in 0..n {
            v = (v << 8) | *b.get(*p + 2 + k)? as usize;
        }
        (v, 2 + n)
    };
    let start = *p + hdr;
    if start + len > b.len() {
        return None;
    }
    *p = start + len;
    Some((start, len))
}

/// The sibling records of every node of a trie dictionary file in another order (mode 1: reversed, mode 2: rotated
/// by one); a leaf record stays the first child.  The format does not require siblings to be sorted (the reader's
/// structural validation accepts any order; TrieBuilder happens to write them ascending).
pub fn permute_trie_siblings(bytes: &[u8], mode: u8) -> Option<Vec<u8>> {
    if mode == 0 {
        return Some(bytes.to_vec());
    }
    let mut p = 0;
    let (ds, dl) = der_tlv(bytes, &mut p, 0x30)?;
    let mut q = ds;
    let doc_end = ds + dl;
    der_tlv(&bytes[..doc_end], &mut q, 0x0c)?;
    der_tlv(&bytes[..doc_end], &mut q, 0x02)?;
    der_tlv(&bytes[..doc_end], &mut q, 0x30)?;
    let (is, il) = der_tlv(&bytes[..doc_end], &mut q, 0x04)?;
    let n = il / 8;
    let rec = |b: &[u8], i: usize| -> (usize, usize, u16) {
        let c = &b[is + 8 * i..is + 8 * i + 8];
        (u32::from_be_bytes([c[0], c[1], c[2], c[3]]) as usize, u16::from_be_bytes([c[4], c[5]]) as usize, u16::from_be_bytes([c[6], c[7]]))
    };
    // the index is laid out breadth first (a node's child range starts where the previous node's ended: the reader
    // checks it), so another sibling order means another layout: the tree is re-emitted breadth first with the
    // children of every node in the new order; leaf records keep their data ranges, the phrase data stays in place
    let recs: Vec<(usize, usize, u16)> = (0..n).map(|i| rec(bytes, i)).collect();
    let mut newrecs: Vec<(usize, usize, u16)> = vec![(0, 0, 0); n];
    let mut queue: std::collections::VecDeque<(usize, usize)> = std::collections::VecDeque::new();
    if n == 0 {
        return None;
    }
    queue.push_back((0, 0));
    let mut next = 1usize;
    let mut seen = 0usize;
    while let Some((old, newi)) = queue.pop_front() {
        seen += 1;
        if seen > n {
            return None;
        }
        let (cb, len, syl) = recs[old];
        if old != 0 && syl == 0 {
            newrecs[newi] = recs[old];
            continue;
        }
        if len == 0 {
            newrecs[newi] = recs[old];
            continue;
        }
        if cb + len > n || next + len > n {
            return None;
        }
        let first = if recs[cb].2 == 0 { 1 } else { 0 };
        let mut kids: Vec<usize> = (cb..cb + len).collect();
        if mode == 1 {
            kids[first..].reverse();
        } else if kids.len() - first >= 2 {
            kids[first..].rotate_left(1);
        }
        newrecs[newi] = (next, len, syl);
        for (j, k) in kids.iter().enumerate() {
            queue.push_back((*k, next + j));
        }
        next += len;
    }
    if next != n {
        return None;
    }
    let mut out = bytes.to_vec();
    for (i, r) in newrecs.iter().enumerate() {
        out[is + 8 * i..is + 8 * i + 4].copy_from_slice(&(r.0 as u32).to_be_bytes());
        out[is + 8 * i + 4..is + 8 * i + 6].copy_from_slice(&(r.1 as u16).to_be_bytes());
        out[is + 8 * i + 6..is + 8 * i + 8].copy_from_slice(&r.2.to_be_bytes());
    }
    Some(out)
}
